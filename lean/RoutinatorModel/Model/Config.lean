/-!
# Model of `src/config.rs`: command line → `Config` → `to_toml` → `from_config_file`

The model is *generic over a table* (`Table`) that is regenerated from the Rust source on
every run (`Generated/ConfigKeys.lean`, by `extract/config_keys.py`): one `Row` per field
of `struct Config` with

* `default`  — the initialiser in `Config::default_with_paths`,
* `reader`   — the initialiser in `Config::from_config_file` (which `take_*` reader, i.e.
               type and range, which key, what happens when the key is absent),
* `printer`  — the `insert`/`insert_int` call in `Config::to_toml` (key, presence
               condition, encoding),
* `clis`     — the statements of `apply_arg_matches`/`apply_server_arg_matches` that set
               the field, joined with the clap declaration of the option (type, range).

TOML itself is abstract: a document is a list `key ↦ Val` (`toml_edit` is trusted and is
exercised by the correspondence harness). Strings are lists of UTF-8 bytes, keys / field
names / option names are interned numbers (index into `Generated.configNames`), so every
table check is kernel-friendly.

Hand-modelled (the extractor fingerprints the Rust blocks and marks the table entry
`unknown` when they change): the log target (`log`, `syslog-facility`, `log-file`;
`--syslog`, `--syslog-facility`, `--logfile`) and the verbosity counters (`-v`, `-q`).
-/
namespace RoutinatorModel.Config

/-- A string as UTF-8 bytes. -/
abbrev Str := List Nat

/-- `i64::MAX`: the largest integer a TOML document can hold. -/
def i64Max : Nat := 9223372036854775807

/-! ## Abstract TOML -/

/-- The shapes of TOML values the readers distinguish. `other` is everything else
(float, date, table, mixed array, …): every reader rejects it. An empty array is `strs []`. -/
inductive Val where
  | bool (b : Bool)
  | int (i : Int)
  | str (s : Str)
  | strs (l : List Str)
  | pairs (l : List (Str × Str))
  | other
  deriving DecidableEq, Repr, Inhabited

/-- A parsed config file: key ↦ value (the TOML parser rejects duplicate keys). -/
abbrev Doc := List (Nat × Val)

/-! ## Config values -/

/-- `LogTarget` variants. -/
inductive LogKind | dflt | syslog | stderr | file
  deriving DecidableEq, Repr, Inhabited

/-- The value of one `Config` field.
`nat`: `usize`/`u64`/`Duration` (whole seconds); `str`: `String`, `PathBuf`, and every type
printed via `Display` and read via `FromStr` (held as its `Display` string); `pairs`: the
`tal_labels` map as an association list; `log k a`: `LogTarget` (`a` is the facility name
for `dflt`/`syslog`, the path for `file`, empty for `stderr`). -/
inductive FVal where
  | bool (b : Bool)
  | nat (n : Nat)
  | optNat (o : Option Nat)
  | str (s : Str)
  | optStr (o : Option Str)
  | strs (l : List Str)
  | optStrs (o : Option (List Str))
  | pairs (l : List (Str × Str))
  | log (k : LogKind) (arg : Str)
  deriving DecidableEq, Repr, Inhabited

/-- A configuration: one value per table row, in row order. -/
abbrev Config := List FVal

/-! ## The table -/

inductive FTy | bool | nat | optNat | str | optStr | strs | optStrs | pairs | log | unknown
  deriving DecidableEq, Repr, Inhabited

/-- How a string reaches its field: as is (`raw`), `dir.join(s)` (`path`), `PathBuf::from_str`
without joining (`plainPath`), or `T::from_str` for the Rust type with id `ty` (`parsed`). -/
inductive SKind | raw | path | plainPath | parsed (ty : Nat)
  deriving DecidableEq, Repr, Inhabited

/-- The unit of an integer in the file / on the command line relative to the field. -/
inductive NUnit | plain | secs | other
  deriving DecidableEq, Repr, Inhabited

/-- The correspondence between a field value and the presence/value of its key. -/
inductive Codec
  | bool           -- always printed boolean
  | nat            -- always printed integer
  | natZeroNone    -- `Option`: `None` ↔ 0, always printed
  | natPresent     -- `Option`: `None` ↔ key absent
  | str            -- always printed string
  | strPresent     -- `Option`: `None` ↔ key absent
  | strs           -- always printed array of strings
  | strsPresent    -- `Option<Vec>`: `None` ↔ key absent
  | pairsNonEmpty  -- map: empty ↔ key absent
  | log            -- the three keys of the log target
  | unknown
  deriving DecidableEq, Repr, Inhabited

/-- A default: a literal, or an environment-dependent value (0: default config file path,
1: default cache dir, 2: `available_parallelism()`, 3: the user agent string). -/
inductive Dflt | lit (v : FVal) | env (i : Nat) | unknown
  deriving DecidableEq, Repr, Inhabited

structure Printer where
  keys : List Nat
  codec : Codec
  unit : NUnit := .plain
  /-- printed through `insert_int` (`try_into::<i64>().unwrap_or(i64::MAX)`) -/
  clamp : Bool := false
  deriving DecidableEq, Repr, Inhabited

inductive RKind | file | const | filePath | unknown
  deriving DecidableEq, Repr, Inhabited

structure Reader where
  kind : RKind
  keys : List Nat := []
  codec : Codec := .unknown
  unit : NUnit := .plain
  sk : SKind := .raw
  /-- largest integer the `take_*` reader accepts -/
  max : Nat := 0
  /-- value when the key is absent; `none`: the key is mandatory -/
  absent : Option Dflt := none
  /-- `take_path_array`: a single string stands for a one-element array -/
  single : Bool := false
  /-- `kind = const`: the field is not read from the file at all -/
  const : Dflt := .unknown
  deriving DecidableEq, Repr, Inhabited

inductive CliAct
  | setTrue | nat | natZeroNone | natSome | str | strSome | strs
  | logSyslog | logFacility | logFile | verbose | quiet | unknown
  deriving DecidableEq, Repr, Inhabited

structure Cli where
  opt : Nat
  act : CliAct
  /-- largest integer the clap value parser accepts -/
  max : Nat := 0
  unit : NUnit := .plain
  sk : SKind := .raw
  /-- may be given more than once (`Vec` / `ArgAction::Count`) -/
  multi : Bool := false
  deriving DecidableEq, Repr, Inhabited

structure Row where
  field : Nat
  ty : FTy
  default : Dflt
  printer : Option Printer
  reader : Reader
  clis : List Cli
  deriving DecidableEq, Repr, Inhabited

/-- `FromStr`/`Display` of an enumeration: `parse` maps accepted literals to variants,
`variants` maps a variant to its printed literal; `ci`: the input is lower-cased first. -/
structure EnumTbl where
  ci : Bool
  variants : List (Nat × Str)
  parse : List (Str × Nat)
  deriving DecidableEq, Repr, Inhabited

structure Table where
  rows : List Row
  /-- keys taken from the file and ignored (`tal-dir`) -/
  ignored : List Nat := []
  /-- keys `to_toml` prints that belong to no field -/
  extraPrinted : List Nat := []
  enums : List (Nat × EnumTbl) := []
  conflicts : List (Nat × Nat) := []
  facilityTy : Nat := 0
  levelTy : Nat := 0
  /-- `from_config_file` ends with `check_exhausted` -/
  exhaust : Bool := true
  /-- the fingerprinted helper blocks are unchanged -/
  shapesOk : Bool := true
  /-- fields documented as command-line only (NOT extracted: set by `Props/C35.lean`) -/
  cliOnly : List Nat := []
  deriving Repr, Inhabited

/-- What the model needs from the environment. -/
structure Env where
  /-- `Display ∘ FromStr` of the string-parsed types that are not extracted enumerations
  (`SocketAddr`, `IpAddr`, `LevelFilter`): supplied by the harness from the real parsers -/
  canon : Nat → Str → Option Str
  /-- the current directory (command line paths are joined to it) -/
  cur : Str
  /-- path and directory of the config file being read -/
  cfgPath : Str
  cfgDir : Str
  /-- environment-dependent defaults -/
  dyn : Nat → FVal

/-! ## Strings and paths -/

def slash : Nat := 47

/-- `Path::is_absolute` on Unix. -/
def isAbs (s : Str) : Bool :=
  match s with
  | c :: _ => c == slash
  | [] => false

/-- `Path::join` on Unix (`PathBuf::push`). -/
def joinPath (base s : Str) : Str :=
  if isAbs s then s
  else if base.isEmpty || base.getLast? == some slash then base ++ s
  else base ++ slash :: s

def lowerAscii (s : Str) : Str :=
  s.map (fun b => if 65 ≤ b ∧ b ≤ 90 then b + 32 else b)

def EnumTbl.canon (e : EnumTbl) (s : Str) : Option Str :=
  match e.parse.lookup (if e.ci then lowerAscii s else s) with
  | some v => e.variants.lookup v
  | none => none

/-- `x.parse::<T>().map(|v| v.to_string())` for the type with id `ty`. -/
def canon (t : Table) (env : Env) (ty : Nat) (s : Str) : Option Str :=
  match t.enums.lookup ty with
  | some e => e.canon s
  | none => env.canon ty s

def sDefault : Str := [100, 101, 102, 97, 117, 108, 116]
def sSyslog : Str := [115, 121, 115, 108, 111, 103]
def sStderr : Str := [115, 116, 100, 101, 114, 114]
def sFile : Str := [102, 105, 108, 101]
def sDaemon : Str := [100, 97, 101, 109, 111, 110]
def sDash : Str := [45]
def sDEBUG : Str := [68, 69, 66, 85, 71]
def sINFO : Str := [73, 78, 70, 79]
def sOFF : Str := [79, 70, 70]
def sERROR : Str := [69, 82, 82, 79, 82]

/-! ## `to_toml` -/

/-- `insert_int`: `value.try_into().unwrap_or(i64::MAX)`. -/
def clampInt (clamp : Bool) (n : Nat) : Int :=
  if clamp && decide (i64Max < n) then (i64Max : Int) else (n : Int)

/-- The entries `to_toml` inserts for one field. -/
def printRow (r : Row) (v : FVal) : Doc :=
  match r.printer with
  | none => []
  | some p =>
    match p.codec, p.keys, v with
    | .bool, [k], .bool b => [(k, .bool b)]
    | .nat, [k], .nat n => [(k, .int (clampInt p.clamp n))]
    | .natZeroNone, [k], .optNat o => [(k, .int (clampInt p.clamp (o.getD 0)))]
    | .natPresent, [k], .optNat (some n) => [(k, .int (clampInt p.clamp n))]
    | .str, [k], .str s => [(k, .str s)]
    | .strPresent, [k], .optStr (some s) => [(k, .str s)]
    | .strs, [k], .strs l => [(k, .strs l)]
    | .strsPresent, [k], .optStrs (some l) => [(k, .strs l)]
    | .pairsNonEmpty, [k], .pairs l => if l.isEmpty then [] else [(k, .pairs l)]
    | .log, [kl, kf, kp], .log kind a =>
      match kind with
      | .dflt => [(kl, .str sDefault), (kf, .str a)]
      | .syslog => [(kl, .str sSyslog), (kf, .str a)]
      | .stderr => [(kl, .str sStderr)]
      | .file => [(kl, .str sFile), (kp, .str a)]
    | _, _, _ => []

def printRows : List Row → Config → Doc
  | r :: rs, v :: vs => printRow r v ++ printRows rs vs
  | _, _ => []

/-- `Config::to_toml` (as parsed back by the TOML parser). -/
def print (t : Table) (c : Config) : Doc := printRows t.rows c

/-! ## `from_config_file` -/

def dfltVal (env : Env) : Dflt → Option FVal
  | .lit v => some v
  | .env i => some (env.dyn i)
  | .unknown => none

def absentVal (env : Env) (r : Reader) : Option FVal :=
  match r.absent with
  | some d => dfltVal env d
  | none => none

/-- `take_u64`/`take_usize`/`take_small_usize`/`take_limited_u8`: a non-negative integer
not above the reader's limit. -/
def readNat (max : Nat) : Val → Option Nat
  | .int i => if 0 ≤ i ∧ i.toNat ≤ max then some i.toNat else none
  | _ => none

def readStr (t : Table) (env : Env) (sk : SKind) (s : Str) : Option Str :=
  match sk with
  | .raw => some s
  | .plainPath => some s
  | .path => some (joinPath env.cfgDir s)
  | .parsed ty => canon t env ty s

def readStrs (t : Table) (env : Env) (sk : SKind) : List Str → Option (List Str)
  | [] => some []
  | s :: rest =>
    match readStr t env sk s, readStrs t env sk rest with
    | some a, some b => some (a :: b)
    | _, _ => none

/-- `take_string_map` fails on a repeated left-hand side. -/
def noDupKeys : List (Str × Str) → Bool
  | [] => true
  | p :: rest => !(rest.any (fun q => q.1 == p.1)) && noDupKeys rest

/-- `log_target_from_config_file` (Unix). -/
def readLog (t : Table) (env : Env) (kl kf kp : Nat) (d : Doc) : Option FVal :=
  let fac : Option Str :=
    match d.lookup kf with
    | none => some sDaemon
    | some (.str s) => some s
    | some _ => none
  let logt : Option (Option Str) :=
    match d.lookup kl with
    | none => some none
    | some (.str s) => some (some s)
    | some _ => none
  let file : Option (Option Str) :=
    match d.lookup kp with
    | none => some none
    | some (.str s) => some (some (joinPath env.cfgDir s))
    | some _ => none
  match fac, logt, file with
  | some fac, some logt, some file =>
    match canon t env t.facilityTy fac with
    | none => none
    | some fac =>
      match logt with
      | none => some (.log .dflt fac)
      | some s =>
        if s = sDefault then some (.log .dflt fac)
        else if s = sSyslog then some (.log .syslog fac)
        else if s = sStderr then some (.log .stderr [])
        else if s = sFile then
          match file with
          | some p => some (.log .file p)
          | none => none
        else none
  | _, _, _ => none

/-- The initialiser of one field in `from_config_file`; `none` is `Err(Failed)`. -/
def readRow (t : Table) (env : Env) (r : Row) (d : Doc) : Option FVal :=
  match r.reader.kind with
  | .const => dfltVal env r.reader.const
  | .filePath => some (.str env.cfgPath)
  | .unknown => none
  | .file =>
    match r.reader.codec, r.reader.keys with
    | .bool, [k] =>
      match d.lookup k with
      | none => absentVal env r.reader
      | some (.bool b) => some (.bool b)
      | some _ => none
    | .nat, [k] =>
      match d.lookup k with
      | none => absentVal env r.reader
      | some v => (readNat r.reader.max v).map .nat
    | .natZeroNone, [k] =>
      match d.lookup k with
      | none => absentVal env r.reader
      | some v => (readNat r.reader.max v).map (fun n => .optNat (if n = 0 then none else some n))
    | .natPresent, [k] =>
      match d.lookup k with
      | none => absentVal env r.reader
      | some v => (readNat r.reader.max v).map (fun n => .optNat (some n))
    | .str, [k] =>
      match d.lookup k with
      | none => absentVal env r.reader
      | some (.str s) => (readStr t env r.reader.sk s).map .str
      | some _ => none
    | .strPresent, [k] =>
      match d.lookup k with
      | none => absentVal env r.reader
      | some (.str s) => (readStr t env r.reader.sk s).map (fun x => .optStr (some x))
      | some _ => none
    | .strs, [k] =>
      match d.lookup k with
      | none => absentVal env r.reader
      | some (.strs l) => (readStrs t env r.reader.sk l).map .strs
      | some (.str s) =>
        if r.reader.single then (readStr t env r.reader.sk s).map (fun x => .strs [x]) else none
      | some _ => none
    | .strsPresent, [k] =>
      match d.lookup k with
      | none => absentVal env r.reader
      | some (.strs l) => (readStrs t env r.reader.sk l).map (fun x => .optStrs (some x))
      | some (.str s) =>
        if r.reader.single then (readStr t env r.reader.sk s).map (fun x => .optStrs (some [x]))
        else none
      | some _ => none
    | .pairsNonEmpty, [k] =>
      match d.lookup k with
      | none => absentVal env r.reader
      | some (.pairs l) => if noDupKeys l then some (.pairs l) else none
      | some (.strs []) => some (.pairs [])
      | some _ => none
    | .log, [kl, kf, kp] => readLog t env kl kf kp d
    | _, _ => none

def readRows (t : Table) (env : Env) (d : Doc) : List Row → Option Config
  | [] => some []
  | r :: rs =>
    match readRow t env r d, readRows t env d rs with
    | some v, some vs => some (v :: vs)
    | _, _ => none

/-- Every key some reader takes. -/
def knownKeys (t : Table) : List Nat :=
  t.rows.flatMap (fun r => r.reader.keys) ++ t.ignored

/-- `take_path("tal-dir")`: must be a string if present. -/
def ignoredOk (t : Table) (d : Doc) : Bool :=
  t.ignored.all (fun k =>
    match d.lookup k with
    | none => true
    | some (.str _) => true
    | some _ => false)

/-- `check_exhausted`: no unknown setting is left. -/
def exhausted (t : Table) (d : Doc) : Bool :=
  !t.exhaust || d.all (fun kv => (knownKeys t).contains kv.1)

/-- `Config::from_config_file`; `none` is `Err(Failed)`. -/
def read (t : Table) (env : Env) (d : Doc) : Option Config :=
  if ignoredOk t d && exhausted t d then readRows t env d t.rows else none

/-! ## Defaults -/

/-- `Config::default()`. -/
def defaultConfig (t : Table) (env : Env) : Config :=
  t.rows.map (fun r => (dfltVal env r.default).getD (.bool false))

/-! ## Command line -/

/-- The value of one command line argument (after the shell, before clap's parser):
a flag, a decimal number, a string, or a counted flag (`-vv`). -/
inductive AVal | flag | nat (n : Nat) | str (s : Str) | count (n : Nat)
  deriving DecidableEq, Repr, Inhabited

structure Arg where
  opt : Nat
  val : AVal
  deriving DecidableEq, Repr, Inhabited

def findCli (t : Table) (opt : Nat) : Option Cli :=
  (t.rows.flatMap (fun r => r.clis)).find? (fun c => c.opt == opt)

/-- Does clap's value parser accept the string? (`PathBuf` rejects the empty string.) -/
def strArgOk (t : Table) (env : Env) (sk : SKind) (s : Str) : Bool :=
  match sk with
  | .raw => true
  | .path => !s.isEmpty
  | .plainPath => !s.isEmpty
  | .parsed ty => (canon t env ty s).isSome

/-- Does clap accept this single argument? -/
def argOk (t : Table) (env : Env) (a : Arg) : Bool :=
  match findCli t a.opt with
  | none => false
  | some c =>
    match c.act, a.val with
    | .setTrue, .flag => true
    | .logSyslog, .flag => true
    | .nat, .nat n => n ≤ c.max
    | .natZeroNone, .nat n => n ≤ c.max
    | .natSome, .nat n => n ≤ c.max
    | .str, .str s => strArgOk t env c.sk s
    | .strSome, .str s => strArgOk t env c.sk s
    | .strs, .str s => strArgOk t env c.sk s
    | .logFacility, .str _ => true
    | .logFile, .str _ => true
    | .verbose, .count n => 1 ≤ n ∧ n ≤ c.max
    | .quiet, .count n => 1 ≤ n ∧ n ≤ c.max
    | _, _ => false

def countOpt (args : List Arg) (opt : Nat) : Nat := (args.filter (fun a => a.opt == opt)).length

/-- An option that is not a `Vec`/counter may be given only once. -/
def noDupArgs (t : Table) (args : List Arg) : Bool :=
  args.all (fun a =>
    match findCli t a.opt with
    | some c => c.multi || c.act == .verbose || c.act == .quiet || countOpt args a.opt ≤ 1
    | none => false)

def noConflicts (t : Table) (args : List Arg) : Bool :=
  t.conflicts.all (fun ab => !(countOpt args ab.1 > 0 && countOpt args ab.2 > 0))

/-- clap accepts the argument vector (the value checks are repeated in `applyCli`). -/
def clapOk (t : Table) (env : Env) (args : List Arg) : Bool :=
  args.all (argOk t env) && noDupArgs t args && noConflicts t args

/-- How a command line string becomes the field's string. -/
def cliStr (t : Table) (env : Env) (sk : SKind) (s : Str) : Str :=
  match sk with
  | .raw => s
  | .plainPath => s
  | .path => joinPath env.cur s
  | .parsed ty => (canon t env ty s).getD s

def firstArg (args : List Arg) (opt : Nat) : Option AVal :=
  (args.find? (fun a => a.opt == opt)).map (·.val)

def strArgs (args : List Arg) (opt : Nat) : List Str :=
  args.filterMap (fun a => if a.opt == opt then (match a.val with | .str s => some s | _ => none) else none)

def countArg (args : List Arg) (opt : Nat) : Nat :=
  (args.filterMap (fun a => if a.opt == opt then (match a.val with | .count n => some n | _ => none) else none)).sum

def optOf (r : Row) (act : CliAct) : Option Nat :=
  (r.clis.find? (fun c => c.act == act)).map (·.opt)

/-- `apply_log_matches` (Unix); `none` is `Err(Failed)` (invalid facility). -/
def applyLog (t : Table) (env : Env) (r : Row) (v : FVal) (args : List Arg) : Option FVal :=
  match optOf r .logSyslog, optOf r .logFacility, optOf r .logFile with
  | some os, some ofac, some ofile =>
    if countOpt args os > 0 then
      match firstArg args ofac with
      | some (.str f) =>
        match canon t env t.facilityTy f with
        | some c => some (.log .syslog c)
        | none => none
      | _ =>
        match v with
        | .log .syslog _ => some v
        | _ => some (.log .syslog sDaemon)
    else
      match firstArg args ofile with
      | some (.str f) =>
        if f = sDash then some (.log .stderr []) else some (.log .file (joinPath env.cur f))
      | _ => some v
  | _, _, _ => some v

/-- The verbosity block of `apply_arg_matches`. -/
def applyLevel (r : Row) (v : FVal) (args : List Arg) : FVal :=
  match optOf r .verbose, optOf r .quiet with
  | some ov, some oq =>
    let nv := countArg args ov
    let nq := countArg args oq
    if nv > 1 then .str sDEBUG
    else if nv = 1 then .str sINFO
    else if nq > 1 then .str sOFF
    else if nq = 1 then .str sERROR
    else v
  | _, _ => v

/-- The statement of `apply_(server_)arg_matches` for one option, including the check of
the option's value by clap's value parser (`none`: the command line is rejected). -/
def applyCli (t : Table) (env : Env) (r : Row) (c : Cli) (v : FVal) (args : List Arg) : Option FVal :=
  match c.act with
  | .setTrue =>
    match firstArg args c.opt with
    | some .flag => some (.bool true)
    | some _ => none
    | none => some v
  | .nat =>
    match firstArg args c.opt with
    | some (.nat n) => if n ≤ c.max then some (.nat n) else none
    | some _ => none
    | none => some v
  | .natZeroNone =>
    match firstArg args c.opt with
    | some (.nat n) => if n ≤ c.max then some (.optNat (if n = 0 then none else some n)) else none
    | some _ => none
    | none => some v
  | .natSome =>
    match firstArg args c.opt with
    | some (.nat n) => if n ≤ c.max then some (.optNat (some n)) else none
    | some _ => none
    | none => some v
  | .str =>
    match firstArg args c.opt with
    | some (.str s) => if strArgOk t env c.sk s then some (.str (cliStr t env c.sk s)) else none
    | some _ => none
    | none => some v
  | .strSome =>
    match firstArg args c.opt with
    | some (.str s) => if strArgOk t env c.sk s then some (.optStr (some (cliStr t env c.sk s))) else none
    | some _ => none
    | none => some v
  | .strs =>
    match strArgs args c.opt with
    | [] => some v
    | l => if l.all (strArgOk t env c.sk) then some (.strs (l.map (cliStr t env c.sk))) else none
  | .logSyslog => applyLog t env r v args
  | .logFacility => some v
  | .logFile => some v
  | .verbose => some (applyLevel r v args)
  | .quiet => some v
  | .unknown => some v

def applyClis (t : Table) (env : Env) (r : Row) (args : List Arg) : List Cli → FVal → Option FVal
  | [], v => some v
  | c :: cs, v =>
    match applyCli t env r c v args with
    | some v' => applyClis t env r args cs v'
    | none => none

def applyRows (t : Table) (env : Env) (args : List Arg) : List Row → Config → Option Config
  | r :: rs, v :: vs =>
    match applyClis t env r args r.clis v, applyRows t env args rs vs with
    | some v', some vs' => some (v' :: vs')
    | _, _ => none
  | _, _ => some []

/-- `apply_arg_matches` followed by `apply_server_arg_matches`. -/
def applyArgs (t : Table) (env : Env) (c : Config) (args : List Arg) : Option Config :=
  applyRows t env args t.rows c

/-! ## What reading back is expected to give -/

/-- The value the reader produces for a field that is not read from the file. -/
def resetVal (env : Env) (r : Row) (v : FVal) : FVal :=
  match r.reader.kind with
  | .const => (dfltVal env r.reader.const).getD v
  | .filePath => .str env.cfgPath
  | _ => v

def resetRows (env : Env) : List Row → Config → Config
  | r :: rs, v :: vs => resetVal env r v :: resetRows env rs vs
  | _, _ => []

/-- `c` with the command-line-only fields as `from_config_file` sets them. -/
def reset (t : Table) (env : Env) (c : Config) : Config := resetRows env t.rows c

/-! ## The decidable table check -/

/-- A value the printer prints exactly and the reader accepts and maps back to itself. -/
def strGood (t : Table) (env : Env) (sk : SKind) (s : Str) : Bool :=
  match sk with
  | .raw => true
  | .plainPath => true
  | .path => isAbs s
  | .parsed ty => canon t env ty s == some s

def natGood (r : Reader) (n : Nat) : Bool := decide (n ≤ r.max) && decide (n ≤ i64Max)

/-- The values of a field for which printing and reading back is the identity
(up to the command-line-only fields). -/
def goodVal (t : Table) (env : Env) (r : Row) (v : FVal) : Bool :=
  match r.reader.kind with
  | .const => t.cliOnly.contains r.field || dfltVal env r.reader.const == some v
  | .filePath => true
  | .unknown => false
  | .file =>
    match r.reader.codec, v with
    | .bool, .bool _ => true
    | .nat, .nat n => natGood r.reader n
    | .natZeroNone, .optNat none => true
    | .natZeroNone, .optNat (some n) => n != 0 && natGood r.reader n
    | .natPresent, .optNat none => true
    | .natPresent, .optNat (some n) => natGood r.reader n
    | .str, .str s => strGood t env r.reader.sk s
    | .strPresent, .optStr none => true
    | .strPresent, .optStr (some s) => strGood t env r.reader.sk s
    | .strs, .strs l => l.all (strGood t env r.reader.sk)
    | .strsPresent, .optStrs none => true
    | .strsPresent, .optStrs (some l) => l.all (strGood t env r.reader.sk)
    | .pairsNonEmpty, .pairs l => noDupKeys l
    | .log, .log k a =>
      match k with
      | .dflt => canon t env t.facilityTy a == some a
      | .syslog => canon t env t.facilityTy a == some a
      | .stderr => a == [] && (canon t env t.facilityTy sDaemon).isSome
      | .file => isAbs a && (canon t env t.facilityTy sDaemon).isSome
    | _, _ => false

def goodRows (t : Table) (env : Env) : List Row → Config → Bool
  | [], [] => true
  | r :: rs, v :: vs => goodVal t env r v && goodRows t env rs vs
  | _, _ => false

/-- Every field holds a value that survives printing and reading. -/
def Good (t : Table) (env : Env) (c : Config) : Prop := goodRows t env t.rows c = true

def keysShape (codec : Codec) (keys : List Nat) : Bool :=
  if codec = .log then keys.length == 3 else codec != .unknown && keys.length == 1

/-- For presence-coded fields the reader must produce "nothing" when the key is absent. -/
def absentMatches (r : Reader) : Bool :=
  match r.codec with
  | .natPresent => r.absent == some (.lit (.optNat none))
  | .strPresent => r.absent == some (.lit (.optStr none))
  | .strsPresent => r.absent == some (.lit (.optStrs none))
  | .pairsNonEmpty => r.absent == some (.lit (.pairs []))
  | _ => true

/-- The printer and the reader of a row describe the same encoding under the same key,
or the field is a documented command-line-only field / a constant. -/
def rowOk (t : Table) (r : Row) : Bool :=
  match r.reader.kind with
  | .file =>
    match r.printer with
    | some p =>
      p.keys == r.reader.keys && p.codec == r.reader.codec && keysShape p.codec p.keys
        && p.unit == r.reader.unit && p.unit != .other && absentMatches r.reader
        && decide (r.reader.max ≤ i64Max)
    | none => false
  | .const =>
    r.printer.isNone && r.reader.const != .unknown &&
      (t.cliOnly.contains r.field || (r.clis.isEmpty && r.default == r.reader.const))
  | .filePath => r.printer.isNone && t.cliOnly.contains r.field
  | .unknown => false

def nodupB : List Nat → Bool
  | [] => true
  | k :: ks => !ks.contains k && nodupB ks

/-- Every printed literal of an enumeration parses back to its own variant. -/
def enumOk (e : EnumTbl) : Bool :=
  e.variants.all (fun vd => e.parse.lookup (if e.ci then lowerAscii vd.2 else vd.2) == some vd.1
    && e.variants.lookup vd.1 == some vd.2)

/-- A string set from the command line is one the file reader maps to itself. -/
def skImplies (cli rd : SKind) : Bool :=
  match rd with
  | .raw => true
  | .plainPath => true
  | .path => cli == .path
  | .parsed ty => cli == .parsed ty

/-- The integers the option accepts (as far as a TOML integer can hold them) are integers
the file reader accepts. -/
def cliRange (c : Cli) (rd : Reader) : Bool :=
  decide (min c.max i64Max ≤ rd.max) && c.unit == rd.unit

/-- Each command line setter of the row produces values in the domain of the row's codec. -/
def cliOk (t : Table) (r : Row) (c : Cli) : Bool :=
  match r.reader.kind with
  | .file =>
    match c.act with
    | .setTrue => r.reader.codec == .bool
    | .nat => r.reader.codec == .nat && cliRange c r.reader
    | .natZeroNone => r.reader.codec == .natZeroNone && cliRange c r.reader
    | .natSome => r.reader.codec == .natPresent && cliRange c r.reader
    | .str => r.reader.codec == .str && skImplies c.sk r.reader.sk
    | .strSome => r.reader.codec == .strPresent && skImplies c.sk r.reader.sk
    | .strs => r.reader.codec == .strs && skImplies c.sk r.reader.sk
    | .logSyslog => r.reader.codec == .log
    | .logFacility => r.reader.codec == .log
    | .logFile => r.reader.codec == .log
    | .verbose => r.reader.codec == .str && r.reader.sk == .parsed t.levelTy
    | .quiet => r.reader.codec == .str && r.reader.sk == .parsed t.levelTy
    | .unknown => false
  | .const => t.cliOnly.contains r.field
  | .filePath => true
  | .unknown => false

/-- The per-run proof obligation on the extracted table (see `Props/C35.lean`). -/
def tableOk (t : Table) : Bool :=
  t.shapesOk && t.extraPrinted.isEmpty && nodupB (knownKeys t) && t.rows.all (rowOk t)
    && t.enums.all (fun e => enumOk e.2)
    && t.rows.all (fun r => r.clis.all (cliOk t r))

/-- The option accepts no integer above `i64::MAX`. -/
def numBound (c : Cli) : Bool :=
  match c.act with
  | .nat => decide (c.max ≤ i64Max)
  | .natZeroNone => decide (c.max ≤ i64Max)
  | .natSome => decide (c.max ≤ i64Max)
  | _ => true

/-- Additionally no option accepts an integer a TOML document cannot hold
(false on the pinned tree: known finding `int-above-i64max`). -/
def tableOkFull (t : Table) : Bool :=
  tableOk t && t.rows.all (fun r => r.clis.all numBound)

/-- No numeric argument exceeds `i64::MAX`. -/
def argsSmall (args : List Arg) : Bool :=
  args.all (fun a => match a.val with | .nat n => decide (n ≤ i64Max) | _ => true)

/-- Environment facts the theorems assume and the driver evaluates on every case:
absolute directories, and defaults that are themselves round-trippable values. -/
def envGood (t : Table) (env : Env) : Bool :=
  isAbs env.cur && isAbs env.cfgDir
    && goodRows t env t.rows (defaultConfig t env)
    && t.rows.all (fun r =>
        match r.reader.kind, r.reader.absent with
        | .file, some d => (match dfltVal env d with | some v => goodVal t env r v | none => false)
        | _, _ => true)
    && [sDEBUG, sINFO, sOFF, sERROR].all (fun s => canon t env t.levelTy s == some s)
    && canon t env t.facilityTy sDaemon == some sDaemon

end RoutinatorModel.Config
