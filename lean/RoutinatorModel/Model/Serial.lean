import RoutinatorModel.Model.Delta
/-!
# Model of `rpki::rtr::Serial` (rpki-0.19.3 `src/rtr/state.rs`)

A serial number is a `Nat` kept below `serialMod = 2^32` (`serialMod` and `serialAdd`,
i.e. `Serial::add` = `wrapping_add`, live in `Model/Delta.lean`). The comparison is
RFC 1982 serial arithmetic as transcribed from `impl PartialOrd for Serial`: two serials
at distance exactly `2^31` are *incomparable* (`None`).
-/
namespace RoutinatorModel

/-- `0x8000_0000` -/
def serialHalf : Nat := 2147483648

/-- `Serial::partial_cmp`, arm for arm: first the plain `u32` comparison, then the
distance against `0x8000_0000`. -/
def serialPcmp (a b : Nat) : Option Ordering :=
  if a = b then some .eq
  else if a < b then
    let sub := b - a
    if sub < serialHalf then some .lt
    else if sub > serialHalf then some .gt
    else none
  else
    let sub := a - b
    if sub < serialHalf then some .gt
    else if sub > serialHalf then some .lt
    else none

/-- `a < b` on `Serial` (the provided `PartialOrd::lt`: `partial_cmp == Some(Less)`). -/
def serialLt (a b : Nat) : Bool := serialPcmp a b == some .lt

end RoutinatorModel
