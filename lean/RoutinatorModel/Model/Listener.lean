import RoutinatorModel.Model.Sys
/-!
# C19 — the poll contract between the RTR listener task, tokio's reactor and the kernel

`rtr::RtrListener::poll_next` is polled by one task (`rpki::rtr::server::Server::run`:
`while let Some(sock) = listener.next().await { spawn(connection) }`). The task only runs when it
is scheduled; after `poll_next` returned `Pending` it is scheduled again only through a waker it
registered during that poll.

State
* `queue`  — connections completed by the kernel, waiting in the listener's accept queue;
* `event`  — an edge-triggered readiness event of the listening socket not yet processed by the
             reactor;
* `ready`  — tokio's cached read-readiness of the listening socket;
* `waker`  — the task's waker is registered for read-readiness of the listening socket;
* `task`   — `scheduled` (will call `poll_next`) or `parked`;
* `served`, `closed` — ghost counters: connections handed to the server / dropped after a failed
             setup.

Labels
* `arrive`    — a client connects: the kernel queues the connection and raises an event;
* `reactor`   — the reactor processes the event: sets `ready` and wakes the registered waker;
* `poll ok`   — the scheduled task runs one `poll_next`; `ok` is the outcome of the per-connection
                setup (`RtrStream::new`: TCP keepalive options) *if* a connection is accepted in
                this poll. Inside: `poll_accept` returns `Pending` (registering the waker) when
                `ready` is not set or the queue turns out empty (which clears `ready`);
                otherwise one connection is accepted and
                - setup ok:     `Ready(Some(stream))`, the server spawns the connection and polls
                                again (task stays scheduled);
                - setup failed: the socket is dropped (closed) and `poll_next` returns `Pending`
                                — at the pinned commit WITHOUT any waker registered
                                (`wakeOnFail = false`); after the repair the task wakes itself
                                first (`cx.waker().wake_by_ref()`, `wakeOnFail = true`).

Not modelled (assumed not to happen): `poll_accept` returning `Ready(Err(_))` (accept errors such
as EMFILE; that path creates a back-off timer and returns `Pending`), TLS, more than one listener
(each listener is its own task and socket). The reactor and the kernel are models.
-/
namespace RoutinatorModel.Listener

inductive Task where
  | scheduled
  | parked
  deriving DecidableEq, Repr

structure St where
  queue : Nat
  event : Bool
  ready : Bool
  waker : Bool
  task : Task
  served : Nat
  closed : Nat
  /-- ghost: number of `arrive` steps so far -/
  arrived : Nat
  deriving DecidableEq, Repr

/-- The listener task starts scheduled (spawned), nothing queued. -/
def St.init : St :=
  { queue := 0, event := false, ready := false, waker := false, task := .scheduled,
    served := 0, closed := 0, arrived := 0 }

inductive Label where
  | arrive
  | reactor
  | poll (ok : Bool)
  deriving DecidableEq, Repr

def Label.internal : Label → Bool
  | .arrive => false
  | _ => true

def step (wakeOnFail : Bool) (s : St) : Label → Option St
  | .arrive => some { s with queue := s.queue + 1, event := true, arrived := s.arrived + 1 }
  | .reactor =>
    if s.event then
      if s.waker then some { s with event := false, ready := true, waker := false, task := .scheduled }
      else some { s with event := false, ready := true }
    else none
  | .poll ok =>
    match s.task with
    | .parked => none
    | .scheduled =>
      if s.ready then
        match s.queue with
        | 0 =>
          -- accept() = WouldBlock: readiness cleared, waker registered, Pending
          some { s with ready := false, waker := true, task := .parked }
        | q + 1 =>
          if ok then some { s with queue := q, served := s.served + 1 }
          else if wakeOnFail then some { s with queue := q, closed := s.closed + 1 }
          else some { s with queue := q, closed := s.closed + 1, task := .parked }
      else
        -- no readiness: waker registered, Pending
        some { s with waker := true, task := .parked }

/-- `sys true`: the repaired listener; `sys false`: the listener at the pinned commit. -/
def sys (wakeOnFail : Bool) : Sys :=
  { State := St, Label := Label, step := step wakeOnFail, init := St.init }

/-- Run internal steps (reactor first, then polls with the given setup outcomes) until nothing
internal is enabled any more or the fuel/outcome script is used up. Returns the final state and
the outcomes not consumed. -/
def quiesce (w : Bool) : Nat → St → List Bool → St × List Bool
  | 0, s, os => (s, os)
  | fuel + 1, s, os =>
    match step w s .reactor with
    | some s' => quiesce w fuel s' os
    | none =>
      match s.task with
      | .parked => (s, os)
      | .scheduled =>
        -- an outcome is consumed only if this poll accepts a connection
        let accepts := s.ready && s.queue != 0
        match os with
        | [] =>
          if accepts then (s, os)
          else match step w s (.poll true) with
            | some s' => quiesce w fuel s' os
            | none => (s, os)
        | o :: rest =>
          match step w s (.poll o) with
          | some s' => quiesce w fuel s' (if accepts then rest else os)
          | none => (s, os)

end RoutinatorModel.Listener
