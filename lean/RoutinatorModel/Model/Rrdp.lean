/-!
# RRDP repository update (`src/collector/rrdp/{base,update,archive}.rs`)

A model of one call of `RepositoryUpdate::try_update`:

* conditional GET of the notification file (`Notification::get`), Not Modified → `not_modified`
  (touch the state), failure → not updated;
* notification checks (`parse_limited` delta list limit, `has_matching_origins`, `sort_deltas`);
* `delta_update`: `delta_status` (oversized list), `check_deltas` (hash mutation against the
  stored `delta_state`), `calc_deltas` (session, equal serial, last delta = notified serial,
  skip older deltas, first too new, *contiguity* (the C25 repair), count limit), then the deltas
  one by one **in place, element by element** with their preconditions and the `seen` set, the
  delta file's hash checked last, the state written last;
* `snapshot_update` into a fresh archive, moved over the old one only on success;
* the `LoadResult` classification (`Updated/Current/Stale/Unavailable`, or a failed run if the
  archive to be read is missing).

Abstractions: objects are `(uri, content)` pairs of natural numbers, an object hash is the
content number itself (injective hashing), file hashes are numbers interned by the harness,
files are addressed by index. The random fallback draw of `FallbackTime::best_before` is an
explicit input (`draw`). Object size limits, u64 overflow of serials and archive corruption are
not modelled.
-/
namespace RoutinatorModel.Rrdp

abbrev Uri := Nat
abbrev Content := Nat
abbrev FileHash := Nat

/-- The objects of a local copy / a server version: an association list. -/
abbrev Objs := List (Uri × Content)

def Objs.get (o : Objs) (u : Uri) : Option Content := List.lookup u o
def Objs.erase (o : Objs) (u : Uri) : Objs := o.filter (fun p => p.1 != u)
def Objs.set (o : Objs) (u : Uri) (c : Content) : Objs := (u, c) :: Objs.erase o u

/-- Extensional equality of object maps. -/
def Same (a b : Objs) : Prop := ∀ u, Objs.get a u = Objs.get b u

/-- A `<publish>` without hash, a `<publish>` with hash (update), a `<withdraw>`. -/
inductive Elem where
  | publish (u : Uri) (c : Content)
  | update (u : Uri) (h : Content) (c : Content)
  | withdraw (u : Uri) (h : Content)
  deriving Repr, DecidableEq

def Elem.uri : Elem → Uri
  | .publish u _ => u
  | .update u _ _ => u
  | .withdraw u _ => u

/-- The value an element leaves behind at its URI. -/
def Elem.value : Elem → Option Content
  | .publish _ c => some c
  | .update _ _ c => some c
  | .withdraw _ _ => none

/-- `DeltaUpdate::publish` / `withdraw`: one element applied to the archive in place. -/
def applyElem (st : Objs × List Uri) (e : Elem) : Option (Objs × List Uri) :=
  if st.2.contains e.uri then none else
  match e with
  | .publish u c =>
    match Objs.get st.1 u with
    | some _ => none
    | none => some (Objs.set st.1 u c, u :: st.2)
  | .update u h c =>
    match Objs.get st.1 u with
    | some c' => if c' = h then some (Objs.set st.1 u c, u :: st.2) else none
    | none => none
  | .withdraw u h =>
    match Objs.get st.1 u with
    | some c' => if c' = h then some (Objs.erase st.1 u, u :: st.2) else none
    | none => none

/-- Elements are applied one after the other; the first failure stops processing and leaves
the modifications made so far in place. Returns the objects and whether all succeeded. -/
def applyElems : Objs × List Uri → List Elem → Objs × Bool
  | st, [] => (st.1, true)
  | st, e :: es =>
    match applyElem st e with
    | none => (st.1, false)
    | some st' => applyElems st' es

/-- A served XML document (snapshot or delta file) as far as it can be parsed. -/
structure Doc where
  isSnapshot : Bool
  hash : FileHash
  session : Nat
  serial : Nat
  /-- the document is well-formed after the listed elements -/
  endOk : Bool
  elems : List Elem
  deriving Repr, DecidableEq

/-- What the server answers per file index: `none` = HTTP error or unparsable from the start. -/
abbrev Files := List (Option Doc)

def Files.fetch (fs : Files) (i : Nat) : Option Doc := (fs[i]?).join

structure DeltaEntry where
  serial : Nat
  file : Nat
  hash : FileHash
  foreign : Bool
  deriving Repr, DecidableEq

/-- The content of a notification file. -/
structure Notif where
  session : Nat
  serial : Nat
  /-- the snapshot URI has the notification's origin -/
  snapOriginOk : Bool
  snapFile : Nat
  snapHash : FileHash
  deltas : List DeltaEntry
  deriving Repr, DecidableEq

/-- The server's answer to the notification request. -/
inductive NResp where
  /-- transport error or a status other than 200/304 -/
  | fail
  /-- 304 whatever the request said -/
  | force304
  /-- 200 with validators; `cond` = the server honours conditional requests;
  `content = none` = the body is not a parsable notification -/
  | ok (etag : Option Nat) (lm : Option Nat) (cond : Bool) (content : Option Notif)
  deriving Repr, DecidableEq

/-- `RepositoryState` (without the notify URI). -/
structure RState where
  session : Nat
  serial : Nat
  etag : Option Nat
  lm : Option Nat
  updated : Nat
  bestBefore : Nat
  /-- `delta_state`, sorted by serial, one entry per serial -/
  deltaState : List (Nat × FileHash)
  deriving Repr, DecidableEq

structure Local where
  objs : Objs
  state : RState
  deriving Repr, DecidableEq

structure Cfg where
  maxDeltaCount : Nat
  maxListLen : Nat
  /-- `calc_deltas` checks that the deltas to apply are contiguous (the C25 repair). -/
  gapCheck : Bool
  deriving Repr, DecidableEq

inductive Result where
  | updated | current | stale | unavailable | runRetry
  deriving Repr, DecidableEq

/-! ## Notification processing -/

/-- Stable insertion by serial (`sort_by_key` is stable): an entry coming first in the file stays
before later entries with the same serial. -/
def insertEntry (e : DeltaEntry) : List DeltaEntry → List DeltaEntry
  | [] => [e]
  | x :: r => if e.serial ≤ x.serial then e :: x :: r else x :: insertEntry e r

def sortEntries : List DeltaEntry → List DeltaEntry
  | [] => []
  | e :: r => insertEntry e (sortEntries r)

/-- `sort_deltas`: a stable sort is the fold of stable insertions from the right. -/
def sortDeltas (l : List DeltaEntry) : List DeltaEntry := sortEntries l

/-- `parse_limited`: more than `limit` entries ⇒ `Oversized`, the list reads as empty. -/
def oversized (cfg : Cfg) (n : Notif) : Bool := decide (n.deltas.length > cfg.maxListLen)

/-- `NotificationFile::deltas()` after `sort_deltas`. -/
def effDeltas (cfg : Cfg) (n : Notif) : List DeltaEntry :=
  if oversized cfg n then [] else sortDeltas n.deltas

/-- `has_matching_origins`. -/
def originsOk (cfg : Cfg) (n : Notif) : Bool :=
  n.snapOriginOk && (oversized cfg n || n.deltas.all (fun e => !e.foreign))

def setDeltaState (k : Nat) (h : FileHash) : List (Nat × FileHash) → List (Nat × FileHash)
  | [] => [(k, h)]
  | (k', h') :: r =>
    if k < k' then (k, h) :: (k', h') :: r
    else if k = k' then (k, h) :: r
    else (k', h') :: setDeltaState k h r

/-- `to_repository_state`: the `delta_state` map collected from the delta list (a later entry
for the same serial replaces an earlier one). -/
def deltaStateOf (l : List DeltaEntry) : List (Nat × FileHash) :=
  l.foldl (fun acc e => setDeltaState e.serial e.hash acc) []

def newState (cfg : Cfg) (now draw : Nat) (etag lm : Option Nat) (n : Notif) : RState :=
  { session := n.session, serial := n.serial, etag := etag, lm := lm,
    updated := now, bestBefore := now + draw, deltaState := deltaStateOf (effDeltas cfg n) }

/-- `check_deltas`: a listed delta whose hash differs from the remembered one. -/
def deltaMutation (ds : List DeltaEntry) (st : RState) : Bool :=
  ds.any (fun e => match List.lookup e.serial st.deltaState with
    | some h => h != e.hash
    | none => false)

/-- The loop of `calc_deltas` skipping deltas at or below the local serial. -/
def dropOlder (target : Nat) : List DeltaEntry → Option (List DeltaEntry)
  | [] => none
  | e :: r =>
    if e.serial > target then none
    else if e.serial = target then some (e :: r)
    else dropOlder target r

def contiguous : List DeltaEntry → Bool
  | [] => true
  | [_] => true
  | e1 :: e2 :: r => (e1.serial + 1 == e2.serial) && contiguous (e2 :: r)

/-- `calc_deltas`: `none` = a snapshot is needed, `some ds` = the deltas to apply. -/
def calcDeltas (cfg : Cfg) (serial : Nat) (ds : List DeltaEntry) (st : RState) :
    Option (List DeltaEntry) :=
  if serial = st.serial then some []
  else if (ds.getLast?.map (·.serial)) != some serial then none
  else match dropOlder (st.serial + 1) ds with
    | none => none
    | some r =>
      if cfg.gapCheck && !contiguous r then none
      else if r.length > cfg.maxDeltaCount then none
      else some r

/-! ## Delta and snapshot application -/

/-- `DeltaUpdate::try_update`: fetch, root element, `meta`, the elements in place, the end of
the document, and only then the hash of the file. -/
def applyDelta (o : Objs) (session : Nat) (e : DeltaEntry) (fs : Files) : Objs × Bool :=
  match fs.fetch e.file with
  | none => (o, false)
  | some d =>
    if d.isSnapshot then (o, false)
    else if d.session != session || d.serial != e.serial then (o, false)
    else
      let r := applyElems (o, []) d.elems
      if !r.2 then (r.1, false)
      else if !d.endOk then (r.1, false)
      else (r.1, d.hash == e.hash)

/-- The delta loop of `delta_update`: objects, success, files requested. -/
def runDeltas (o : Objs) (session : Nat) (fs : Files) : List DeltaEntry → Objs × Bool × List Nat
  | [] => (o, true, [])
  | e :: es =>
    let r := applyDelta o session e fs
    if r.2 then
      let r' := runDeltas r.1 session fs es
      (r'.1, r'.2.1, e.file :: r'.2.2)
    else (r.1, false, [e.file])

/-- `ProcessSnapshot::publish` into the fresh archive. -/
def snapshotObjs : Objs → List Elem → Option Objs
  | o, [] => some o
  | o, .publish u c :: es =>
    if (Objs.get o u).isSome then none else snapshotObjs (Objs.set o u c) es
  | _, _ :: _ => none

/-- `SnapshotUpdate::try_update`: the new archive content on success. -/
def fetchSnapshot (n : Notif) (fs : Files) : Option Objs :=
  match fs.fetch n.snapFile with
  | none => none
  | some d =>
    if !d.isSnapshot then none
    else if d.session != n.session || d.serial != n.serial then none
    else match snapshotObjs [] d.elems with
      | none => none
      | some o => if d.endOk && d.hash == n.snapHash then some o else none

/-- What `delta_update` leaves: either done, or a snapshot is needed (with the possibly
modified objects and the files requested so far). -/
inductive DeltaOutcome where
  | done (l : Local) (fetched : List Nat)
  | snapshot (objs : Objs) (fetched : List Nat) (attempted : Bool)

def deltaUpdate (cfg : Cfg) (now draw : Nat) (etag lm : Option Nat) (n : Notif) (fs : Files)
    (l : Local) : DeltaOutcome :=
  if oversized cfg n then .snapshot l.objs [] false
  else if deltaMutation (effDeltas cfg n) l.state then .snapshot l.objs [] false
  else if n.session != l.state.session then .snapshot l.objs [] false
  else match calcDeltas cfg n.serial (effDeltas cfg n) l.state with
    | none => .snapshot l.objs [] false
    | some ds =>
      let r := runDeltas l.objs n.session fs ds
      if r.2.1 then .done { objs := r.1, state := newState cfg now draw etag lm n } r.2.2
      else .snapshot r.1 r.2.2 true

/-! ## The update -/

structure Out where
  loc : Option Local
  result : Result
  /-- a delta was applied in place, failed, and the fallback snapshot failed as well -/
  dirty : Bool
  /-- validators sent with the notification request -/
  inm : Option Nat
  ims : Option Nat
  /-- file indices requested, in order -/
  fetched : List Nat
  deriving Repr, DecidableEq

/-- Would the scripted server answer 304 to the conditional request the client sends? -/
def serverNotModified (loc : Option Local) (etag lm : Option Nat) (cond : Bool) : Bool :=
  cond && match loc with
    | none => false
    | some l =>
      match l.state.etag with
      | some e => etag == some e
      | none =>
        match l.state.lm, lm with
        | some t, some t' => decide (t ≥ t')
        | _, _ => false

/-- `state.touch` + `update_state` in `not_modified`. -/
def touch (now draw : Nat) (l : Local) : Local :=
  { l with state := { l.state with updated := now, bestBefore := now + draw } }

/-- `snapshot_update`, after `delta_update` left `objs` (if there was a local copy): on success
the new archive replaces the old one; on failure the old archive stays, with whatever the
delta path did to it. -/
def snapshotStep (cfg : Cfg) (now draw : Nat) (etag lm : Option Nat) (n : Notif) (fs : Files)
    (loc : Option Local) (objs : Option Objs) (fetched : List Nat) (attempted : Bool) :
    Option Local × Bool × Bool × List Nat :=
  match fetchSnapshot n fs with
  | some o =>
    (some { objs := o, state := newState cfg now draw etag lm n }, true, false,
      fetched ++ [n.snapFile])
  | none =>
    (match loc, objs with
      | some l, some o' => some { l with objs := o' }
      | _, _ => loc,
     false, attempted, fetched ++ [n.snapFile])

/-- `update` once a notification file was parsed. -/
def notifStep (cfg : Cfg) (now draw : Nat) (etag lm : Option Nat) (n : Notif) (fs : Files)
    (loc : Option Local) : Option Local × Bool × Bool × List Nat :=
  if !originsOk cfg n then (loc, false, false, [])
  else match loc with
    | none => snapshotStep cfg now draw etag lm n fs none none [] false
    | some l =>
      match deltaUpdate cfg now draw etag lm n fs l with
      | .done l' fetched => (some l', true, false, fetched)
      | .snapshot objs fetched attempted =>
        snapshotStep cfg now draw etag lm n fs (some l) (some objs) fetched attempted

/-- `RepositoryUpdate::update`: the new local copy, `is_updated`, dirty, files requested. -/
def updateCore (cfg : Cfg) (now draw : Nat) (loc : Option Local) (resp : NResp) (fs : Files) :
    Option Local × Bool × Bool × List Nat :=
  match resp with
  | .fail => (loc, false, false, [])
  | .force304 => (loc.map (touch now draw), true, false, [])
  | .ok etag lm cond content =>
    if serverNotModified loc etag lm cond then (loc.map (touch now draw), true, false, [])
    else match content with
      | none => (loc, false, false, [])
      | some n => notifStep cfg now draw etag lm n fs loc

/-- `!state.is_expired()` of the copy present before the update. -/
def isCurrent (now : Nat) (loc : Option Local) : Bool :=
  match loc with
  | some l => decide (now ≤ l.state.bestBefore)
  | none => false

/-- The `LoadResult` of `try_update`, and the `repo.read()` of `load_repository` that fails the
run if the archive of an "updated" repository does not exist. -/
def classify (isUpdated hasCopy isCurrent hadCopy : Bool) : Result :=
  if isUpdated then (if hasCopy then Result.updated else Result.runRetry)
  else if isCurrent then Result.current
  else if hadCopy then Result.stale
  else Result.unavailable

/-- `RepositoryUpdate::try_update` and the `repo.read()` of `load_repository`. -/
def update (cfg : Cfg) (now draw : Nat) (loc : Option Local) (resp : NResp) (fs : Files) : Out :=
  let r := updateCore cfg now draw loc resp fs
  { loc := r.1, result := classify r.2.1 r.1.isSome (isCurrent now loc) loc.isSome,
    dirty := r.2.2.1,
    inm := loc.bind (·.state.etag), ims := loc.bind (·.state.lm),
    fetched := r.2.2.2 }

/-! ## What a killed update may leave (C24) -/

/-- The parts of the state that identify it (the fallback draw and the clock differ per run). -/
def RState.key (s : RState) : Nat × Nat × Option Nat × Option Nat × List (Nat × FileHash) :=
  (s.session, s.serial, s.etag, s.lm, s.deltaState)

/-- Two object maps agree on every URI of `dom` that is not in `touched`. -/
def agreeOutside (touched dom : List Uri) (a b : Objs) : Bool :=
  dom.all (fun u => touched.contains u || Objs.get a u == Objs.get b u)

def Objs.keys (o : Objs) : List Uri := o.map (·.1)

/-- The crash invariant of an update from `pre` whose uninterrupted run yields `done`,
evaluated on the copy `obs` found after a kill: no archive only if there was none or the
snapshot path (remove, then rename) was taken; otherwise either the completed copy, or the old
state with objects that differ from the old ones at most on URIs the delta chain touches. -/
def crashInvOk (touched : List Uri) (viaSnapshot : Bool) (pre done obs : Option Local) : Bool :=
  match obs with
  | none => pre.isNone || viaSnapshot
  | some o =>
    (match done with
      | some d => o.state.key == d.state.key &&
          agreeOutside [] (Objs.keys o.objs ++ Objs.keys d.objs) o.objs d.objs
      | none => false) ||
    (match pre with
      | some p => o.state.key == p.state.key &&
          agreeOutside touched (Objs.keys o.objs ++ Objs.keys p.objs) o.objs p.objs
      | none => false)

end RoutinatorModel.Rrdp
