import RoutinatorModel.Model.Template
/-!
# `routinator::utils::json::JsonBuilder`

The builder is a string target, an indentation level and an `empty` flag; every public
method appends text. A *scope* (the closure passed to `build`, `member_object`,
`member_array`, `array_object`, `array_array`) is the sequence of calls made on one
builder value; `Calls` is that sequence with the nested scopes inline. `render` is the
text the calls append, statement by statement as in `src/utils/json.rs`, including what
the real builder does for ill-typed sequences (it does not check anything).
-/
namespace RoutinatorModel.Json

/-- The calls made on one builder value, in order. -/
inductive Calls
  | done
  | memberObject (key : Text) (body rest : Calls)
  | memberArray (key : Text) (body rest : Calls)
  | memberStr (key val : Text) (rest : Calls)
  | memberRaw (key val : Text) (rest : Calls)
  | arrayObject (body rest : Calls)
  | arrayArray (body rest : Calls)
  | arrayStr (val : Text) (rest : Calls)
  | arrayRaw (val : Text) (rest : Calls)
  deriving Repr

/-! The literals of `json.rs` (tied to the source by `Generated/Templates.lean`). -/
def litIndent : Text := cp!"   "
def litSep : Text := cp!",\n"
def litKeySep : Text := cp!": "
def litObjOpen : Text := cp!"{\n"
def litArrOpen : Text := cp!"[\n"
def litNl : Text := cp!"\n"
def litObjClose : Text := cp!"}"
def litArrClose : Text := cp!"]"
def litQuote : Text := cp!"\""

/-- `append_indent`. -/
def appendIndent : Nat → Text
  | 0 => []
  | n + 1 => litIndent ++ appendIndent n

/-- `append_array_head`: the separator unless this is the first call in the scope. -/
def appendArrayHead (empty : Bool) : Text := if empty then [] else litSep

/-- `append_key`; `esc` is the escaping function (`json_str`). -/
def appendKey (esc : Text → Text) (indent : Nat) (empty : Bool) (key : Text) : Text :=
  appendArrayHead empty ++ (appendIndent indent ++ (litQuote ++ (esc key ++ (litQuote ++ litKeySep))))

/-- The text appended by a sequence of calls on a builder with the given indentation and
`empty` flag. After any call the flag is `false`. `esc` is the escaping function every
key and value goes through (`json_str`). -/
def render (esc : Text → Text) (indent : Nat) : Bool → Calls → Text
  | _, .done => []
  | empty, .memberObject key body rest =>
    appendKey esc indent empty key ++ (litObjOpen ++ (render esc (indent + 1) true body ++
      (litNl ++ (appendIndent indent ++ (litObjClose ++ render esc indent false rest)))))
  | empty, .memberArray key body rest =>
    appendKey esc indent empty key ++ (litArrOpen ++ (render esc (indent + 1) true body ++
      (litNl ++ (appendIndent indent ++ (litArrClose ++ render esc indent false rest)))))
  | empty, .memberStr key val rest =>
    appendKey esc indent empty key ++ (litQuote ++ (esc val ++ (litQuote ++ render esc indent false rest)))
  | empty, .memberRaw key val rest =>
    appendKey esc indent empty key ++ (esc val ++ render esc indent false rest)
  | empty, .arrayObject body rest =>
    appendArrayHead empty ++ (appendIndent indent ++ (litObjOpen ++ (render esc (indent + 1) true body ++
      (litNl ++ (appendIndent indent ++ (litObjClose ++ render esc indent false rest))))))
  | empty, .arrayArray body rest =>
    appendArrayHead empty ++ (appendIndent indent ++ (litArrOpen ++ (render esc (indent + 1) true body ++
      (litNl ++ (appendIndent indent ++ (litArrClose ++ render esc indent false rest))))))
  | empty, .arrayStr val rest =>
    appendArrayHead empty ++ (appendIndent indent ++ (litQuote ++ (esc val ++
      (litQuote ++ render esc indent false rest))))
  | empty, .arrayRaw val rest =>
    appendArrayHead empty ++ (appendIndent indent ++ (esc val ++ render esc indent false rest))

/-- `JsonBuilder::build(op)`: `array_object(op)` on a fresh builder. -/
def buildWith (esc : Text → Text) (body : Calls) : Text := render esc 0 true (.arrayObject body .done)

/-- The repaired tree. -/
def build (body : Calls) : Text := buildWith jsonStr body

/-- The pinned tree (`json_str` escaping only `"` and `\`). -/
def buildOld (body : Calls) : Text := buildWith jsonStrOld body

/-! ## Well-typed call sequences -/

/-- What `member_raw` / `array_raw` may be given: a number, `null`, `true` or `false`. -/
def rawOkB (v : Text) : Bool := isNumberB v || v == litNull || v == litTrue || v == litFalse

/-- The scope kinds: object members or array elements. -/
inductive Scope
  | obj
  | arr
  deriving DecidableEq, Repr

/-- In an object scope only `member_*` calls, in an array scope only `array_*` calls, raw
values are JSON literals, strings are sequences of Unicode scalar values. -/
def wtB : Scope → Calls → Bool
  | _, .done => true
  | .obj, .memberObject key body rest => scalarB key && wtB .obj body && wtB .obj rest
  | .obj, .memberArray key body rest => scalarB key && wtB .arr body && wtB .obj rest
  | .obj, .memberStr key val rest => scalarB key && scalarB val && wtB .obj rest
  | .obj, .memberRaw key val rest => scalarB key && rawOkB val && wtB .obj rest
  | .arr, .arrayObject body rest => wtB .obj body && wtB .arr rest
  | .arr, .arrayArray body rest => wtB .arr body && wtB .arr rest
  | .arr, .arrayStr val rest => scalarB val && wtB .arr rest
  | .arr, .arrayRaw val rest => rawOkB val && wtB .arr rest
  | _, _ => false

/-! ## What the source must look like (compared with `Generated/Templates.lean`) -/

/-- The statements of the `JsonBuilder` methods in `src/utils/json.rs`. `render` above is
this, executed: `.call` inlined, `.scope` = the nested scope's calls with `indent + 1` and
`empty = true`, `.esc` = the argument passed through `json_str`. -/
def builderSkeleton : List (Text × List BOp) := [
  (cp!"build", [.call (cp!"array_object")]),
  (cp!"member_object", [.call (cp!"append_key"), .lit litObjOpen, .scope, .lit litNl,
    .call (cp!"append_indent"), .lit litObjClose]),
  (cp!"member_array", [.call (cp!"append_key"), .lit litArrOpen, .scope, .lit litNl,
    .call (cp!"append_indent"), .lit litArrClose]),
  (cp!"member_str", [.call (cp!"append_key"), .lit litQuote, .esc, .lit litQuote]),
  (cp!"member_raw", [.call (cp!"append_key"), .esc]),
  (cp!"array_object", [.call (cp!"append_array_head"), .call (cp!"append_indent"), .lit litObjOpen,
    .scope, .lit litNl, .call (cp!"append_indent"), .lit litObjClose]),
  (cp!"array_array", [.call (cp!"append_array_head"), .call (cp!"append_indent"), .lit litArrOpen,
    .scope, .lit litNl, .call (cp!"append_indent"), .lit litArrClose]),
  (cp!"array_str", [.call (cp!"append_array_head"), .call (cp!"append_indent"), .lit litQuote, .esc,
    .lit litQuote]),
  (cp!"array_raw", [.call (cp!"append_array_head"), .call (cp!"append_indent"), .esc]),
  (cp!"append_key", [.unlessFirst litSep, .call (cp!"append_indent"), .lit litQuote, .esc,
    .lit litQuote, .lit litKeySep]),
  (cp!"append_array_head", [.unlessFirst litSep]),
  (cp!"append_indent", [.perIndent litIndent])]

/-- `json_str` searches for `"`, `\` and anything below 0x20 (`escChar`'s case split) … -/
def jsonStrFind : List (Nat × Nat) := [(0, 0x22), (0, 0x5C), (1, 0x20)]

/-- … writes what is below 0x20 as `\u` + four lower-case hex digits and puts a backslash
before the other two. -/
def jsonStrEscape : Nat × Text × Text := (0x20, cp!"\\u{:04x}", cp!"\\")

/-- A raw argument expression of an accepted kind (literal `null`/`true`/`false`, `{:.3}` of
a float, or an expression without string literals). -/
def rawArgOkB (p : Text × Nat) : Bool := p.2 == 0 || p.2 == 1 || p.2 == 2

end RoutinatorModel.Json
