import RoutinatorModel.Model.Sys
/-!
# C17 — the `/json-delta/notify` long-poll against the server's update sequence

Transition system whose labels are the atomic steps of the two participating threads, at the
granularity at which the real code can be pre-empted by the harness scheduler (every
`SharedHistory` lock acquisition and the explicit `verif::point`s):

* updater (`Server::process_once`, src/operation.rs): parked before `mark_update_start`'s write
  lock, before `update`'s read lock, before `update`'s write lock (install), before
  `mark_update_done`'s write lock, before `notify.notify()`; then the next run.
* notify handler (`handle_notify_get_or_head`, src/http/delta.rs): subscription to the broadcast
  channel, `need_wait`'s read lock (version check), the wait on the receiver, the read lock for the
  answer.

Broadcast-channel semantics (`tokio::sync::broadcast` behind `rpki::rtr::server::NotifySender`): a
receiver sees exactly the sends that happen after its subscription; `recv` returns as soon as there
is at least one (a lagged receiver returns too). Hence `sends > subAt` = "a notification is pending
for the handler".

`Order.subscribeFirst` is the repaired code (subscribe, then check); `Order.checkFirst` is the code
as found (check, then subscribe inside the `if wait` branch).
-/
namespace RoutinatorModel.Notify

inductive Order
  | checkFirst
  | subscribeFirst
  deriving DecidableEq, Repr

/-- Where the updater is parked: *before* the named action of the current run. -/
inductive UPc
  | idle      -- thread not started
  | start     -- before `mark_update_start` (write lock)
  | read      -- before the read lock in `update`
  | install   -- before the write lock in `update`
  | mark      -- before `mark_update_done` (write lock)
  | notify    -- before `notify.notify()` (point "server:marked-done")
  deriving DecidableEq, Repr

/-- Where the handler is. -/
inductive HPc
  | new         -- request not yet arrived
  | subscribed  -- (repaired order only) subscribed, before `need_wait`
  | reading     -- before the read lock in `need_wait`
  | checked     -- after `need_wait` (point "http-notify:checked")
  | blocked     -- waiting in `recv`
  | answering   -- before the read lock for the answer
  | done
  deriving DecidableEq, Repr

structure Params where
  order : Order
  session : Nat
  /-- `(session, serial)` of the query, if any. -/
  presented : Option (Nat × Nat)

structure State where
  /-- `current.is_some()` -/
  active : Bool
  serial : Nat
  /-- number of `notify()` calls that sent a message so far -/
  sends : Nat
  /-- ghost: number of installs (executions of `update`'s write section) so far -/
  installs : Nat
  upc : UPc
  /-- `must_notify` of the current run (meaningful in `mark`/`notify`) -/
  must : Bool
  hpc : HPc
  /-- value of `sends` when the handler subscribed -/
  subAt : Nat
  wait : Bool
  answer : Option (Nat × Nat)
  /-- ghost: at some moment since the request arrived the served version was not the presented one -/
  differed : Bool
  deriving DecidableEq, Repr

inductive Label
  /-- the updater runs to its next point; `changed` = the data of this run differs (used at install) -/
  | u (changed : Bool)
  /-- the handler runs to its next point -/
  | h
  /-- the handler is woken from `recv` -/
  | wake
  deriving DecidableEq, Repr

def serialNext (s : Nat) : Nat := (s + 1) % 4294967296

def stepU (s : State) (changed : Bool) : Option State :=
  match s.upc with
  | .idle => some { s with upc := .start }
  | .start => some { s with upc := .read }
  | .read => some { s with upc := .install }
  | .install =>
    if !s.active then
      some { s with upc := .mark, active := true, must := true, installs := s.installs + 1 }
    else if changed then
      some { s with upc := .mark, serial := serialNext s.serial, must := true,
                    installs := s.installs + 1 }
    else
      some { s with upc := .mark, must := false, installs := s.installs + 1 }
  | .mark => some { s with upc := .notify }
  | .notify =>
    some { s with upc := .start, sends := if s.must then s.sends + 1 else s.sends }

/-- `need_wait`: `history.read().session_and_serial() == version`. -/
def needWait (p : Params) (s : State) : Bool :=
  p.presented == some (p.session, s.serial)

def afterArrival (p : Params) (s : State) : State :=
  match p.presented with
  | none => { s with hpc := .checked, wait := false }   -- `need_wait` returns without reading
  | some _ => { s with hpc := .reading }

def stepH (p : Params) (s : State) : Option State :=
  match s.hpc with
  | .new =>
    match p.order with
    | .subscribeFirst => some { s with hpc := .subscribed, subAt := s.sends }
    | .checkFirst => some (afterArrival p s)
  | .subscribed => some (afterArrival p s)
  | .reading => some { s with hpc := .checked, wait := needWait p s }
  | .checked =>
    if !s.wait then some { s with hpc := .answering }
    else match p.order with
      | .subscribeFirst =>
        if s.sends > s.subAt then some { s with hpc := .answering }
        else some { s with hpc := .blocked }
      | .checkFirst => some { s with hpc := .blocked, subAt := s.sends }
  | .blocked => none
  | .answering => some { s with hpc := .done, answer := some (p.session, s.serial) }
  | .done => none

def stepWake (s : State) : Option State :=
  if s.hpc = .blocked ∧ s.sends > s.subAt then some { s with hpc := .answering } else none

/-- The code's step, without the ghost bookkeeping. -/
def stepCore (p : Params) (s : State) : Label → Option State
  | .u ch => stepU s ch
  | .h => stepH p s
  | .wake => stepWake s

/-- Ghost bookkeeping after every step: once the request has arrived, remember whether the served
version is not the presented one. -/
def observe (p : Params) (s : State) : State :=
  { s with differed := s.differed || (s.hpc != .new && !needWait p s) }

def step (p : Params) (s : State) (l : Label) : Option State :=
  (stepCore p s l).map (observe p)

def init (active : Bool) (serial : Nat) : State :=
  { active := active, serial := serial, sends := 0, installs := 0, upc := .idle, must := false,
    hpc := .new, subAt := 0, wait := false, answer := none, differed := false }

/-- The system: any initial history (active or not, any serial), any presented version. -/
def sys (p : Params) (active : Bool) (serial : Nat) : Sys :=
  { State := State, Label := Label, step := step p, init := init active serial }

/-- The update in progress has installed its data and its notification is still to come. -/
def owed (s : State) : Prop := s.must = true ∧ (s.upc = .mark ∨ s.upc = .notify)

instance (s : State) : Decidable (owed s) := by unfold owed; infer_instance

/-- The handler is waiting (or has decided to wait and not yet looked at the channel). -/
def waiting (s : State) : Prop := s.hpc = .blocked ∨ (s.hpc = .checked ∧ s.wait = true)

instance (s : State) : Decidable (waiting s) := by unfold waiting; infer_instance

/-- The served version is the presented one. -/
def current (p : Params) (s : State) : Prop := p.presented = some (p.session, s.serial)

instance (p : Params) (s : State) : Decidable (current p s) := by unfold current; infer_instance

end RoutinatorModel.Notify
