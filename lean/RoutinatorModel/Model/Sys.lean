/-!
# Generic labelled transition systems (DESIGN.md Appendix A.6)

Shared by the schedule properties (C15, C16, C17, C36, C37, C19). A system is a state type, a
label type (one label = one atomic step of one thread), a partial deterministic step function and
an initial state. `Reach` is reachability by ANY finite sequence of enabled labels, i.e. every
interleaving of any number of threads; `inv_of_inductive` is the induction principle every
property instantiates. Core Lean only (drivers link against this file).
-/
namespace RoutinatorModel

structure Sys where
  State : Type
  Label : Type
  step : State → Label → Option State
  init : State

inductive Reach (S : Sys) : S.State → Prop
  | init : Reach S S.init
  | step {s : S.State} {l : S.Label} {s' : S.State} :
      Reach S s → S.step s l = some s' → Reach S s'

/-- An inductive invariant holds in every reachable state. -/
theorem inv_of_inductive {S : Sys} (I : S.State → Prop) (h0 : I S.init)
    (hs : ∀ s l s', I s → S.step s l = some s' → I s') :
    ∀ s, Reach S s → I s := by
  intro s h
  induction h with
  | init => exact h0
  | step _ hstep ih => exact hs _ _ _ ih hstep

/-- Run a list of labels from a state; `none` as soon as a label is not enabled. -/
def Sys.run (S : Sys) : S.State → List S.Label → Option S.State
  | s, [] => some s
  | s, l :: ls => match S.step s l with
    | none => none
    | some s' => S.run s' ls

/-- Every state produced by running a schedule from a reachable state is reachable. -/
theorem reach_of_run {S : Sys} {s s' : S.State} (ls : List S.Label) (h : Reach S s)
    (hr : S.run s ls = some s') : Reach S s' := by
  induction ls generalizing s with
  | nil => simp [Sys.run] at hr; exact hr ▸ h
  | cons l ls ih =>
    simp only [Sys.run] at hr
    cases hl : S.step s l with
    | none => simp [hl] at hr
    | some t => rw [hl] at hr; exact ih (Reach.step h hl) hr

/-- A schedule run from the initial state ends in a reachable state. -/
theorem reach_of_run_init {S : Sys} {s' : S.State} (ls : List S.Label)
    (hr : S.run S.init ls = some s') : Reach S s' := reach_of_run ls Reach.init hr

end RoutinatorModel
