/-!
# Model of the validation engine (`src/engine.rs`, `src/payload/validation.rs`, `src/store.rs`)

An abstract repository universe: what the collector offers for a publication point
(`Fetched`), what the store holds for it (`Stored`), and the verdicts of the `rpki` crate
on individual certificates and signed objects as *attributes* (`CertAttr.ok`, `Content`):
decoding, signature, issuer claim and resource containment are modelled, not verified.
Time (`now`), validity periods, `thisUpdate`/`nextUpdate`, CRL membership, CRL URI
comparison, manifest hashes, manifest numbers, the key chain and the depth limit are
computed by the model the way the Rust code computes them.

* `processObject`        — `PubPoint::process_object` and its per-type helpers
* `validateCollected`    — `validate_collected_manifest` + `validate_collected_crl`
* `collectedIsNewer`     — `check_collected_is_newer`
* `runEntries`           — the closure passed to `StoredPoint::update` in `process_collected`
* `processCollectedWith` — `process_collected` for a given processing order of the entries
* `validateStored`, `processStored` — `validate_stored_manifest`, `process_stored`
* `processPoint`         — `PubPoint::process` (the flag `fix` selects the repaired code that
                           calls `ProcessPubPoint::restart` before falling back to the store;
                           `fix = false` is the code as found)
* `processCa`            — `process_ca_task`, by structural recursion on fuel
* `processTal`, `loadTa` — `process_tal_task`, `load_ta`
* `runOnce`, `runMany`   — one validation run over all TALs / consecutive runs
-/
namespace RoutinatorModel.Engine

abbrev Item := Nat
abbrev Name := Nat
abbrev Uri := Nat
abbrev Hash := Nat
abbrev KeyId := Nat

/-- `FilterPolicy` -/
inductive Policy | reject | warn | accept
  deriving DecidableEq, Repr, Inhabited

structure Cfg where
  /-- `stale` -/
  stale : Policy
  /-- `max_ca_depth` -/
  maxDepth : Nat
  /-- `enable_aspa` -/
  aspa : Bool
  /-- `enable_bgpsec` -/
  bgpsec : Bool
  deriving DecidableEq, Repr, Inhabited

/-- What the engine looks at in a certificate (EE, CA or router). `ok` is the `rpki`
crate's time-independent verdict (decodes, inspection, issuer claim, signature by the
issuing CA, resources encompassed); the validity period is checked by the model. -/
structure CertAttr where
  ok : Bool
  serial : Nat
  notBefore : Int
  notAfter : Int
  crlUri : Option Uri
  deriving DecidableEq, Repr, Inhabited

/-- `Validity::verify_at`: `notBefore ≤ now ≤ notAfter`. -/
def CertAttr.timeOk (c : CertAttr) (now : Int) : Bool :=
  decide (c.notBefore ≤ now) && decide (now ≤ c.notAfter)

/-- `Cert::validate_*`: the crate's verdict and the validity period. -/
def CertAttr.valid (c : CertAttr) (now : Int) : Bool := c.ok && c.timeOk now

/-- What a CA certificate says about its subject. -/
structure CaInfo where
  key : KeyId
  /-- caRepository -/
  repo : Uri
  /-- rpkiManifest: the key of the publication point in collector and store -/
  mft : Uri
  deriving DecidableEq, Repr, Inhabited

/-- The decoded meaning of a file's bytes. -/
inductive Content
  | crl (sigOk : Bool) (nextUpdate : Int) (revoked : List Nat)
  | roa (c : CertAttr) (items : List Item)
  | asa (c : CertAttr) (items : List Item)
  | gbr (c : CertAttr)
  | router (c : CertAttr) (items : List Item)
  | ca (c : CertAttr) (info : CaInfo)
  | junk
  deriving DecidableEq, Repr, Inhabited

/-- The file name extension, which selects the decoder in `process_object`. -/
inductive Ext | cer | roa | asa | gbr | crl | other
  deriving DecidableEq, Repr, Inhabited

structure File where
  /-- identity of the bytes (SHA-256) -/
  hash : Hash
  content : Content
  deriving DecidableEq, Repr, Inhabited

/-- A manifest entry. -/
structure Entry where
  name : Name
  ext : Ext
  hash : Hash
  /-- the file name is ASCII (`str_from_ascii`) -/
  nameOk : Bool
  deriving DecidableEq, Repr, Inhabited

structure Mft where
  /-- the manifest's EE certificate -/
  ee : CertAttr
  /-- `ee.crlUri` relative to the CA's repository directory, if it ends in `.crl` and
  lies inside that directory -/
  crlName : Option Name
  number : Nat
  thisUpdate : Int
  nextUpdate : Int
  entries : List Entry
  deriving DecidableEq, Repr, Inhabited

/-- Manifest bytes: their identity and, if they decode, their meaning. -/
structure MftFile where
  id : Hash
  parsed : Option Mft
  deriving DecidableEq, Repr, Inhabited

/-- What the collector offers for one publication point: the file at the manifest URI and
the files of the repository directory, plus the order (indices into the manifest's entry
list) in which this run happens to process the entries. -/
structure Fetched where
  mft : Option MftFile
  files : List (Name × File)
  order : List Nat
  deriving Repr, Inhabited

structure StoredObj where
  name : Name
  ext : Ext
  file : File
  deriving DecidableEq, Repr, Inhabited

/-- `StoredManifest` + the stored objects. `number`/`thisUpdate` are the cached copies. -/
structure Stored where
  mft : MftFile
  number : Nat
  thisUpdate : Int
  /-- `not_after`: expiry of the manifest's EE certificate (used by cleanup) -/
  notAfter : Int
  /-- `ca_repository` -/
  repo : Uri
  /-- the stored CRL bytes -/
  crl : Content
  objects : List StoredObj
  deriving DecidableEq, Repr, Inhabited

/-- `CaCert`: certificate data plus the keys on its chain (itself first). -/
structure CaCtx where
  info : CaInfo
  chain : List KeyId
  chainLen : Nat
  deriving DecidableEq, Repr, Inhabited

def CaCtx.root (info : CaInfo) : CaCtx := ⟨info, [info.key], 0⟩
def CaCtx.child (p : CaCtx) (info : CaInfo) : CaCtx := ⟨info, info.key :: p.chain, p.chainLen + 1⟩

/-- `ValidPointManifest`: the manifest content, its CRL URI and the CRL's serials. -/
structure ValidMft where
  mft : Mft
  crlUri : Uri
  revoked : List Nat
  deriving DecidableEq, Repr, Inhabited

/-- `ValidPointManifest::check_crl` -/
def ValidMft.checkCrl (vm : ValidMft) (c : CertAttr) : Bool :=
  match c.crlUri with
  | none => false
  | some u => u == vm.crlUri && !vm.revoked.contains c.serial

def lookup {α : Type} (k : Nat) : List (Nat × α) → Option α
  | [] => none
  | (k', v) :: rest => if k' = k then some v else lookup k rest

/-! ## Objects -/

/-- `process_object`: the payload and child CAs gathered so far, extended by one object.
Never fails the publication point (`want` is always true, every helper returns `Ok(())`). -/
def processObject (cfg : Cfg) (now : Int) (ca : CaCtx) (vm : ValidMft) (ext : Ext)
    (content : Content) (acc : List Item) (kids : List CaCtx) : List Item × List CaCtx :=
  match ext, content with
  | .cer, .ca c info =>
    -- process_ca_cer: check_loop, validate_ca, check_crl, CaCert::chain
    if ca.chain.contains info.key then (acc, kids)
    else if !c.valid now then (acc, kids)
    else if !vm.checkCrl c then (acc, kids)
    else if ca.chainLen + 1 > cfg.maxDepth then (acc, kids)
    else (acc, kids ++ [ca.child info])
  | .cer, .router c items =>
    -- process_router_cert
    if c.valid now && vm.checkCrl c && cfg.bgpsec then (acc ++ items, kids) else (acc, kids)
  | .roa, .roa c items =>
    if c.valid now && vm.checkCrl c then (acc ++ items, kids) else (acc, kids)
  | .asa, .asa c items =>
    if c.valid now && vm.checkCrl c && cfg.aspa then (acc ++ items, kids) else (acc, kids)
  | _, _ => (acc, kids)

/-! ## The fetched version -/

def isStale (nextUpdate now : Int) : Bool := decide (nextUpdate < now)

/-- The CRL part shared by the collected and the stored path: signature, staleness policy,
revocation of the manifest's EE certificate. -/
def crlAccepted (cfg : Cfg) (now : Int) (ee : CertAttr) : Content → Option (List Nat)
  | .crl sigOk nextUpdate revoked =>
    if !sigOk then none
    else if isStale nextUpdate now && cfg.stale == .reject then none
    else if revoked.contains ee.serial then none
    else some revoked
  | _ => none

/-- `validate_collected_manifest` and `validate_collected_crl`. Returns the validated
manifest and the CRL content to be stored. -/
def validateCollected (cfg : Cfg) (now : Int) (f : Fetched) (mf : MftFile) :
    Option (ValidMft × Content) :=
  match mf.parsed with
  | none => none
  | some m =>
    if !m.ee.valid now then none
    else if decide (m.thisUpdate > now) then none                      -- premature
    else if isStale m.nextUpdate now && cfg.stale == .reject then none  -- stale manifest
    else match m.ee.crlUri, m.crlName with
      | some crlUri, some crlName =>
        let listed := m.entries.filter (fun e => e.name == crlName)
        if listed.isEmpty then none
        else match lookup crlName f.files with
          | none => none
          | some file =>
            if !listed.all (fun e => e.hash == file.hash) then none
            else match crlAccepted cfg now m.ee file.content with
              | none => none
              | some revoked => some (⟨m, crlUri, revoked⟩, file.content)
      | _, _ => none

/-- `check_collected_is_newer`: accept?, and the stored point afterwards (a stored copy
whose cached numbers disagree with its manifest is discarded). -/
def collectedIsNewer (m : Mft) : Option Stored → Bool × Option Stored
  | none => (true, none)
  | some s =>
    if decide (m.number > s.number) && decide (m.thisUpdate > s.thisUpdate) then (true, some s)
    else match s.mft.parsed with
      | some sm =>
        if sm.number == s.number && sm.thisUpdate == s.thisUpdate then (false, some s)
        else (true, none)
      | none => (true, none)

/-- Outcome of walking the manifest entries. -/
inductive Walk
  /-- all entries present with matching hash -/
  | complete (acc : List Item) (kids : List CaCtx) (objs : List StoredObj)
  /-- `UpdateError::Abort`; `acc` is what the processor had gathered by then -/
  | aborted (acc : List Item)
  deriving DecidableEq, Repr, Inhabited

/-- The object closure of `process_collected`, over the entries in processing order. -/
def runEntries (cfg : Cfg) (now : Int) (ca : CaCtx) (vm : ValidMft) (files : List (Name × File)) :
    List Entry → List Item → List CaCtx → List StoredObj → Walk
  | [], acc, kids, objs => .complete acc kids objs
  | e :: rest, acc, kids, objs =>
    if !e.nameOk then .aborted acc
    else match lookup e.name files with
      | none => .aborted acc
      | some file =>
        if file.hash != e.hash then .aborted acc
        else
          let r := processObject cfg now ca vm e.ext file.content acc kids
          runEntries cfg now ca vm files rest r.1 r.2 (objs ++ [⟨e.name, e.ext, file⟩])

/-- Result of a publication point. -/
structure PointResult where
  /-- the payload committed to the report (`[]` if the point is rejected) -/
  items : List Item
  kids : List CaCtx
  /-- `commit` (true) or `cancel` (false) -/
  accepted : Bool
  /-- the store entry of the point afterwards -/
  stored : Option Stored
  deriving DecidableEq, Repr, Inhabited

inductive Collected
  | done (r : PointResult)
  /-- use the store; `acc` = payload left in the processor, `stored` = store entry now -/
  | fallback (acc : List Item) (stored : Option Stored)
  deriving DecidableEq, Repr, Inhabited

/-- The collected manifest has the same bytes as the stored one and the stored copy
belongs to the same caRepository: nothing changed. -/
def sameManifest (st : Option Stored) (mf : MftFile) (ca : CaCtx) : Bool :=
  match st with
  | some s => s.mft.id == mf.id && s.repo == ca.info.repo
  | none => false

/-- `process_collected` with the entries processed in the order `reorder entries` (the real
code shuffles them; `reorder` yields any permutation of the manifest's entries). -/
def processCollectedWith (cfg : Cfg) (now : Int) (ca : CaCtx) (f : Fetched) (st : Option Stored)
    (reorder : List Entry → List Entry) : Collected :=
  match f.mft with
  | none => .fallback [] st
  | some mf =>
    -- same manifest bytes and same caRepository: nothing changed
    if sameManifest st mf ca then .fallback [] st
    else match validateCollected cfg now f mf with
      | none => .fallback [] st
      | some (vm, crl) =>
        match collectedIsNewer vm.mft st with
        | (false, st') => .fallback [] st'
        | (true, st') =>
          match runEntries cfg now ca vm f.files (reorder vm.mft.entries) [] [] [] with
          | .complete acc kids objs =>
            .done ⟨acc, kids, true,
              some ⟨mf, vm.mft.number, vm.mft.thisUpdate, vm.mft.ee.notAfter, ca.info.repo, crl, objs⟩⟩
          | .aborted acc => .fallback acc st'

/-- Removes the element at position `k`. -/
def extract {α : Type} : Nat → List α → Option (α × List α)
  | _, [] => none
  | 0, a :: l => some (a, l)
  | k + 1, a :: l =>
    match extract k l with
    | some (b, r) => some (b, a :: r)
    | none => none

/-- Reorders `l` as directed by `order`: each number picks (and removes) the element at
that position among the elements still left; what is left at the end keeps its order.
Every `order` yields a permutation of `l`, and every permutation arises this way. -/
def applyOrder {α : Type} : List Nat → List α → List α
  | [], l => l
  | k :: ks, l =>
    match extract k l with
    | some (b, r) => b :: applyOrder ks r
    | none => l

def processCollected (cfg : Cfg) (now : Int) (ca : CaCtx) (f : Fetched) (st : Option Stored) :
    Collected :=
  processCollectedWith cfg now ca f st (applyOrder f.order)

/-! ## The stored version -/

/-- `validate_stored_manifest` (no premature check on this path). -/
def validateStored (cfg : Cfg) (now : Int) (s : Stored) : Option ValidMft :=
  match s.mft.parsed with
  | none => none
  | some m =>
    if !m.ee.valid now then none
    else if isStale m.nextUpdate now && cfg.stale == .reject then none
    else match m.ee.crlUri with
      | none => none
      | some crlUri =>
        match crlAccepted cfg now m.ee s.crl with
        | none => none
        | some revoked => some ⟨m, crlUri, revoked⟩

def runStoredObjects (cfg : Cfg) (now : Int) (ca : CaCtx) (vm : ValidMft) :
    List StoredObj → List Item → List CaCtx → List Item × List CaCtx
  | [], acc, kids => (acc, kids)
  | o :: rest, acc, kids =>
    let r := processObject cfg now ca vm o.ext o.file.content acc kids
    runStoredObjects cfg now ca vm rest r.1 r.2

/-- `process_stored`, started with `acc0` already in the processor. -/
def processStored (cfg : Cfg) (now : Int) (ca : CaCtx) (st : Option Stored) (acc0 : List Item) :
    PointResult :=
  match st with
  | none => ⟨[], [], false, st⟩
  | some s =>
    match validateStored cfg now s with
    | none => ⟨[], [], false, st⟩
    | some vm =>
      let r := runStoredObjects cfg now ca vm s.objects acc0 []
      ⟨r.1, r.2, true, st⟩

/-! ## Publication point, CA, TAL, run -/

/-- The collector's offer per manifest URI (rsync always offers a directory, possibly
without the manifest). -/
abbrev Offer := List (Uri × Fetched)

def Offer.get (o : Offer) (u : Uri) : Fetched := (lookup u o).getD ⟨none, [], []⟩

/-- `PubPoint::process`. `fix = true`: the processor is restarted before the stored
version is processed (repaired code); `fix = false`: the code as found. `coll = none`:
validation without collector (`Engine::new(config, false)`). -/
def processPointWith (fix : Bool) (cfg : Cfg) (now : Int) (coll : Option Offer)
    (st : Option Stored) (ca : CaCtx) (reorder : List Entry → List Entry) : PointResult :=
  match coll with
  | none => processStored cfg now ca st []
  | some offer =>
    match processCollectedWith cfg now ca (offer.get ca.info.mft) st reorder with
    | .done r => r
    | .fallback acc st' => processStored cfg now ca st' (if fix then [] else acc)

/-- `processPointWith` with the processing order recorded in the collector's offer. -/
def processPoint (fix : Bool) (cfg : Cfg) (now : Int) (coll : Option Offer) (st : Option Stored)
    (ca : CaCtx) : PointResult :=
  processPointWith fix cfg now coll st ca
    (applyOrder (match coll with
                 | some offer => (offer.get ca.info.mft).order
                 | none => []))

structure TaCert where
  key : KeyId
  /-- `inspect_ta` + self-signature + no inherited resources -/
  ok : Bool
  notBefore : Int
  notAfter : Int
  info : CaInfo
  deriving DecidableEq, Repr, Inhabited

def TaCert.valid (c : TaCert) (now : Int) : Bool :=
  c.ok && decide (c.notBefore ≤ now) && decide (now ≤ c.notAfter)

/-- Bytes found at a trust anchor URI: identity and, if they decode, the certificate. -/
structure TaFile where
  id : Hash
  cert : Option TaCert
  deriving DecidableEq, Repr, Inhabited

structure Tal where
  key : KeyId
  uris : List Uri
  deriving DecidableEq, Repr, Inhabited

structure Store where
  points : List (Uri × Stored)
  tas : List (Uri × TaFile)
  deriving Repr, Inhabited

def setKey {α : Type} (k : Nat) (v : Option α) : List (Nat × α) → List (Nat × α)
  | [] => match v with
    | some v => [(k, v)]
    | none => []
  | (k', v') :: rest =>
    if k' = k then
      match v with
      | some v => (k, v) :: rest
      | none => rest
    else (k', v') :: setKey k v rest

def Store.point (s : Store) (u : Uri) : Option Stored := lookup u s.points
def Store.setPoint (s : Store) (u : Uri) (v : Option Stored) : Store :=
  { s with points := setKey u v s.points }
/-- `store::Run::cleanup` as far as the model's store goes: stored publication points whose
manifest EE certificate has expired (`retain`: `not_after > now`) and stored trust anchor
certificates that do not decode or have expired (`cleanup_ta`) are removed. -/
def Store.cleanup (s : Store) (now : Int) : Store :=
  { points := s.points.filter (fun p => decide (p.2.notAfter > now))
    tas := s.tas.filter (fun p =>
      match p.2.cert with
      | some c => decide (c.notAfter > now)
      | none => false) }

def Store.ta (s : Store) (u : Uri) : Option TaFile := lookup u s.tas
def Store.setTa (s : Store) (u : Uri) (v : TaFile) : Store :=
  { s with tas := setKey u (some v) s.tas }

/-- The server side of a run as the collector delivers it. -/
structure View where
  /-- trust anchor certificate downloads -/
  tas : List (Uri × TaFile)
  points : Offer
  deriving Repr, Inhabited

/-- `process_ca_task`: the CA's own publication point, then its children with one unit of
fuel less. Returns the payload of the whole subtree and the store. With
`fuel = maxDepth + 1 - chainLen` the `0` case is never reached (`C07`). -/
def processCa (fix : Bool) (cfg : Cfg) (now : Int) (coll : Option Offer) :
    Nat → Store → CaCtx → List Item × Store
  | 0, store, _ => ([], store)
  | fuel + 1, store, ca =>
    let r := processPoint fix cfg now coll (store.point ca.info.mft) ca
    let store := store.setPoint ca.info.mft r.stored
    r.kids.foldl
      (fun (acc : List Item × Store) kid =>
        let sub := processCa fix cfg now coll fuel acc.2 kid
        (acc.1 ++ sub.1, sub.2))
      (r.items, store)

/-- `load_ta`: a download that decodes is stored and used; otherwise the stored copy. -/
def loadTa (view : Option View) (store : Store) (uri : Uri) : Option TaCert × Store :=
  match (match view with
         | some v => lookup uri v.tas
         | none => none) with
  | some file =>
    match file.cert with
    | some c => (some c, store.setTa uri file)
    | none => (match store.ta uri with
               | some f => f.cert
               | none => none, store)
  | none => (match store.ta uri with
             | some f => f.cert
             | none => none, store)

/-- The URI loop of `process_tal_task`: the first URI yielding a certificate that carries
the TAL's key and validates as a trust anchor is chosen; later URIs are not looked at.
Returns the chosen certificate (if any) and the store after the loads. -/
def selectTa (now : Int) (view : Option View) (tal : Tal) :
    List Uri → Store → Option TaCert × Store
  | [], store => (none, store)
  | uri :: rest, store =>
    match loadTa view store uri with
    | (none, store) => selectTa now view tal rest store
    | (some c, store) =>
      if c.key != tal.key then selectTa now view tal rest store
      else if !c.valid now then selectTa now view tal rest store
      else (some c, store)

/-- `process_tal_task`. -/
def processTal (fix : Bool) (cfg : Cfg) (now : Int) (view : Option View) (tal : Tal)
    (store : Store) : List Item × Store :=
  match selectTa now view tal tal.uris store with
  | (none, store) => ([], store)
  | (some c, store) =>
    processCa fix cfg now (view.map (·.points)) (cfg.maxDepth + 1) store (CaCtx.root c.info)

/-- One validation run over all TALs. -/
def runOnce (fix : Bool) (cfg : Cfg) (now : Int) (view : Option View) (tals : List Tal)
    (store : Store) : List Item × Store :=
  tals.foldl
    (fun (acc : List Item × Store) tal =>
      let r := processTal fix cfg now view tal acc.2
      (acc.1 ++ r.1, r.2))
    ([], store)

/-- A run of a scenario: the clock, the collector's view (`none`: no collector) and whether
the store is cleaned up afterwards (`run.cleanup()`; skipped with `dirty`). -/
structure Run where
  now : Int
  view : Option View
  cleanup : Bool
  deriving Repr, Inhabited

/-- A complete run as `ValidationReport::process` performs it: validation, then cleanup. -/
def runFull (fix : Bool) (cfg : Cfg) (tals : List Tal) (r : Run) (store : Store) :
    List Item × Store :=
  let out := runOnce fix cfg r.now r.view tals store
  (out.1, if r.cleanup then out.2.cleanup r.now else out.2)

/-- Consecutive runs over a changing server; returns each run's payload and store. -/
def runMany (fix : Bool) (cfg : Cfg) (tals : List Tal) :
    List Run → Store → List (List Item × Store)
  | [], _ => []
  | r :: rest, store =>
    let out := runFull fix cfg tals r store
    out :: runMany fix cfg tals rest out.2

end RoutinatorModel.Engine
