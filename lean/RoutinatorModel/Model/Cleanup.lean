import RoutinatorModel.Model.Store
/-!
# Model of cleanup (`store::Run::cleanup`, `collector::Run::cleanup`, `engine::Run::cleanup`,
# `ValidationReport::process`)

The cache directory is the store (`StoreFile.FStore`: one file per publication point, trust
anchor certificates) and the collector's local copies, one per *repository key* — an rsync
module (`<cache>/rsync/<authority>/<module>`) or an RRDP repository
(`<cache>/rrdp/<authority>/<hash of rpkiNotify>`); both transports treat their keys alike.

* `Cache.cleanup`   — `engine::Run::cleanup` without the `dirty` test: `store.cleanup(&mut retain)`
  keeps a stored point iff `StoredPoint::retain` and registers the repository of every point it
  keeps (`add_rsync_module(manifest_uri)` / `add_rrdp_repository(rpki_notify)`); then, if the
  run has a collector, `collector.cleanup(&mut retain)` adds every repository updated during
  this run and removes all other copies.
* `finishRun`       — the tail of `ValidationReport::process`: `run.process()?; run.cleanup()?`
  with `cleanup` returning early when `dirty_repository` is set.
* `processCaV`, `runOnceV` — validation as in `StoreFile.processCaF`/`runOnceF`, also recording
  which repositories the run touched (`load_module(ca_repository)` for every CA visited,
  `load_module(uri)` for every trust anchor URI tried).
* `runFullC`, `runManyC` — complete runs over the cache.
-/
namespace RoutinatorModel.Cleanup
open RoutinatorModel.Engine RoutinatorModel.StoreFile

/-- An rsync module or an RRDP repository. -/
abbrev RepoKey := Nat

structure Cache where
  store : FStore
  /-- the collector's local copies that exist -/
  repos : List RepoKey
  deriving Repr, Inhabited

/-- The repositories registered by the stored points that `store.cleanup` keeps. `keyOf` maps a
point (its manifest URI) to its repository key. -/
def registered (keyOf : Uri → RepoKey) (files : List (Uri × PointFile)) : List RepoKey :=
  files.map (fun p => keyOf p.1)

/-- `engine::Run::cleanup` (not dirty) at time `now` for a run started at `started` that
updated the repositories `updated`; `collector`: does the run have a collector? -/
def Cache.cleanup (keyOf : Uri → RepoKey) (now started : Int) (updated : List RepoKey)
    (collector : Bool) (c : Cache) : Cache :=
  let store := c.store.cleanup now started
  let retain := registered keyOf store.files ++ updated
  { store := store
    repos := if collector then c.repos.filter (fun k => retain.contains k) else c.repos }

/-- The tail of `ValidationReport::process` after `engine.start`: `ok = false` means
`run.process()` returned an error (`?` leaves before `cleanup`). -/
def finishRun (keyOf : Uri → RepoKey) (dirty ok : Bool) (now started : Int)
    (updated : List RepoKey) (collector : Bool) (c : Cache) : Cache :=
  if !ok then c
  else if dirty then c
  else c.cleanup keyOf now started updated collector

/-- `process_ca_task` over the file-level store, also returning the caRepository URIs of the
CAs visited (each is passed to `collector.repository`, i.e. `load_module`). -/
def processCaV (cfg : Cfg) (now : Int) (coll : Option Offer) :
    Nat → FStore → CaCtx → (List Item × List Uri) × FStore
  | 0, store, _ => (([], []), store)
  | fuel + 1, store, ca =>
    let order := match coll with
      | some offer => (offer.get ca.info.mft).order
      | none => []
    let r := processPointFile cfg now coll (store.file ca.info.mft) ca (applyOrder order)
    let store := store.setFile ca.info.mft r.2
    r.1.kids.foldl
      (fun (acc : (List Item × List Uri) × FStore) kid =>
        let sub := processCaV cfg now coll fuel acc.2 kid
        ((acc.1.1 ++ sub.1.1, acc.1.2 ++ sub.1.2), sub.2))
      ((r.1.items, [ca.info.repo]), store)

/-- The URIs `process_tal_task` tries: all up to and including the first one that yields a
certificate with the TAL's key that validates (cf. `Engine.selectTa`). -/
def triedUris (now : Int) (view : Option View) (tal : Tal) : List Uri → Store → List Uri
  | [], _ => []
  | uri :: rest, store =>
    match loadTa view store uri with
    | (none, store) => uri :: triedUris now view tal rest store
    | (some c, store) =>
      if c.key != tal.key then uri :: triedUris now view tal rest store
      else if !c.valid now then uri :: triedUris now view tal rest store
      else [uri]

def processTalV (cfg : Cfg) (now : Int) (view : Option View) (tal : Tal) (store : FStore) :
    (List Item × List Uri) × FStore :=
  let tried := triedUris now view tal tal.uris ⟨[], store.tas⟩
  match selectTa now view tal tal.uris ⟨[], store.tas⟩ with
  | (none, s) => (([], tried), { store with tas := s.tas })
  | (some c, s) =>
    let r := processCaV cfg now (view.map (·.points)) (cfg.maxDepth + 1) { store with tas := s.tas }
      (CaCtx.root c.info)
    ((r.1.1, tried ++ r.1.2), r.2)

def runOnceV (cfg : Cfg) (now : Int) (view : Option View) (tals : List Tal) (store : FStore) :
    (List Item × List Uri) × FStore :=
  tals.foldl
    (fun (acc : (List Item × List Uri) × FStore) tal =>
      let r := processTalV cfg now view tal acc.2
      ((acc.1.1 ++ r.1.1, acc.1.2 ++ r.1.2), r.2))
    (([], []), store)

def addNew (l : List RepoKey) : List RepoKey → List RepoKey
  | [] => l
  | k :: ks => if l.contains k then addNew l ks else addNew (l ++ [k]) ks

/-- A complete successful run over the cache: validation (every touched repository gets a
local copy: `fs::create_dir_all(destination)` precedes the rsync call), then `finishRun`.
`repoKey` maps the URIs the run touches (caRepository, trust anchor URIs) to repository keys. -/
def runFullC (keyOf repoKey : Uri → RepoKey) (dirty : Bool) (cfg : Cfg) (tals : List Tal)
    (r : Run) (c : Cache) : List Item × Cache :=
  let out := runOnceV cfg r.now r.view tals c.store
  let collector := r.view.isSome
  let updated := if collector then out.1.2.map repoKey else []
  let c1 : Cache := ⟨out.2, addNew c.repos updated⟩
  (out.1.1, finishRun keyOf (dirty || !r.cleanup) true r.now r.now updated collector c1)

def runManyC (keyOf repoKey : Uri → RepoKey) (dirty : Bool) (cfg : Cfg) (tals : List Tal) :
    List Run → Cache → List (List Item × Cache)
  | [], _ => []
  | r :: rest, c =>
    let out := runFullC keyOf repoKey dirty cfg tals r c
    out :: runManyC keyOf repoKey dirty cfg tals rest out.2

end RoutinatorModel.Cleanup
