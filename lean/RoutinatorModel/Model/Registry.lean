import RoutinatorModel.Model.Sys
/-!
# C36 — the per-address RTR client metrics registry

`metrics::RtrPerAddrMetrics::get` (double-checked insert into an immutable sorted snapshot held
in an `ArcSwap`, writers serialised by a mutex), followed by what `rtr::RtrStream::new` and
`Drop for RtrStream` do with the returned entry (`RtrClientMetrics::update`: the global counter,
then the per-address counter).

```
connection from address a:                         pc
  snap := addrs.load(); search a                   start a
     found e → return e
  write.lock()                                     lockw a       (enabled iff the mutex is free)
  snap := addrs.load(); search a                   locked a
     found e → (unlock) return e                   relret a e
  new := snap with (a, fresh) at its sorted place  (same step: local computation)
  addrs.store(new)                                 store a new e
  (unlock) return e                                stored a e
  global.current_connections += 1                  got a e
  e.current_connections += 1                       incC a e
  … connection open …                              open a e
  global.current_connections -= 1                  (close)
  e.current_connections -= 1                       decC a e
```

Addresses are natural numbers (the rank of the `IpAddr` in its `Ord`), entries (the
`Arc<RtrMetricsData>` objects) are numbered in order of creation. `ArcSwap`, the mutex and the
atomics are modelled as sequentially consistent cells (the claim is *partial* in that respect).
Any number of connections/threads (`Tid = Nat`), any addresses.
-/
namespace RoutinatorModel.Registry

abbrev Tid := Nat
abbrev Addr := Nat
abbrev Entry := Nat

/-- Insert `(a, e)` in front of the first element whose address is not smaller. On a sorted
list without `a` this is `new_addrs = addrs[..idx] ++ [(a, e)] ++ addrs[idx..]` for the `idx`
returned by the failed binary search. -/
def ins (a : Addr) (e : Entry) : List (Addr × Entry) → List (Addr × Entry)
  | [] => [(a, e)]
  | (b, f) :: l => if b < a then (b, f) :: ins a e l else (a, e) :: (b, f) :: l

inductive Pc where
  | idle
  | start (a : Addr)
  | lockw (a : Addr)
  | locked (a : Addr)
  | relret (a : Addr) (e : Entry)
  | store (a : Addr) (new : List (Addr × Entry)) (e : Entry)
  | stored (a : Addr) (e : Entry)
  | got (a : Addr) (e : Entry)
  | incC (a : Addr) (e : Entry)
  | «open» (a : Addr) (e : Entry)
  | decC (a : Addr) (e : Entry)
  deriving DecidableEq, Repr

structure St where
  /-- the `ArcSwap` cell: the current snapshot -/
  cell : List (Addr × Entry)
  /-- the `write` mutex -/
  wlock : Option Tid
  nextEntry : Entry
  pc : Tid → Pc
  /-- `current_connections` of every entry object (an integer so that an underflow would show) -/
  cnt : Entry → Int
  /-- `current_connections` of the global metrics -/
  global : Int
  /-- ghost: connections currently counted in `global` -/
  gOpen : List Tid
  /-- ghost: connections currently counted in their entry -/
  cOpen : List (Tid × Addr × Entry)

def St.init : St :=
  { cell := [], wlock := none, nextEntry := 0, pc := fun _ => .idle, cnt := fun _ => 0,
    global := 0, gOpen := [], cOpen := [] }

def upd {β : Type} (f : Nat → β) (a : Nat) (b : β) : Nat → β := fun x => if x = a then b else f x

inductive Act where
  | connect (a : Addr)
  | step
  deriving DecidableEq, Repr

abbrev Label := Tid × Act

def step (s : St) : Label → Option St
  | (t, .connect a) =>
    match s.pc t with
    | .idle => some { s with pc := upd s.pc t (.start a) }
    | _ => none
  | (t, .step) =>
    match s.pc t with
    | .idle => none
    | .start a =>
      match s.cell.lookup a with
      | some e => some { s with pc := upd s.pc t (.got a e) }
      | none => some { s with pc := upd s.pc t (.lockw a) }
    | .lockw a =>
      match s.wlock with
      | none => some { s with wlock := some t, pc := upd s.pc t (.locked a) }
      | some _ => none
    | .locked a =>
      match s.cell.lookup a with
      | some e => some { s with pc := upd s.pc t (.relret a e) }
      | none =>
        some { s with nextEntry := s.nextEntry + 1,
                      pc := upd s.pc t (.store a (ins a s.nextEntry s.cell) s.nextEntry) }
    | .relret a e => some { s with wlock := none, pc := upd s.pc t (.got a e) }
    | .store a new e => some { s with cell := new, pc := upd s.pc t (.stored a e) }
    | .stored a e => some { s with wlock := none, pc := upd s.pc t (.got a e) }
    | .got a e =>
      some { s with global := s.global + 1, gOpen := t :: s.gOpen, pc := upd s.pc t (.incC a e) }
    | .incC a e =>
      some { s with cnt := upd s.cnt e (s.cnt e + 1), cOpen := (t, a, e) :: s.cOpen,
                    pc := upd s.pc t (.open a e) }
    | .open a e =>
      some { s with global := s.global - 1, gOpen := s.gOpen.erase t, pc := upd s.pc t (.decC a e) }
    | .decC a e =>
      some { s with cnt := upd s.cnt e (s.cnt e - 1), cOpen := s.cOpen.erase (t, a, e),
                    pc := upd s.pc t .idle }

/-- The transition system: every interleaving of any number of connections. -/
def sys : Sys := { State := St, Label := Label, step := step, init := St.init }

/-! ### Replay granularity: hook points `metrics.*` and the harness points `got` / `open`. -/

def Pc.visible : Pc → Bool
  | .relret .. | .incC .. | .decC .. => false
  | _ => true

def settle (t : Tid) : Nat → St → Option St
  | 0, s => some s
  | n + 1, s =>
    if (s.pc t).visible then some s
    else match step s (t, .step) with
      | none => none
      | some s' => settle t n s'

def macroStep (s : St) (l : Label) : Option St :=
  match step s l with
  | none => none
  | some s' => settle l.1 2 s'

end RoutinatorModel.Registry
