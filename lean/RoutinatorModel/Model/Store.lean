import RoutinatorModel.Model.Engine
/-!
# File-level model of the store (`src/store.rs`) under the validation engine

`Model/Engine.lean` threads an abstract `Option Stored` per publication point. This module
refines it to what is on disk: one file per publication point (`StoredPoint`), whose header
says `LastAttempt t` (never successfully updated; nothing else in the file) or `Success t`
(followed by the stored manifest and the objects).

* `PointFile`               — the content of `<cache>/stored/<repo>/rsync/<authority>/<module>/<path>`
* `PointFile.open`          — `StoredPoint::open` (`create` for a missing or unreadable file,
                              header rewrite for `LastAttempt`, untouched for `Success`)
* `processPointFile`        — `PubPoint::process` with its effects on the file: `open`,
                              `reject` (inside `check_collected_is_newer`), `update`
                              (temp file + persist, only after the last object), fallback to
                              `process_stored`
* `PointFile.retain`, `FStore.cleanup` — `StoredPoint::retain`, `store::Run::cleanup`
* `processCaF`, `runOnceF`, `runFullF`, `runManyF` — validation runs over the file-level store
-/
namespace RoutinatorModel.StoreFile
open RoutinatorModel.Engine

/-- The file of one stored publication point. -/
inductive PointFile
  /-- no file -/
  | absent
  /-- a file whose header does not parse (foreign version, truncated) -/
  | garbage
  /-- header `LastAttempt t`: requested but never successfully retrieved -/
  | attempt (t : Int)
  /-- header `Success t`, manifest, CRL and objects -/
  | success (t : Int) (s : Stored)
  deriving DecidableEq, Repr, Inhabited

/-- The stored version the engine sees (`StoredPoint::manifest` and the object iterator). -/
def PointFile.stored : PointFile → Option Stored
  | .success _ s => some s
  | _ => none

/-- `StoredPoint::open` at wall-clock time `now`: the file afterwards and `is_new`. A missing
file and a file whose header cannot be read are (re)created with `LastAttempt now`; a
`LastAttempt` header is rewritten with the current time; a `Success` file is only read. -/
def PointFile.open (now : Int) : PointFile → PointFile × Bool
  | .absent => (.attempt now, true)
  | .garbage => (.attempt now, true)
  | .attempt _ => (.attempt now, false)
  | .success t s => (.success t s, false)

/-- The only change a run makes to a point's file when it does not replace or reject it
(the documented "last attempt" header touch). -/
def PointFile.touch (now : Int) (f : PointFile) : PointFile := (f.open now).1

/-- `PubPoint::process` (repaired code: the processor is restarted before the stored version
is processed) together with its effect on the point's file. `coll = none`: no collector.
`reorder`: the processing order of the fetched manifest's entries. -/
def processPointFile (cfg : Cfg) (now : Int) (coll : Option Offer) (file : PointFile) (ca : CaCtx)
    (reorder : List Entry → List Entry) : PointResult × PointFile :=
  -- `self.run.store.pub_point(self.cert)`
  let f0 := (file.open now).1
  match coll with
  | none => (processStored cfg now ca f0.stored [], f0)
  | some offer =>
    let f := offer.get ca.info.mft
    match f.mft with
    | none => (processStored cfg now ca f0.stored [], f0)
    | some mf =>
      if sameManifest f0.stored mf ca then (processStored cfg now ca f0.stored [], f0)
      else match validateCollected cfg now f mf with
        | none => (processStored cfg now ca f0.stored [], f0)
        | some (vm, crl) =>
          match collectedIsNewer vm.mft f0.stored with
          | (false, _) => (processStored cfg now ca f0.stored [], f0)
          | (true, st') =>
            -- `stored.reject()`: the inconsistent stored copy is replaced by a bare
            -- `LastAttempt now` header before the update is attempted
            let f1 := if f0.stored.isSome && st'.isNone then PointFile.attempt now else f0
            match runEntries cfg now ca vm f.files (reorder vm.mft.entries) [] [] [] with
            | .complete acc kids objs =>
              -- `tmp_file.persist(&self.path)` after the closure returned `Ok(None)`
              let s : Stored :=
                ⟨mf, vm.mft.number, vm.mft.thisUpdate, vm.mft.ee.notAfter, ca.info.repo, crl, objs⟩
              (⟨acc, kids, true, some s⟩, .success now s)
            | .aborted _ =>
              -- `UpdateError::Abort`: the temporary file is dropped
              (processStored cfg now ca f1.stored [], f1)

/-- `StoredPoint::retain(update_start)` at cleanup time `now` for a run started at `started`;
`load_quietly` fails for unreadable files, which are deleted. -/
def PointFile.retain (now started : Int) : PointFile → Bool
  | .absent => false
  | .garbage => false
  | .attempt t => decide (t ≥ started)
  | .success _ s => decide (s.notAfter > now)

/-- The store directory: point files by manifest URI, trust anchor certificates by URI. -/
structure FStore where
  files : List (Uri × PointFile)
  tas : List (Uri × TaFile)
  deriving Repr, Inhabited

def FStore.file (s : FStore) (u : Uri) : PointFile := (lookup u s.files).getD .absent

def FStore.setFile (s : FStore) (u : Uri) (f : PointFile) : FStore :=
  { s with files := setKey u (some f) s.files }

/-- `store::Run::cleanup`: `cleanup_ta` and `cleanup_points`. -/
def FStore.cleanup (s : FStore) (now started : Int) : FStore :=
  { files := s.files.filter (fun p => p.2.retain now started)
    tas := s.tas.filter (fun p =>
      match p.2.cert with
      | some c => decide (c.notAfter > now)
      | none => false) }

/-- `process_ca_task` over the file-level store (cf. `Engine.processCa`). -/
def processCaF (cfg : Cfg) (now : Int) (coll : Option Offer) :
    Nat → FStore → CaCtx → List Item × FStore
  | 0, store, _ => ([], store)
  | fuel + 1, store, ca =>
    let order := match coll with
      | some offer => (offer.get ca.info.mft).order
      | none => []
    let r := processPointFile cfg now coll (store.file ca.info.mft) ca (applyOrder order)
    let store := store.setFile ca.info.mft r.2
    r.1.kids.foldl
      (fun (acc : List Item × FStore) kid =>
        let sub := processCaF cfg now coll fuel acc.2 kid
        (acc.1 ++ sub.1, sub.2))
      (r.1.items, store)

/-- `process_tal_task`; the trust anchor part is `Engine.selectTa` on the `tas` component. -/
def processTalF (cfg : Cfg) (now : Int) (view : Option View) (tal : Tal) (store : FStore) :
    List Item × FStore :=
  match selectTa now view tal tal.uris ⟨[], store.tas⟩ with
  | (none, s) => ([], { store with tas := s.tas })
  | (some c, s) =>
    processCaF cfg now (view.map (·.points)) (cfg.maxDepth + 1) { store with tas := s.tas }
      (CaCtx.root c.info)

def runOnceF (cfg : Cfg) (now : Int) (view : Option View) (tals : List Tal) (store : FStore) :
    List Item × FStore :=
  tals.foldl
    (fun (acc : List Item × FStore) tal =>
      let r := processTalF cfg now view tal acc.2
      (acc.1 ++ r.1, r.2))
    ([], store)

/-- `ValidationReport::process`: validation, then cleanup (the run started at `r.now`; the
harness clock stands still during a run). -/
def runFullF (cfg : Cfg) (tals : List Tal) (r : Run) (store : FStore) : List Item × FStore :=
  let out := runOnceF cfg r.now r.view tals store
  (out.1, if r.cleanup then out.2.cleanup r.now r.now else out.2)

def runManyF (cfg : Cfg) (tals : List Tal) : List Run → FStore → List (List Item × FStore)
  | [], _ => []
  | r :: rest, store =>
    let out := runFullF cfg tals r store
    out :: runManyF cfg tals rest out.2

end RoutinatorModel.StoreFile
