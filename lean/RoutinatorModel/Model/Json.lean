/-!
# RFC 8259 JSON texts over code points, and routinator's `json_str`

Texts are lists of Unicode code points (`Nat`); the UTF-8 encoding Rust's `String`
adds is not modelled. `J` is the grammar of RFC 8259 §2–§7 as an inductive predicate
(one constructor per production), `IsJson` the start symbol `ws value ws`.

`jsonStr` models `routinator::utils::json::json_str` (after the C22 repair: `"` and `\`
get a backslash, every other code point below 0x20 becomes `\u00XX`); `jsonStrOld` is the
escaping of the pinned tree (only `"` and `\`).
-/
namespace RoutinatorModel.Json

/-- A text: a list of Unicode code points. -/
abbrev Text := List Nat

/-- `cp!"abc"` is the list of code points of the string literal, as a list literal
(string literals themselves reduce badly in the kernel). -/
macro "cp!" s:str : term => do
  let cs := s.getString.toList.map fun c => Lean.Syntax.mkNumLit (toString c.toNat)
  let arr : Array (Lean.TSyntax `term) := cs.toArray
  `(([ $arr,* ] : List Nat))

/-! ## Character classes -/

/-- RFC 8259 §2 `ws`: space, horizontal tab, line feed, carriage return. -/
def isWsChar (c : Nat) : Bool := c == 0x20 || c == 0x09 || c == 0x0A || c == 0x0D

def isDigit (c : Nat) : Bool := decide (0x30 ≤ c) && decide (c ≤ 0x39)

def isHex (c : Nat) : Bool :=
  isDigit c || (decide (0x41 ≤ c) && decide (c ≤ 0x46)) || (decide (0x61 ≤ c) && decide (c ≤ 0x66))

/-- RFC 8259 §7 `unescaped = %x20-21 / %x23-5B / %x5D-10FFFF`. -/
def isUnescaped (c : Nat) : Bool :=
  decide (0x20 ≤ c) && c != 0x22 && c != 0x5C && decide (c ≤ 0x10FFFF)

/-- The characters that may follow a backslash (other than `u`): `" \ / b f n r t`. -/
def isSimpleEscape (c : Nat) : Bool :=
  c == 0x22 || c == 0x5C || c == 0x2F || c == 0x62 || c == 0x66 || c == 0x6E || c == 0x72 || c == 0x74

/-- A (possibly empty) run of insignificant whitespace. -/
def IsWs (s : Text) : Prop := ∀ c ∈ s, isWsChar c = true

/-! ## Strings -/

/-- The characters between the quotation marks of a JSON string (`*char`). -/
inductive IsChars : Text → Prop
  | nil : IsChars []
  | plain {c : Nat} {s : Text} : isUnescaped c = true → IsChars s → IsChars (c :: s)
  | esc {c : Nat} {s : Text} : isSimpleEscape c = true → IsChars s → IsChars (0x5C :: c :: s)
  | uni {a b c d : Nat} {s : Text} : isHex a = true → isHex b = true → isHex c = true →
      isHex d = true → IsChars s → IsChars (0x5C :: 0x75 :: a :: b :: c :: d :: s)

/-! ## Numbers -/

/-- `1*DIGIT`. -/
def IsDigits (s : Text) : Prop := s ≠ [] ∧ ∀ c ∈ s, isDigit c = true

/-- `int = zero / ( digit1-9 *DIGIT )`. -/
def IsInt (s : Text) : Prop :=
  s = [0x30] ∨ ∃ d ds, s = d :: ds ∧ 0x31 ≤ d ∧ d ≤ 0x39 ∧ ∀ c ∈ ds, isDigit c = true

/-- `[ frac ]`, `frac = decimal-point 1*DIGIT`. -/
def IsFrac (s : Text) : Prop := s = [] ∨ ∃ ds, s = 0x2E :: ds ∧ IsDigits ds

/-- `[ exp ]`, `exp = e [ minus / plus ] 1*DIGIT`. -/
def IsExp (s : Text) : Prop :=
  s = [] ∨ ∃ e sg ds, s = e :: (sg ++ ds) ∧ (e = 0x65 ∨ e = 0x45) ∧
    (sg = [] ∨ sg = [0x2B] ∨ sg = [0x2D]) ∧ IsDigits ds

/-- `number = [ minus ] int [ frac ] [ exp ]`. -/
def IsNumber (s : Text) : Prop :=
  ∃ m i f e, s = m ++ i ++ f ++ e ∧ (m = [] ∨ m = [0x2D]) ∧ IsInt i ∧ IsFrac f ∧ IsExp e

/-! ## Deciding `IsNumber` (sound: `Proofs/Json.lean: isNumberB_sound`) -/

/-- The longest prefix of digits, and the rest. -/
def takeDigits : Text → Text × Text
  | [] => ([], [])
  | c :: s => if isDigit c then ((c :: (takeDigits s).1), (takeDigits s).2) else ([], c :: s)

def stripMinus : Text → Text × Text
  | 0x2D :: r => ([0x2D], r)
  | s => ([], s)

def stripSign : Text → Text × Text
  | 0x2B :: r => ([0x2B], r)
  | 0x2D :: r => ([0x2D], r)
  | s => ([], s)

def takeInt : Text → Option (Text × Text)
  | [] => none
  | c :: r =>
    if c = 0x30 then some ([0x30], r)
    else if 0x31 ≤ c ∧ c ≤ 0x39 then some (c :: (takeDigits r).1, (takeDigits r).2)
    else none

def takeFrac : Text → Option (Text × Text)
  | [] => some ([], [])
  | c :: r =>
    if c = 0x2E then
      (if (takeDigits r).1 = [] then none else some (0x2E :: (takeDigits r).1, (takeDigits r).2))
    else some ([], c :: r)

def takeExp : Text → Option (Text × Text)
  | [] => some ([], [])
  | c :: r =>
    if c = 0x65 ∨ c = 0x45 then
      (if (takeDigits (stripSign r).2).1 = [] then none
       else some (c :: ((stripSign r).1 ++ (takeDigits (stripSign r).2).1), (takeDigits (stripSign r).2).2))
    else some ([], c :: r)

/-- `number` followed by the unconsumed rest. -/
def takeNumber (s : Text) : Option (Text × Text) :=
  match takeInt (stripMinus s).2 with
  | none => none
  | some (i, s2) =>
    match takeFrac s2 with
    | none => none
    | some (f, s3) =>
      match takeExp s3 with
      | none => none
      | some (e, s4) => some ((stripMinus s).1 ++ i ++ f ++ e, s4)

def isNumberB (s : Text) : Bool :=
  match takeNumber s with
  | some (_, []) => true
  | _ => false

/-! ## Values -/

/-- The non-terminals of the grammar. -/
inductive Kind
  | value     -- `value`
  | member    -- `ws string ws ":" ws value ws`   (a member with its surrounding whitespace)
  | members   -- `member *( "," member )`
  | element   -- `ws value ws`
  | elements  -- `element *( "," element )`
  deriving DecidableEq, Repr

def litNull : Text := [0x6E, 0x75, 0x6C, 0x6C]
def litTrue : Text := [0x74, 0x72, 0x75, 0x65]
def litFalse : Text := [0x66, 0x61, 0x6C, 0x73, 0x65]

/-- RFC 8259: `value = false / null / true / object / array / number / string`,
`object = "{" ws [ member *( "," member ) ] "}"` with `member = ws string ws ":" ws value ws`
(the whitespace of `begin-object`, `name-separator`, `value-separator`, `end-object` is
attributed to the members), and likewise for arrays. -/
inductive J : Kind → Text → Prop
  | null : J .value litNull
  | true : J .value litTrue
  | false : J .value litFalse
  | num {s : Text} : IsNumber s → J .value s
  | str {s : Text} : IsChars s → J .value (0x22 :: (s ++ [0x22]))
  | objE {w : Text} : IsWs w → J .value (0x7B :: (w ++ [0x7D]))
  | obj {m : Text} : J .members m → J .value (0x7B :: (m ++ [0x7D]))
  | arrE {w : Text} : IsWs w → J .value (0x5B :: (w ++ [0x5D]))
  | arr {e : Text} : J .elements e → J .value (0x5B :: (e ++ [0x5D]))
  | member {a k b c v d : Text} : IsWs a → IsChars k → IsWs b → IsWs c → J .value v → IsWs d →
      J .member (a ++ (0x22 :: (k ++ (0x22 :: (b ++ (0x3A :: (c ++ (v ++ d))))))))
  | mem1 {m : Text} : J .member m → J .members m
  | memS {m r : Text} : J .member m → J .members r → J .members (m ++ (0x2C :: r))
  | element {a v b : Text} : IsWs a → J .value v → IsWs b → J .element (a ++ (v ++ b))
  | el1 {e : Text} : J .element e → J .elements e
  | elS {e r : Text} : J .element e → J .elements r → J .elements (e ++ (0x2C :: r))

/-- `JSON-text = ws value ws`. -/
def IsJson (s : Text) : Prop := J .element s

/-! ## `json_str` -/

/-- Lower-case hexadecimal digit (`{:x}`). -/
def hexDigit (n : Nat) : Nat := if n < 10 then 0x30 + n else 0x61 + (n - 10)

/-- `json_str` on one code point (repaired tree). -/
def escChar (c : Nat) : Text :=
  if c = 0x22 ∨ c = 0x5C then [0x5C, c]
  else if c < 0x20 then [0x5C, 0x75, 0x30, 0x30, hexDigit (c / 16), hexDigit (c % 16)]
  else [c]

/-- `routinator::utils::json::json_str` (repaired tree). -/
def jsonStr (s : Text) : Text := s.flatMap escChar

/-- `json_str` on one code point as on the pinned tree: only `"` and `\` are escaped. -/
def escCharOld (c : Nat) : Text := if c = 0x22 ∨ c = 0x5C then [0x5C, c] else [c]

def jsonStrOld (s : Text) : Text := s.flatMap escCharOld

/-- Every code point is a Unicode scalar value candidate (Rust `char` ≤ 0x10FFFF). -/
def Scalar (s : Text) : Prop := ∀ c ∈ s, c ≤ 0x10FFFF

def scalarB (s : Text) : Bool := s.all fun c => decide (c ≤ 0x10FFFF)

end RoutinatorModel.Json
