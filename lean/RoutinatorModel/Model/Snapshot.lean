import RoutinatorModel.Model.Validity
/-!
# Composition of the served data set (`src/payload/validation.rs`)

`ValidationReport` / `PubPointProcessor` / `PubPoint` / `RejectedResources` /
`SnapshotBuilder` transcribed: what a validation run contributes per publication point, the
unsafe-VRP filter, the SLURM filters and assertions (`src/slurm.rs`, `rpki::slurm`), and the
final `PayloadSnapshot::new`.

Modelling decisions (all exercised by the correspondence check):
* `RouteOrigin`'s `Eq`/`Hash`/`Ord` (rpki `rtr/payload.rs`) only look at the prefix, the
  *resolved* max length and the AS number. The model identifies a route origin with that triple
  (`Origin`); `Vrp.toOrigin` is applied where the code creates the hash-map key.
* Hash maps are modelled as insertion-ordered lists without duplicate keys. Their iteration
  order is irrelevant because `PayloadCollection::from_vec` sorts.
* `Ord` of the payload types is an input: `κo`/`κk` give the rank of an item in Rust's `Ord`
  (the harness computes the ranks with the real `Ord` impls); ASPAs are ordered by customer.
* `PayloadInfo` (source information) and metrics are not modelled.
-/
namespace RoutinatorModel

/-- `config::FilterPolicy`. -/
inductive FilterPolicy | reject | warn | accept
deriving DecidableEq, Repr

/-- The `ValidationReport` fields copied from the configuration. -/
structure Settings where
  enableBgpsec : Bool
  enableAspa : Bool
  limitV4 : Option Nat
  limitV6 : Option Nat
  unsafeVrps : FilterPolicy
deriving Repr

/-- A route origin up to `RouteOrigin::eq`: prefix, resolved max length, AS number. -/
structure Origin where
  pfx : Prefix
  maxLen : Nat
  asn : Nat
deriving DecidableEq, Repr, Inhabited

def Vrp.toOrigin (v : Vrp) : Origin := ⟨v.pfx, v.resolvedMaxLen, v.asn⟩

/-- `rtr::payload::RouterKey` (key identifier and key info as opaque numbers). -/
structure RouterKey where
  keyId : Nat
  asn : Nat
  info : Nat
deriving DecidableEq, Repr, Inhabited

/-- `PubRouterKey`: `asns` are the blocks of `AsBlocks` as `(min, max)`. -/
structure PubRouterKey where
  asns : List (Nat × Nat)
  keyId : Nat
  info : Nat
deriving Repr

/-- `PubAspa`: customer and provider set (`SmallAsnSet`: ascending, no duplicates). -/
structure PubAspa where
  customer : Nat
  providers : List Nat
deriving Repr

/-- `PubPoint` (payload only). -/
structure PubPoint where
  origins : List Origin
  routerKeys : List PubRouterKey
  aspas : List PubAspa
deriving Repr

/-- An address block of a certificate (`IpBlock`): smallest and largest address as 128-bit
numbers (IPv4 in the top 32 bits, lower bits all-zero in `min` and all-one in `max`), and
the prefix length if the block is of the `Prefix` variant. -/
structure IpBlock where
  min : Nat
  max : Nat
  prefixLen : Option Nat
deriving DecidableEq, Repr

/-- `IpBlock::is_slash_zero`: `matches!(*self, IpBlock::Prefix(prefix) if prefix.len == 0)`. -/
def IpBlock.isSlashZero (b : IpBlock) : Bool := b.prefixLen == some 0

/-- The address resources of a CA certificate. -/
structure CertResources where
  v4 : List IpBlock
  v6 : List IpBlock
deriving Repr

/-- What the engine found at one publication point, in processing order (the arguments of
the `process_roa` / `process_router_cert` / `process_aspa` calls). -/
structure RawPoint where
  /-- each ROA as `RouteOriginAttestation::iter_origins` lists it -/
  roas : List (List Vrp)
  routerCerts : List PubRouterKey
  aspas : List PubAspa
deriving Repr

/-! ### `PubPoint::add_roa`, `PubPointProcessor` -/

/-- The loop body of `PubPoint::add_roa`:
```
let limit = if origin.prefix.prefix().is_v4() { limit_v4_len } else { limit_v6_len };
if let Some(limit) = limit { if origin.prefix.prefix().len() > limit { continue; } }
self.origins.push(PubRouteOrigin { origin, info });
```
-/
def withinLimit (s : Settings) (v : Vrp) : Bool :=
  match (if v.pfx.v4 then s.limitV4 else s.limitV6) with
  | some limit => !(decide (v.pfx.len > limit))
  | none => true

def addRoa (s : Settings) (origins : List Origin) (roa : List Vrp) : List Origin :=
  roa.foldl (fun acc v => if withinLimit s v then acc ++ [v.toOrigin] else acc) origins

/-- `process_roa` / `process_router_cert` / `process_aspa` for all objects of a point. The
router certificate and ASPA handlers return early when the feature is disabled. -/
def processRaw (s : Settings) (r : RawPoint) : PubPoint :=
  { origins := r.roas.foldl (addRoa s) []
    routerKeys := r.routerCerts.foldl (fun acc k => if s.enableBgpsec then acc ++ [k] else acc) []
    aspas := r.aspas.foldl (fun acc a => if s.enableAspa then acc ++ [a] else acc) [] }

def PubPoint.isEmpty (p : PubPoint) : Bool :=
  p.origins.isEmpty && p.routerKeys.isEmpty && p.aspas.isEmpty

/-- `ValidationReport`: the queue of committed points and the queue of rejected blocks
(`(is_v4, block)`). -/
structure Report where
  pubPoints : List PubPoint
  rejected : List (Bool × IpBlock)
deriving Repr

/-- `PubPointProcessor::commit`: `if !self.pub_point.is_empty() { push }`. -/
def Report.commit (r : Report) (p : PubPoint) : Report :=
  if !p.isEmpty then { r with pubPoints := r.pubPoints ++ [p] } else r

/-- `RejectedResourcesBuilder::extend_from_cert` (address part). -/
def Report.cancel (r : Report) (c : CertResources) : Report :=
  { r with rejected := r.rejected
      ++ ((c.v4.filter (fun b => !b.isSlashZero)).map (fun b => (true, b)))
      ++ ((c.v6.filter (fun b => !b.isSlashZero)).map (fun b => (false, b))) }

/-- A whole validation run as far as the report is concerned: the publication points that
were accepted (committed) and the CA certificates whose points were rejected (cancelled). -/
def Report.ofRun (s : Settings) (points : List RawPoint) (rejectedCerts : List CertResources) :
    Report :=
  let r := points.foldl (fun r p => r.commit (processRaw s p)) ⟨[], []⟩
  rejectedCerts.foldl Report.cancel r

/-! ### `RejectedResources::keep_prefix` -/

/-- `Addr::to_max(len)` of the prefix' address: `self.0 | (!0 >> len)` (`self` for 128). -/
def Prefix.maxAddr (p : Prefix) : Nat := (p.bits ||| (BitVec.allOnes 128 >>> p.len)).toNat

def Prefix.minAddr (p : Prefix) : Nat := p.bits.toNat

/-- `Block::intersects`: `self.min() <= other.max() && self.max() >= other.min()`. -/
def IpBlock.intersectsPrefix (b : IpBlock) (p : Prefix) : Bool :=
  decide (b.min ≤ p.maxAddr) && decide (b.max ≥ p.minAddr)

/-- `RejectedResources::keep_prefix` over the blocks collected by the builder's `finalize`
(`IpBlocks::intersects_block` is an `any` over the blocks; merging of neighbouring blocks by
`IpBlocksBuilder::finalize` does not change the union and is not modelled). -/
def keepPrefix (rejected : List (Bool × IpBlock)) (p : Prefix) : Bool :=
  !(rejected.any (fun (v4, b) => v4 == p.v4 && b.intersectsPrefix p))

/-! ### SLURM (`rpki::slurm`, `src/slurm.rs`) -/

/-- `PrefixFilter { prefix: Option<Prefix>, asn: Option<Asn> }`. -/
structure PrefixFilter where
  pfx : Option Prefix
  asn : Option Nat
deriving Repr

/-- `PrefixFilter::drop_origin`. -/
def PrefixFilter.dropOrigin (f : PrefixFilter) (o : Origin) : Bool :=
  match f.pfx.map (fun p => p.covers o.pfx), f.asn.map (fun a => a == o.asn) with
  | some p, some a => p && a
  | some p, none => p
  | none, some a => a
  | none, none => false

/-- `BgpsecFilter { ski: Option<KeyIdentifier>, asn: Option<Asn> }`. -/
structure BgpsecFilter where
  ski : Option Nat
  asn : Option Nat
deriving Repr

/-- `BgpsecFilter::drop_router_key`. -/
def BgpsecFilter.dropRouterKey (f : BgpsecFilter) (k : RouterKey) : Bool :=
  match f.ski.map (fun s => s == k.keyId), f.asn.map (fun a => a == k.asn) with
  | some s, some a => s && a
  | some s, none => s
  | none, some a => a
  | none, none => false

/-- `LocalExceptions`. -/
structure Exceptions where
  originFilters : List PrefixFilter
  routerKeyFilters : List BgpsecFilter
  originAssertions : List Origin
  routerKeyAssertions : List RouterKey
deriving Repr

def Exceptions.dropOrigin (e : Exceptions) (o : Origin) : Bool :=
  e.originFilters.any (fun f => f.dropOrigin o)

def Exceptions.dropRouterKey (e : Exceptions) (k : RouterKey) : Bool :=
  e.routerKeyFilters.any (fun f => f.dropRouterKey k)

/-! ### `SnapshotBuilder` -/

/-- `hash_map::Entry`: insert if vacant (an occupied entry only gets more source info). -/
def insertNew {α : Type} [DecidableEq α] (m : List α) (x : α) : List α :=
  if x ∈ m then m else m ++ [x]

/-- `SmallAsnSet::union(..).collect()`: merge of two ascending sequences. -/
def asnUnion : List Nat → List Nat → List Nat
  | [], r => r
  | l, [] => l
  | a :: l, b :: r =>
    if a < b then a :: asnUnion l (b :: r)
    else if a = b then b :: asnUnion l r
    else b :: asnUnion (a :: l) r

/-- Replace the value stored for `c`. -/
def replaceKey (m : List (Nat × List Nat)) (c : Nat) (ps : List Nat) : List (Nat × List Nat) :=
  m.map (fun e => if e.1 = c then (c, ps) else e)

structure Builder where
  origins : List Origin
  routerKeys : List RouterKey
  aspas : List (Nat × List Nat)
deriving Repr

/-- `AsBlocks::iter_asns`: every ASN of every block, ascending. -/
def iterAsns (blocks : List (Nat × Nat)) : List Nat :=
  blocks.flatMap (fun (lo, hi) => (List.range (hi + 1 - lo)).map (· + lo))

/-- `SnapshotBuilder::process_origin`. -/
def Builder.processOrigin (rejected : List (Bool × IpBlock)) (policy : FilterPolicy)
    (e : Exceptions) (b : Builder) (o : Origin) : Builder :=
  if !(keepPrefix rejected o.pfx) && policy == .reject then b
  else if e.dropOrigin o then b
  else { b with origins := insertNew b.origins o }

/-- `SnapshotBuilder::process_key`. -/
def Builder.processKey (e : Exceptions) (b : Builder) (k : PubRouterKey) : Builder :=
  (iterAsns k.asns).foldl (fun b asn =>
    let rk : RouterKey := ⟨k.keyId, asn, k.info⟩
    if e.dropRouterKey rk then b
    else { b with routerKeys := insertNew b.routerKeys rk }) b

/-- `SnapshotBuilder::process_aspa`. -/
def Builder.processAspa (b : Builder) (a : PubAspa) : Builder :=
  match b.aspas.lookup a.customer with
  | none => { b with aspas := b.aspas ++ [(a.customer, a.providers)] }
  | some old => { b with aspas := replaceKey b.aspas a.customer (asnUnion old a.providers) }

/-- `SnapshotBuilder::process_pub_point`. -/
def Builder.processPubPoint (rejected : List (Bool × IpBlock)) (policy : FilterPolicy)
    (e : Exceptions) (b : Builder) (p : PubPoint) : Builder :=
  let b := p.origins.foldl (Builder.processOrigin rejected policy e) b
  let b := p.routerKeys.foldl (Builder.processKey e) b
  p.aspas.foldl Builder.processAspa b

/-- `SnapshotBuilder::insert_assertions` (there are no ASPA assertions: "XXX"). -/
def Builder.insertAssertions (e : Exceptions) (b : Builder) : Builder :=
  let b := e.originAssertions.foldl (fun b o => { b with origins := insertNew b.origins o }) b
  e.routerKeyAssertions.foldl (fun b k => { b with routerKeys := insertNew b.routerKeys k }) b

/-- `ProviderAsns::MAX_COUNT`. -/
def maxProviders : Nat := 16380

/-- Insertion sort by a rank function (`sort_unstable_by(Ord::cmp)` for distinct ranks). -/
def insertBy {α : Type} (κ : α → Nat) (x : α) : List α → List α
  | [] => [x]
  | y :: l => if κ x ≤ κ y then x :: y :: l else y :: insertBy κ x l

def sortBy {α : Type} (κ : α → Nat) (l : List α) : List α := l.foldr (insertBy κ) []

/-- `PayloadSnapshot` (payload only). -/
structure Snapshot where
  origins : List Origin
  routerKeys : List RouterKey
  aspas : List (Nat × List Nat)
deriving Repr

/-- `SnapshotBuilder::into_snapshot`: ASPAs whose provider set does not fit
(`ProviderAsns::try_from_iter` fails for more than 16380) are dropped; everything is sorted. -/
def Builder.intoSnapshot (κo : Origin → Nat) (κk : RouterKey → Nat) (b : Builder) : Snapshot :=
  { origins := sortBy κo b.origins
    routerKeys := sortBy κk b.routerKeys
    aspas := sortBy (fun e => e.1) (b.aspas.filter (fun e => decide (e.2.length ≤ maxProviders))) }

/-- `ValidationReport::into_snapshot`. -/
def Report.intoSnapshot (policy : FilterPolicy) (κo : Origin → Nat) (κk : RouterKey → Nat)
    (r : Report) (e : Exceptions) : Snapshot :=
  let b := r.pubPoints.foldl (Builder.processPubPoint r.rejected policy e) ⟨[], [], []⟩
  (b.insertAssertions e).intoSnapshot κo κk

/-- A validation run followed by `into_snapshot`. -/
def served (s : Settings) (κo : Origin → Nat) (κk : RouterKey → Nat) (points : List RawPoint)
    (rejectedCerts : List CertResources) (e : Exceptions) : Snapshot :=
  (Report.ofRun s points rejectedCerts).intoSnapshot s.unsafeVrps κo κk e

end RoutinatorModel
