/-!
# Model of the retry logic of routinator's commands (`src/operation.rs`)

Every command performs validation runs through `ValidationReport::process`. A run has one of
three outcomes: it succeeds, it fails with a retryable error (`RunFailed::retry()`) or with a
fatal error (`RunFailed::fatal()`). The commands are modelled as functions of

* an *outcome stream* `o : Nat → Outcome` — `o i` is the outcome of the `i`-th run the process
  performs (0-based), and
* a *sanitize stream* `san : Nat → Bool` — `san i` says whether the `engine.sanitize()` call made
  after the failed run `i` succeeds.

Loops are modelled with *fuel* (the number of runs the loop may still start); a result with
`exit = .running` means the fuel ran out while the loop was still going. In the correspondence
check the fuel is the watchdog limit `VERIF_RUN_LIMIT`.
-/
namespace RoutinatorModel

/-- The outcome of one validation run (`Result<_, RunFailed>`). -/
inductive Outcome
  | ok
  | retry
  | fatal
  deriving DecidableEq, Repr

/-- How a command ended: exit status 0, an error exit status, or still looping when the fuel
ran out. -/
inductive Exit
  | success
  | error
  | running
  deriving DecidableEq, Repr

/-- Result of a command: the number of validation runs started and how it ended. -/
structure CmdResult where
  runs : Nat
  exit : Exit
  deriving DecidableEq, Repr

/-! ## `validate`, `update`: a single run, `?` on the result -/

/-- `Validate::get_snapshot` / `Update::run`: `ValidationReport::process(..)?`. -/
def oneShot (o : Nat → Outcome) : CmdResult :=
  match o 0 with
  | .ok => ⟨1, .success⟩
  | _ => ⟨1, .error⟩

/-! ## `vrps`: the retry loop of `Vrps::run` -/

/-- The loop as it is on the pinned commit:

```text
let mut once = false;
loop {
    match ValidationReport::process(..) {
        Ok(res) => break res,
        Err(err) => {
            if err.should_retry() {
                if once { error!("Restarted run failed again. Aborting."); }   // only logs
                if engine.sanitize().is_ok() { once = true; continue }
            }
            return Err(ExitError::Generic)
        }
    }
}
```

`i` is the index of the next run; `once` does not influence control flow. -/
def vrpsLoopOld (o : Nat → Outcome) (san : Nat → Bool) : Nat → Nat → Bool → CmdResult
  | 0, i, _ => ⟨i, .running⟩
  | fuel + 1, i, _once =>
    match o i with
    | .ok => ⟨i + 1, .success⟩
    | .fatal => ⟨i + 1, .error⟩
    | .retry =>
      if san i then vrpsLoopOld o san fuel (i + 1) true
      else ⟨i + 1, .error⟩

/-- The repaired loop (`fixes/C32-vrps-retry.patch`): after the message the error is returned:

```text
if once { error!("Restarted run failed again. Aborting."); return Err(ExitError::Generic) }
```
-/
def vrpsLoop (o : Nat → Outcome) (san : Nat → Bool) : Nat → Nat → Bool → CmdResult
  | 0, i, _ => ⟨i, .running⟩
  | fuel + 1, i, once =>
    match o i with
    | .ok => ⟨i + 1, .success⟩
    | .fatal => ⟨i + 1, .error⟩
    | .retry =>
      if once then ⟨i + 1, .error⟩
      else if san i then vrpsLoop o san fuel (i + 1) true
      else ⟨i + 1, .error⟩

/-- `vrps` on the pinned commit. -/
def vrpsOld (o : Nat → Outcome) (san : Nat → Bool) (fuel : Nat) : CmdResult :=
  vrpsLoopOld o san fuel 0 false

/-- `vrps` with the repair. -/
def vrps (o : Nat → Outcome) (san : Nat → Bool) (fuel : Nat) : CmdResult :=
  vrpsLoop o san fuel 0 false

/-! ## `server`: the validation thread's loop in `Server::run` -/

/-- The two flags of the loop. -/
structure SrvState where
  initial : Bool
  canRetry : Bool
  deriving DecidableEq, Repr

/-- The state at thread start: `let mut initial = true; let mut can_retry = true;`. -/
def SrvState.start : SrvState := ⟨true, true⟩

/-- What the loop does after a run. -/
inductive SrvStep
  /-- Another run will follow (after a timeout). `isRetry`: the run is repeated because a
  *non-initial* run failed (`can_retry` consumed). -/
  | next (s : SrvState) (isRetry : Bool)
  /-- `break Err(Failed)`: the server shuts down. -/
  | stop
  deriving DecidableEq, Repr

/-- One iteration: the `match Self::process_once(..)` in `Server::run`. `sanOk` is the result of
`validation.sanitize()` (only consulted in the `can_retry` arm). -/
def srvStep (s : SrvState) (oc : Outcome) (sanOk : Bool) : SrvStep :=
  -- `let initial_run = initial; initial = false;`
  match oc with
  | .ok => .next ⟨false, s.canRetry⟩ false
  | .fatal => .stop
  | .retry =>
    if s.initial then
      -- "Retrying full validation run." – the normal run that follows the initial run anyway
      .next ⟨false, s.canRetry⟩ false
    else if s.canRetry then
      if sanOk then .next ⟨false, false⟩ true   -- `can_retry = false`
      else .stop
    else .stop                                   -- "Retried validation failed again."

/-- Result of the server loop. `failed` counts failed runs, `retries` counts the re-runs granted
through `can_retry`. -/
structure SrvResult where
  runs : Nat
  stopped : Bool
  retries : Nat
  failed : Nat
  deriving DecidableEq, Repr

/-- The server loop from run index `i` in state `s` with `fuel` runs left. A server whose runs
all succeed never stops, hence the fuel; signals (TAL reload, log rotation, termination) are
not modelled. -/
def srvLoop (o : Nat → Outcome) (san : Nat → Bool) : Nat → Nat → SrvState → SrvResult
  | 0, i, _ => ⟨i, false, 0, 0⟩
  | fuel + 1, i, s =>
    match srvStep s (o i) (san i) with
    | .stop => ⟨i + 1, true, 0, 1⟩
    | .next s' isRetry =>
      let r := srvLoop o san fuel (i + 1) s'
      ⟨r.runs, r.stopped, r.retries + (if isRetry then 1 else 0),
        r.failed + (if o i = .ok then 0 else 1)⟩

/-- The server from its start. -/
def server (o : Nat → Outcome) (san : Nat → Bool) (fuel : Nat) : SrvResult :=
  srvLoop o san fuel 0 .start

/-! ## Scripts (what the correspondence check feeds to both sides) -/

/-- `verif::next_run_outcome`: the script's items in order; once exhausted the last item
repeats; an empty script means every run proceeds. -/
def scriptStream (l : List Outcome) (i : Nat) : Outcome :=
  l.getD i (l.getLast?.getD .ok)

/-- Sanitize stream of the harness: with `some k` the RRDP working directory is removed when run
number `k` (1-based) starts, so the `sanitize()` after run index `i` fails iff `k ≤ i + 1`. -/
def sanStream (breakAt : Option Nat) (i : Nat) : Bool :=
  match breakAt with
  | none => true
  | some k => decide (i + 1 < k)

end RoutinatorModel
