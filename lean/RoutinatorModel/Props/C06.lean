import RoutinatorModel.Proofs.Engine
/-!
# C06 — Stale and premature manifests/CRLs follow the configured policy

* `C06_reject_used_version_fresh`: with policy `reject`, a publication point is accepted
  (payload committed, children scheduled) only if the version it uses — which is the one the
  store holds afterwards — has a manifest and a CRL whose nextUpdate is not in the past; this
  holds on the fetch path and on the stored-data path, for every processing order, for the
  repaired and the unrepaired fallback.
* `C06_not_accepted_contributes_nothing`, `C06_rejected_ca_subtree_empty`: a point that is
  not accepted contributes no payload and no children, so the whole subtree below the CA
  contributes nothing.
* `C06_warn_eq_accept_*`, `C06_no_reject_ignores_nextUpdate_*`: with `warn` or `accept`
  validation is the same function as one that never looks at nextUpdate (`…NS`, the model with
  the staleness tests deleted).
* `C06_premature_never_accepted`, `C06_premature_uses_stored`: a fetched manifest whose
  thisUpdate is later than now is never accepted, whatever the policy; the point then behaves
  exactly as the stored version dictates.
-/
namespace RoutinatorModel
open Engine

/-! ## reject -/

theorem Engine.crlAccepted_fresh {cfg : Cfg} {now : Int} {ee : CertAttr} {c : Content}
    {revoked : List Nat} (hpol : cfg.stale = .reject)
    (h : crlAccepted cfg now ee c = some revoked) :
    ∃ nu, c = .crl true nu revoked ∧ ¬ nu < now := by
  unfold crlAccepted at h
  split at h
  · rename_i sigOk nu rev
    split at h
    · cases h
    · rename_i hs
      split at h
      · cases h
      · rename_i hst
        split at h
        · cases h
        · cases h
          refine ⟨nu, ?_, ?_⟩
          · cases sigOk <;> simp_all
          · simpa [isStale, hpol] using hst
  · cases h

theorem Engine.validateStored_fresh {cfg : Cfg} {now : Int} {s : Stored} {vm : ValidMft}
    (hpol : cfg.stale = .reject) (h : validateStored cfg now s = some vm) :
    s.mft.parsed = some vm.mft ∧ ¬ vm.mft.nextUpdate < now
      ∧ ∃ nu, s.crl = .crl true nu vm.revoked ∧ ¬ nu < now := by
  unfold validateStored at h
  cases hm : s.mft.parsed with
  | none => simp [hm] at h
  | some m =>
    simp only [hm] at h
    split at h
    · cases h
    · split at h
      · cases h
      · rename_i hst
        split at h
        · cases h
        · split at h
          · cases h
          · rename_i revoked hcrl
            cases h
            refine ⟨rfl, by simpa [isStale, hpol] using hst, crlAccepted_fresh hpol hcrl⟩

theorem Engine.validateCollected_fresh {cfg : Cfg} {now : Int} {f : Fetched} {mf : MftFile}
    {vm : ValidMft} {crl : Content} (hpol : cfg.stale = .reject)
    (h : validateCollected cfg now f mf = some (vm, crl)) :
    ¬ vm.mft.nextUpdate < now ∧ ∃ nu, crl = .crl true nu vm.revoked ∧ ¬ nu < now := by
  unfold validateCollected at h
  cases hm : mf.parsed with
  | none => simp [hm] at h
  | some m =>
    simp only [hm] at h
    split at h
    · cases h
    · split at h
      · cases h
      · split at h
        · cases h
        · rename_i hst
          split at h
          · split at h
            · cases h
            · split at h
              · cases h
              · split at h
                · cases h
                · split at h
                  · cases h
                  · rename_i revoked hcrl
                    cases h
                    exact ⟨by simpa [isStale, hpol] using hst, crlAccepted_fresh hpol hcrl⟩
          · cases h

/-- `processStored` accepts only via `validateStored`. -/
theorem Engine.processStored_accepted {cfg : Cfg} {now : Int} {ca : CaCtx} {st : Option Stored}
    {acc : List Item} (h : (processStored cfg now ca st acc).accepted = true) :
    ∃ s vm, st = some s ∧ validateStored cfg now s = some vm
      ∧ (processStored cfg now ca st acc).stored = some s := by
  unfold processStored at h ⊢
  cases st with
  | none => simp at h
  | some s =>
    cases hv : validateStored cfg now s with
    | none => simp [hv] at h
    | some vm => exact ⟨s, vm, rfl, hv, by simp [hv]⟩

/-- **C06, reject.** With policy `reject` an accepted publication point uses a version — the
one in the store afterwards — whose manifest and CRL are not past their nextUpdate. -/
theorem C06_reject_used_version_fresh (fix : Bool) (cfg : Cfg) (now : Int) (coll : Option Offer)
    (st : Option Stored) (ca : CaCtx) (reorder : List Entry → List Entry)
    (hpol : cfg.stale = .reject)
    (hacc : (processPointWith fix cfg now coll st ca reorder).accepted = true) :
    ∃ s m nu revoked, (processPointWith fix cfg now coll st ca reorder).stored = some s
      ∧ s.mft.parsed = some m ∧ ¬ m.nextUpdate < now
      ∧ s.crl = .crl true nu revoked ∧ ¬ nu < now := by
  have stored_case : ∀ (st' : Option Stored) (acc : List Item),
      (processStored cfg now ca st' acc).accepted = true →
      ∃ s m nu revoked, (processStored cfg now ca st' acc).stored = some s
        ∧ s.mft.parsed = some m ∧ ¬ m.nextUpdate < now
        ∧ s.crl = .crl true nu revoked ∧ ¬ nu < now := by
    intro st' acc h
    obtain ⟨s, vm, _, hv, hs⟩ := processStored_accepted h
    obtain ⟨hp, hn, nu, hc, hnu⟩ := validateStored_fresh hpol hv
    exact ⟨s, vm.mft, nu, vm.revoked, hs, hp, hn, hc, hnu⟩
  unfold processPointWith at hacc ⊢
  cases coll with
  | none => exact stored_case _ _ hacc
  | some offer =>
    simp only at hacc ⊢
    cases hc : processCollectedWith cfg now ca (offer.get ca.info.mft) st reorder with
    | fallback acc st' =>
      rw [hc] at hacc
      exact stored_case _ _ hacc
    | done r =>
      -- the fetched version was validated by `validateCollected`
      unfold processCollectedWith at hc
      split at hc
      · cases hc
      · rename_i mf hmf
        split at hc
        · cases hc
        · split at hc
          · cases hc
          · rename_i vm crl hv
            split at hc
            · cases hc
            · split at hc
              · cases hc
                obtain ⟨hn, nu, hcrl, hnu⟩ := validateCollected_fresh hpol hv
                exact ⟨_, vm.mft, nu, vm.revoked, rfl, validateCollected_mft hv, hn, hcrl, hnu⟩
              · cases hc

/-- A point that is not accepted contributes neither payload nor children (repaired code). -/
theorem C06_not_accepted_contributes_nothing (cfg : Cfg) (now : Int) (coll : Option Offer)
    (st : Option Stored) (ca : CaCtx) (reorder : List Entry → List Entry)
    (h : (processPointWith true cfg now coll st ca reorder).accepted = false) :
    (processPointWith true cfg now coll st ca reorder).items = []
      ∧ (processPointWith true cfg now coll st ca reorder).kids = [] := by
  have stored_case : ∀ (st' : Option Stored),
      (processStored cfg now ca st' []).accepted = false →
      (processStored cfg now ca st' []).items = [] ∧ (processStored cfg now ca st' []).kids = [] := by
    intro st' h
    unfold processStored at h ⊢
    cases st' with
    | none => simp
    | some s =>
      cases hv : validateStored cfg now s with
      | none => simp [hv]
      | some vm => simp [hv] at h
  unfold processPointWith at h ⊢
  cases coll with
  | none => exact stored_case _ h
  | some offer =>
    simp only at h ⊢
    cases hc : processCollectedWith cfg now ca (offer.get ca.info.mft) st reorder with
    | fallback acc st' =>
      rw [hc] at h
      exact stored_case _ h
    | done r =>
      rw [hc] at h
      simp only at h
      unfold processCollectedWith at hc
      (repeat' split at hc) <;> cases hc <;> simp_all

/-- The whole subtree of a CA whose publication point is not accepted contributes nothing,
and nothing below it is visited (the store changes at most at the CA's own point). -/
theorem C06_rejected_ca_subtree_empty (cfg : Cfg) (now : Int) (coll : Option Offer) (fuel : Nat)
    (store : Store) (ca : CaCtx)
    (h : (processPoint true cfg now coll (store.point ca.info.mft) ca).accepted = false) :
    processCa true cfg now coll (fuel + 1) store ca
      = ([], store.setPoint ca.info.mft
              (processPoint true cfg now coll (store.point ca.info.mft) ca).stored) := by
  have hn := C06_not_accepted_contributes_nothing cfg now coll (store.point ca.info.mft) ca _ h
  unfold processPoint at h
  simp only [processCa, processPoint, hn.1, hn.2, List.foldl_nil]

/-! ## warn / accept -/

/-- `crlAccepted` without the staleness test. -/
def Engine.crlAcceptedNS (ee : CertAttr) : Content → Option (List Nat)
  | .crl sigOk _ revoked =>
    if !sigOk then none
    else if revoked.contains ee.serial then none
    else some revoked
  | _ => none

/-- `validateCollected` without the two staleness tests. -/
def Engine.validateCollectedNS (now : Int) (f : Fetched) (mf : MftFile) :
    Option (ValidMft × Content) :=
  match mf.parsed with
  | none => none
  | some m =>
    if !m.ee.valid now then none
    else if decide (m.thisUpdate > now) then none
    else match m.ee.crlUri, m.crlName with
      | some crlUri, some crlName =>
        let listed := m.entries.filter (fun e => e.name == crlName)
        if listed.isEmpty then none
        else match lookup crlName f.files with
          | none => none
          | some file =>
            if !listed.all (fun e => e.hash == file.hash) then none
            else match crlAcceptedNS m.ee file.content with
              | none => none
              | some revoked => some (⟨m, crlUri, revoked⟩, file.content)
      | _, _ => none

/-- `validateStored` without the two staleness tests. -/
def Engine.validateStoredNS (now : Int) (s : Stored) : Option ValidMft :=
  match s.mft.parsed with
  | none => none
  | some m =>
    if !m.ee.valid now then none
    else match m.ee.crlUri with
      | none => none
      | some crlUri =>
        match crlAcceptedNS m.ee s.crl with
        | none => none
        | some revoked => some ⟨m, crlUri, revoked⟩

theorem Engine.crlAccepted_no_reject {cfg : Cfg} (now : Int) (ee : CertAttr) (c : Content)
    (hpol : cfg.stale ≠ .reject) : crlAccepted cfg now ee c = crlAcceptedNS ee c := by
  have : (cfg.stale == Policy.reject) = false := by simpa using hpol
  unfold crlAccepted crlAcceptedNS
  cases c <;> simp [this]

/-- **C06, warn/accept (fetch path).** nextUpdate of manifest and CRL is never consulted. -/
theorem C06_no_reject_ignores_nextUpdate_collected (cfg : Cfg) (now : Int) (f : Fetched)
    (mf : MftFile) (hpol : cfg.stale ≠ .reject) :
    validateCollected cfg now f mf = validateCollectedNS now f mf := by
  have hp : (cfg.stale == Policy.reject) = false := by simpa using hpol
  unfold validateCollected validateCollectedNS
  simp only [hp, Bool.and_false, Bool.false_eq_true, ↓reduceIte, crlAccepted_no_reject _ _ _ hpol]
  rfl

/-- **C06, warn/accept (stored path).** -/
theorem C06_no_reject_ignores_nextUpdate_stored (cfg : Cfg) (now : Int) (s : Stored)
    (hpol : cfg.stale ≠ .reject) :
    validateStored cfg now s = validateStoredNS now s := by
  have hp : (cfg.stale == Policy.reject) = false := by simpa using hpol
  unfold validateStored validateStoredNS
  simp only [hp, Bool.and_false, Bool.false_eq_true, ↓reduceIte, crlAccepted_no_reject _ _ _ hpol]
  rfl

/-- `warn` and `accept` validate identically. -/
theorem C06_warn_eq_accept (now : Int) (f : Fetched) (mf : MftFile) (s : Stored)
    (maxDepth : Nat) (aspa bgpsec : Bool) :
    validateCollected ⟨.warn, maxDepth, aspa, bgpsec⟩ now f mf
        = validateCollected ⟨.accept, maxDepth, aspa, bgpsec⟩ now f mf
    ∧ validateStored ⟨.warn, maxDepth, aspa, bgpsec⟩ now s
        = validateStored ⟨.accept, maxDepth, aspa, bgpsec⟩ now s := by
  constructor
  · rw [C06_no_reject_ignores_nextUpdate_collected _ _ _ _ (by simp),
        C06_no_reject_ignores_nextUpdate_collected _ _ _ _ (by simp)]
  · rw [C06_no_reject_ignores_nextUpdate_stored _ _ _ (by simp),
        C06_no_reject_ignores_nextUpdate_stored _ _ _ (by simp)]

/-! ## premature -/

/-- **C06, premature.** Whatever the policy, a fetched manifest with thisUpdate later than now
does not validate. -/
theorem C06_premature_never_accepted (cfg : Cfg) (now : Int) (f : Fetched) (id : Hash) (m : Mft)
    (h : m.thisUpdate > now) : validateCollected cfg now f ⟨id, some m⟩ = none := by
  unfold validateCollected
  simp only
  split
  · rfl
  · simp [h]

/-- …and the publication point then behaves exactly as the stored version dictates; the store
entry is not replaced. -/
theorem C06_premature_uses_stored (cfg : Cfg) (now : Int) (offer : Offer) (st : Option Stored)
    (ca : CaCtx) (reorder : List Entry → List Entry) {id : Hash} {m : Mft}
    (hmf : (offer.get ca.info.mft).mft = some ⟨id, some m⟩) (h : m.thisUpdate > now) :
    processPointWith true cfg now (some offer) st ca reorder = processStored cfg now ca st [] := by
  have hc : processCollectedWith cfg now ca (offer.get ca.info.mft) st reorder
      = .fallback [] st := by
    unfold processCollectedWith
    simp only [hmf, C06_premature_never_accepted cfg now _ id m h]
    split <;> rfl
  simp [processPointWith, hc]

/-! ## Non-vacuity -/

namespace C06Example
def ee : CertAttr := ⟨true, 1, 0, 1000, some 7⟩
def cfgR : Cfg := ⟨.reject, 32, false, false⟩
def cfgW : Cfg := ⟨.warn, 32, false, false⟩
def roa : File := ⟨51, .roa ⟨true, 10, 0, 1000, some 7⟩ [64496]⟩
/-- manifest nextUpdate 90, CRL nextUpdate 500 -/
def staleMft : MftFile :=
  ⟨1, some ⟨ee, some 0, 1, 10, 90, [⟨0, .crl, 50, true⟩, ⟨1, .roa, 51, true⟩]⟩⟩
def offer : Offer := [(8, ⟨some staleMft, [(0, ⟨50, .crl true 500 []⟩), (1, roa)], []⟩)]
def ca : CaCtx := CaCtx.root ⟨0, 9, 8⟩
end C06Example

open C06Example in
/-- At `now = 100` the manifest is stale: rejected under `reject`, processed under `warn`;
at `now = 90` (nextUpdate = now) it is not stale. -/
example :
    (processPoint true cfgR 100 (some offer) none ca).accepted = false
    ∧ (processPoint true cfgR 100 (some offer) none ca).items = []
    ∧ (processPoint true cfgW 100 (some offer) none ca).items = [64496]
    ∧ (processPoint true cfgR 90 (some offer) none ca).items = [64496]
    -- premature at now = 9 (thisUpdate = 10), accepted at now = 10
    ∧ (processPoint true cfgW 9 (some offer) none ca).accepted = false
    ∧ (processPoint true cfgW 10 (some offer) none ca).accepted = true := by
  decide

end RoutinatorModel
