import RoutinatorModel.Proofs.ArchiveOps
/-!
# C26 — The object archive behaves like a map and stays consistent

Model: `Model/Archive.lean` (layout-level transcription of `src/utils/archive.rs`: block
list with explicit positions, hash-bucket chains, empties chain, page rounding, `fits`,
smallest-fit, publish with remainder / append, in-place update, delete with forward
coalescing and tail truncation, `AppendArchive`).  `Inv` (`Proofs/ArchiveInv.lean`) is the
layout invariant.  All statements are for arbitrary hash functions `c.hash`, meta sizes,
names, data, check closures and operation sequences of any length.
-/
namespace RoutinatorModel
open Archive

/-- A freshly created archive is consistent. -/
theorem C26_init_inv (c : Cfg) : Inv c init := inv_init c

/-- Every public operation keeps the layout invariant. -/
theorem C26_step_inv {c : Cfg} {f : File} (h : Inv c f) (op : Op) : Inv c (step c f op).1 :=
  (step_spec h op).1

/-- Every public operation does to the stored objects exactly what the same operation does
to a map from names to (meta, data), and answers what the map answers (`alreadyExists`,
`notFound`, `inconsistent` for a refused meta-data check, the data). -/
theorem C26_step_refines {c : Cfg} {f : File} (h : Inv c f) (op : Op) :
    (abs (step c f op).1, (step c f op).2) = mapStep (abs f) op := by
  obtain ⟨_, h2, h3⟩ := step_spec h op
  rw [h2, h3]

/-- On a consistent file no operation runs into a dangling position (the model's
`Out.corrupt`; `ArchiveError::Corrupt` / out-of-bounds reads in the real code). -/
theorem C26_step_not_corrupt {c : Cfg} {f : File} (h : Inv c f) (op : Op) :
    (step c f op).2 ≠ .corrupt := by
  rw [(step_spec h op).2.2]
  exact mapStep_not_corrupt _ _

/-- Dropping the archive and opening the file again changes nothing (all state is in the
file). -/
theorem C26_reopen_identity (c : Cfg) (f : File) : step c f .reopen = (f, .ok) := rfl

/-- All operation sequences from a consistent file: invariant, final contents and every
single answer are those of the map. -/
theorem C26_run_inv {c : Cfg} {f : File} (h : Inv c f) (ops : List Op) : Inv c (run c f ops).1 :=
  (run_spec h ops).1

theorem C26_run_refines {c : Cfg} {f : File} (h : Inv c f) (ops : List Op) :
    (abs (run c f ops).1, (run c f ops).2) = mapRun (abs f) ops := by
  obtain ⟨_, h2, h3⟩ := run_spec h ops
  rw [h2, h3]

/-- … in particular from a freshly created archive, which is the empty map. -/
theorem C26_history_refines (c : Cfg) (ops : List Op) :
    Inv c (run c init ops).1 ∧
    (abs (run c init ops).1, (run c init ops).2) = mapRun (fun _ => none) ops := by
  refine ⟨C26_run_inv (inv_init c) ops, ?_⟩
  rw [C26_run_refines (inv_init c) ops, abs_init]

/-- The same for an archive written through `AppendArchive` (publish* then `finalize`) and
then opened and used as an `Archive`. -/
theorem C26_append_history_refines (c : Cfg) (aops : List (Bytes × Bytes × Bytes)) (ops : List Op) :
    let pubs : List Op := aops.map fun o => .publish o.1 o.2.1 o.2.2
    let f1 := (appendRun c init aops).1
    Inv c f1 ∧ (appendRun c init aops).2 = (mapRun (fun _ => none) pubs).2 ∧
    Inv c (run c f1 ops).1 ∧
    (abs (run c f1 ops).1, (run c f1 ops).2) = mapRun (mapRun (fun _ => none) pubs).1 ops := by
  intro pubs f1
  obtain ⟨h1, h2, h3⟩ := appendRun_spec (inv_init c) aops
  rw [abs_init] at h2 h3
  refine ⟨h1, h3, C26_run_inv h1 ops, ?_⟩
  rw [C26_run_refines h1 ops, h2]

/-! ### What the invariant says about the layout -/

/-- Blocks of a consistent file do not overlap … -/
theorem C26_no_overlap {c : Cfg} {f : File} (h : Inv c f) {x y : Block}
    (hx : x ∈ f.blocks) (hy : y ∈ f.blocks) :
    x = y ∨ x.pos + x.size ≤ y.pos ∨ y.pos + y.size ≤ x.pos :=
  tiles_order h.tiles hx hy

/-- … and cover the file: every position between the end of the index and the end of the
file lies in a block (exactly one, by `C26_no_overlap`); every block lies inside the file and
has a positive size that is a multiple of the page size. -/
theorem C26_cover {c : Cfg} {f : File} (h : Inv c f) {q : Nat} (h1 : idxEnd ≤ q) (h2 : q < f.size) :
    ∃ b ∈ f.blocks, b.pos ≤ q ∧ q < b.pos + b.size :=
  tiles_cover h.tiles h1 h2

theorem C26_block_bounds {c : Cfg} {f : File} (h : Inv c f) {b : Block} (hb : b ∈ f.blocks) :
    idxEnd ≤ b.pos ∧ b.pos + b.size ≤ f.size ∧ 0 < b.size ∧ 256 ∣ b.size :=
  tiles_bounds h.tiles hb

/-- The index is exact: the chain of bucket `k` lists, without repetition, the positions of
the objects whose name hashes to `k`; the empties chain lists, without repetition, the
positions of the empty blocks; names are unique; an object block is as large as its paged
content. -/
theorem C26_index_exact {c : Cfg} {f : File} (h : Inv c f) :
    (∀ k, (getB f.buckets k).Nodup) ∧
    (∀ k p, p ∈ getB f.buckets k ↔ ∃ s n m d, ⟨p, s, .obj n m d⟩ ∈ f.blocks ∧ c.hash n = k) ∧
    f.empties.Nodup ∧
    (∀ p, p ∈ f.empties ↔ ∃ s, ⟨p, s, .empty⟩ ∈ f.blocks) ∧
    (∀ p s n m d, ⟨p, s, .obj n m d⟩ ∈ f.blocks → s = paged c n d) :=
  ⟨h.bucketNodup, h.bucketMem, h.emptiesNodup, h.emptiesMem, h.sized⟩

/-- `verify()` succeeds on every consistent file, hence after every history (the converse
direction — a file on which `verify()` fails is not reachable — is the contrapositive). -/
theorem C26_verify_ok {c : Cfg} {f : File} (h : Inv c f) (hh : ∀ n, c.hash n < c.nb) :
    verify c f = true := verify_of_inv h hh

theorem C26_history_verify_ok (c : Cfg) (hh : ∀ n, c.hash n < c.nb) (ops : List Op) :
    verify c (run c init ops).1 = true :=
  verify_of_inv (C26_run_inv (inv_init c) ops) hh

/-- `objects()` lists exactly the entries of the map, every name once. -/
theorem C26_objects_exact {c : Cfg} {f : File} (h : Inv c f) (hh : ∀ n, c.hash n < c.nb) :
    ∃ l, objects c f = some l ∧ (∀ n m d, (n, m, d) ∈ l ↔ abs f n = some (m, d)) ∧
      (l.map (·.1)).Nodup := objects_spec h hh

/-- Free-space reuse: on a consistent file `find_empty` answers `None` only if no empty block
fits, and otherwise picks a fitting empty block of minimal size (so `publish` appends only
when nothing fits). -/
theorem C26_reuse_smallest_fit {c : Cfg} {f : File} (h : Inv c f) (size : Nat) :
    (findEmpty f size = some none ∧ ∀ p s, (⟨p, s, .empty⟩ : Block) ∈ f.blocks → fits s size = false) ∨
    ∃ es p, findEmpty f size = some (some (es, p)) ∧
      (⟨p, es, .empty⟩ : Block) ∈ f.blocks ∧ fits es size = true ∧
      ∀ p' s', (⟨p', s', .empty⟩ : Block) ∈ f.blocks → fits s' size = true → es ≤ s' :=
  findEmpty_best h size

/-- Because all block sizes are multiples of the page size, `fits` only ever decides
`object ≤ empty`: the header-size slack in its second clause is immaterial (so e.g. replacing
its `>=` by `>` does not change the behaviour of the archive — DESIGN.md's first C26 mutation
is an equivalent mutant, see notes/C26.md). -/
theorem C26_fits_iff_le {e o : Nat} (he : 256 ∣ e) (ho : 256 ∣ o) :
    fits e o = true ↔ o ≤ e := by
  unfold fits hdr
  simp only [Bool.or_eq_true, beq_iff_eq, decide_eq_true_eq]
  omega

/-! ### Non-vacuity: a concrete history with reuse, coalescing and truncation -/

/-- hash by name length, 4 bytes of meta data -/
def c26ExampleCfg : Cfg := { hash := fun n => n.length, msz := 4 }

example :
    (run c26ExampleCfg init
      [.publish [1] [0] [7], .publish [2] [0] (List.replicate 300 0), .publish [3] [0] [9],
       .publish [1] [0] [8],
       .delete [2] (fun _ => true), .publish [4] [0] [5], .update [4] [1] [6] (fun m => m == [9]),
       .update [4] [1] [6] (fun _ => true), .delete [4] (fun _ => true),
       .delete [3] (fun _ => true), .fetch [1], .fetch [3]]).2
    = [.ok, .ok, .ok, .alreadyExists, .ok, .ok, .inconsistent, .ok, .ok, .ok, .data [7], .notFound] := by
  decide +kernel

example :
    (run c26ExampleCfg init
      [.publish [1] [0] [7], .publish [2] [0] (List.replicate 300 0), .publish [3] [0] [9],
       .delete [2] (fun _ => true), .publish [4] [0] [5]]).1.blocks
    = [⟨8230, 256, .obj [1] [0] [7]⟩, ⟨8486, 256, .obj [4] [0] [5]⟩, ⟨8742, 256, .empty⟩,
       ⟨8998, 256, .obj [3] [0] [9]⟩] := by
  decide +kernel

end RoutinatorModel
