import RoutinatorModel.Proofs.JsonBuilder
import RoutinatorModel.Proofs.PromNeg
import RoutinatorModel.Generated.Templates
/-!
# C22 — Status and metrics documents are always well-formed

* `/api/v1/status` is written with `JsonBuilder`; every key and every value goes through
  `json_str`. For every tree of builder calls that respects the builder's contract
  (`wtB`: member calls in object scopes, array calls in array scopes, raw values are JSON
  literals) and **arbitrary strings**, the document is a JSON text (`C22_builder_json`).
* `/metrics` is written with `Metric::header/single` and `LabelValue`; for arbitrary label
  values the document is a Prometheus text exposition (`C22_exposition`).
* Both statements are false for the escaping of the pinned tree (`C22_old_*`).
* The literals and the escaping rules the proofs are about are the ones in the source
  (`C22_templates_current`, regenerated from `/repo` on every run).
-/
namespace RoutinatorModel
open Json Prom

/-- `json_str` (repaired) turns any sequence of Unicode scalar values into valid JSON string
content: what is between the quotation marks of a string. -/
theorem C22_json_str_chars {s : Text} (hs : Scalar s) : IsChars (jsonStr s) :=
  isChars_jsonStr hs

/-- Any well-typed tree of `JsonBuilder` calls with arbitrary keys and string values yields
a JSON text. -/
theorem C22_builder_json {body : Calls} (h : wtB .obj body = true) : IsJson (build body) :=
  IsJson.of_value (build_value h)

/-- The same for texts given as Lean strings (no side condition on the characters at all:
a `Char` is a Unicode scalar value). -/
theorem C22_json_str_chars_string (s : String) :
    IsChars (jsonStr (s.toList.map Char.toNat)) := by
  apply isChars_jsonStr
  intro c hc
  obtain ⟨ch, _, rfl⟩ := List.mem_map.mp hc
  have := ch.valid
  rcases this with h | ⟨_, h⟩
  · show ch.val.toNat ≤ 0x10FFFF
    have : ch.val.toNat < 0xD800 := h
    omega
  · show ch.val.toNat ≤ 0x10FFFF
    have : ch.val.toNat < 0x110000 := h
    omega

/-- Escaped label values are valid label content, whatever the value. -/
theorem C22_label_chars (v : Text) : IsLabelChars (escLabel v) := isLabelChars_escLabel v

/-- Every sequence of Prometheus writer calls whose static parts (metric names, help texts,
types, label names, sample values) are well-formed yields a text exposition, for arbitrary
label values. -/
theorem C22_exposition {es : List Entry} (h : ∀ e ∈ es, entryOkB e = true) :
    IsExposition (Prom.render es) := isExposition_render h

/-! ## The pinned tree violates both statements -/

/-- Pinned tree: `json_str` leaves a TAB as it is, which is not string content. -/
theorem C22_old_json_str_invalid : ¬ IsChars (jsonStrOld [0x09]) := by
  intro h
  have h' : IsChars [0x09] := h
  cases h' with
  | plain hc _ => exact absurd hc (by decide)

/-- The status document of the pinned tree for a log message containing ESC (0x1B), a
well-typed call tree, is not a JSON text. -/
def oldWitness : Calls :=
  .memberArray (cp!"issues") (.arrayObject (.memberStr (cp!"messages") [0x1B] .done) .done) .done

theorem C22_old_status_invalid : wtB .obj oldWitness = true ∧ ¬ IsJson (buildOld oldWitness) := by
  refine ⟨by decide, ?_⟩
  apply not_isJson_of_control (c := 0x1B) (by decide) (by decide) (by decide)

/-- Pinned tree: a `"` in a label value is written verbatim, which is not label content. -/
theorem C22_old_label_invalid : ¬ IsLabelChars (id [0x22]) := by
  intro h
  have h' : IsLabelChars [0x22] := h
  cases h' with
  | plain h1 _ _ _ => exact absurd rfl h1

/-- A TAL named `"` LF: the entry is well-formed, the repaired writer's line is accepted by
the exposition recogniser, the pinned tree's is not. -/
def oldPromWitness : Entry :=
  .multi (cp!"_ta") (cp!"valid_vrps_total") [(cp!"name", [0x22, 0x0A])] (cp!"1")

example : entryOkB oldPromWitness = true ∧ isExpositionB (renderEntry oldPromWitness) = true ∧
    isExpositionB (renderEntryOld oldPromWitness) = false := by decide

/-- The `/metrics` line the pinned tree writes for that TAL is not an exposition: its first
line `routinator_ta_valid_vrps_total{name=""` neither is a comment nor ends with a value. -/
theorem C22_old_metrics_invalid : entryOkB oldPromWitness = true ∧
    ¬ IsExposition (renderEntryOld oldPromWitness) := by
  refine ⟨by decide, ?_⟩
  have h : renderEntryOld oldPromWitness =
      (cp!"routinator_ta_valid_vrps_total{name=\"\"") ++ (0x0A :: cp!"\"} 1\n") := by decide
  rw [h]
  exact not_exposition_of_first_line (noLf_lit (by decide)) (by decide) (by decide)

/-! ## The source is what the model says it is -/

/-- The literals of `JsonBuilder`, the escaping rules of `json_str` and `label_str` and the
format strings of the Prometheus writer, extracted from `/repo` on every run, are the ones
the model uses; every static metric name, help text and label name in
`src/http/metrics.rs` is well-formed. -/
theorem C22_templates_current :
    Generated.jsonBuilderSkeleton = Json.builderSkeleton ∧
    Generated.jsonStrFind = Json.jsonStrFind ∧
    Generated.jsonStrEscape = Json.jsonStrEscape ∧
    Generated.promTemplates = Prom.promTemplates ∧
    Generated.labelStrRules = Prom.labelStrRules ∧
    Generated.promStatic.all Prom.staticOkB = true ∧
    Generated.statusRawArgs.all Json.rawArgOkB = true := by
  decide

/-! ## Non-vacuity -/

example : wtB .obj (.memberStr (cp!"a\"b") (cp!"x\\y\n") (.memberRaw (cp!"n") (cp!"-1.500")
    (.memberArray (cp!"l") (.arrayStr [0, 31, 0x10FFFF] (.arrayRaw (cp!"null") .done)) .done))) = true := by
  decide

example : recognise (build (.memberStr (cp!"a\"b") (cp!"x\\y\n") (.memberObject [9] .done .done))) = true := by
  decide

example : jsonStr (cp!"a\"b\\c\td") = cp!"a\\\"b\\\\c\\u0009d" := by decide

example : escLabel (cp!"a\"b\\c\nd") = cp!"a\\\"b\\\\c\\nd" := by decide

end RoutinatorModel
