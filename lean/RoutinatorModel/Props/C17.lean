import RoutinatorModel.Proofs.Notify
/-!
# C17 — Notify long-poll never waits for a change that already happened

Statement (properties.jsonl): a `/json-delta/notify` request with a `(session, serial)` returns
without waiting for a further update whenever the served version differs from the presented one
at any moment after the request arrives; it blocks only while the presented version is current.

System: `Notify.sys p active serial` (Model/Notify.lean) — all interleavings (`Reach`, no bound on
the number of steps or update runs) of the handler's atomic steps with the updater's, for every
initial history and every presented version. The theorems are about the **repaired** order
(`subscribeFirst`: subscribe to the broadcast channel, then check the version; the repair is
fixes/C17-subscribe-first.patch); `C17_check_first_misses_notification` shows that the order found
in the pinned tree (`checkFirst`) violates them.

Safety form of the liveness claim: whenever the handler waits (or is about to) and the served
version is not the presented one, a notification is already pending for its receiver, or the update
in progress has installed its data and still owes its `notify()` — so the handler is released by
steps that do not involve any further update (`C17_returns_without_further_update`: at most three
steps, none of which installs data).
-/
namespace RoutinatorModel
open Notify

/-- The wait decision compares *versions*: the handler decides to wait iff the presented
(session, serial) is the served one — never because the change set from the presented serial
happens to be empty (a net-zero sequence of changes A → B → A leaves the data equal and the
version different; such a request must be answered at once). -/
theorem C17_wait_decision_compares_versions (p : Params) (s : State) :
    needWait p s = true ↔ p.presented = some (p.session, s.serial) :=
  needWait_iff p s

/-- **Main invariant, literal form.** In every reachable state of the repaired system: if the
handler waits and the served version was not the presented one *at some moment since the request
arrived* (`differed`, ghost), a notification is pending for it (`sends > subAt`) or owed by the
update in progress (data installed, `notify()` not yet executed, `must_notify = true`). -/
theorem C17_waiting_implies_notification (p : Params)
    (hp : p.order = .subscribeFirst) (active : Bool) (serial : Nat) (s : State)
    (hr : Reach (sys p active serial) s) (hw : waiting s) (hd : s.differed = true) :
    s.sends > s.subAt ∨ owed s :=
  differed_waiting p hp active serial s hr hw hd

/-- The special case "the served version is not the presented one right now". -/
theorem C17_waiting_implies_current_or_notification (p : Params)
    (hp : p.order = .subscribeFirst) (active : Bool) (serial : Nat) (s : State)
    (hr : Reach (sys p active serial) s) (hw : waiting s) (hc : ¬ current p s) :
    s.sends > s.subAt ∨ owed s := by
  apply C17_waiting_implies_notification p hp active serial s hr hw
  apply observed_now p active serial s hr _ hc
  rcases hw with hb | ⟨hck, _⟩ <;> simp [*]

/-- "It blocks only while the presented version is current": a handler blocked in `recv` with no
notification pending and none owed has presented the served version, and the served version has
been the presented one at every moment since the request arrived. -/
theorem C17_blocks_only_while_current (p : Params)
    (hp : p.order = .subscribeFirst) (active : Bool) (serial : Nat) (s : State)
    (hr : Reach (sys p active serial) s) (hb : s.hpc = .blocked)
    (hn : ¬ s.sends > s.subAt) (ho : ¬ owed s) : s.differed = false ∧ current p s := by
  have hd : s.differed = false := by
    cases h : s.differed with
    | false => rfl
    | true =>
      rcases C17_waiting_implies_notification p hp active serial s hr (Or.inl hb) h with h | h
      · exact absurd h hn
      · exact absurd h ho
  refine ⟨hd, ?_⟩
  apply Classical.byContradiction
  intro hc
  have := observed_now p active serial s hr (by simp [hb]) hc
  simp [hd] at this

private theorem step_of_core (p : Params) (s t : State) (l : Label)
    (h : stepCore p s l = some t) (hd : t.differed = true) : step p s l = some t := by
  have : observe p t = t := by
    cases t; simp only [observe] at *; simp [hd]
  simp [step, h, this]

private theorem run_cons (p : Params) (a : Bool) (n : Nat) (s t : State) (l : Label)
    (ls : List Label) (h : step p s l = some t) :
    (sys p a n).run s (l :: ls) = (sys p a n).run t ls := by
  have h' : (sys p a n).step s l = some t := h
  simp only [Sys.run, h']

private theorem run_nil (p : Params) (a : Bool) (n : Nat) (s : State) :
    (sys p a n).run s [] = some s := rfl

/-- "Returns without waiting for a further update": from every reachable state in which the
handler waits although the served version was not the presented one at some moment since the
request arrived, at most three steps — none of which installs data (`installs` unchanged: no
further update) — bring the handler to its answer. -/
theorem C17_returns_without_further_update (p : Params)
    (hp : p.order = .subscribeFirst) (active : Bool) (serial : Nat) (s : State)
    (hr : Reach (sys p active serial) s) (hw : waiting s) (hd : s.differed = true) :
    ∃ (ls : List Label) (s' : State), ls.length ≤ 3 ∧
      (sys p active serial).run s ls = some s' ∧ s'.hpc = .answering ∧
      s'.installs = s.installs ∧ s'.serial = s.serial := by
  have hle : s.subAt ≤ s.sends := (inv_reach p hp active serial s hr).1
  -- the handler's own step, once a notification is pending
  have fin : ∀ t : State, waiting t → t.differed = true → t.sends > t.subAt →
      ∃ l : Label, step p t l = some { t with hpc := .answering } := by
    intro t ht htd hs
    rcases ht with hb | ⟨hck, hwt⟩
    · exact ⟨.wake, step_of_core p t _ .wake (by simp [stepCore, stepWake, hb, hs]) htd⟩
    · exact ⟨.h, step_of_core p t _ .h (by simp [stepCore, stepH, hck, hwt, hp, hs]) htd⟩
  rcases C17_waiting_implies_notification p hp active serial s hr hw hd with
    hpend | ⟨hmust, hu | hu⟩
  · obtain ⟨l, hl⟩ := fin s hw hd hpend
    refine ⟨[l], { s with hpc := .answering }, by simp, ?_, rfl, rfl, rfl⟩
    exact (run_cons p active serial s _ l [] hl).trans (run_nil p active serial _)
  · -- parked before mark_update_done: mark, notify, then the handler
    let t : State := { s with upc := .start, sends := s.sends + 1 }
    have ht : waiting t := by
      rcases hw with hb | ⟨hck, hwt⟩
      · exact Or.inl hb
      · exact Or.inr ⟨hck, hwt⟩
    obtain ⟨l, hl⟩ := fin t ht hd (by show s.sends + 1 > s.subAt; omega)
    have h1 : step p s (.u false) = some { s with upc := .notify } :=
      step_of_core p s _ (.u false) (by simp [stepCore, stepU, hu]) hd
    have h2 : step p { s with upc := .notify } (.u false) = some t :=
      step_of_core p _ t (.u false) (by simp [stepCore, stepU, hmust, t]) hd
    refine ⟨[.u false, .u false, l], { t with hpc := .answering }, by simp, ?_, rfl, rfl, rfl⟩
    exact (run_cons p active serial s _ _ _ h1).trans ((run_cons p active serial _ _ _ _ h2).trans
      ((run_cons p active serial t _ l [] hl).trans (run_nil p active serial _)))
  · let t : State := { s with upc := .start, sends := s.sends + 1 }
    have ht : waiting t := by
      rcases hw with hb | ⟨hck, hwt⟩
      · exact Or.inl hb
      · exact Or.inr ⟨hck, hwt⟩
    obtain ⟨l, hl⟩ := fin t ht hd (by show s.sends + 1 > s.subAt; omega)
    have h2 : step p s (.u false) = some t :=
      step_of_core p s t (.u false) (by simp [stepCore, stepU, hu, hmust, t]) hd
    refine ⟨[.u false, l], { t with hpc := .answering }, by simp, ?_, rfl, rfl, rfl⟩
    exact (run_cons p active serial s _ _ _ h2).trans
      ((run_cons p active serial t _ l [] hl).trans (run_nil p active serial _))

/-- The parameters of the witness: the order as found, the client presents the served version. -/
def c17Found (session serial : Nat) : Params :=
  { order := .checkFirst, session := session, presented := some (session, serial) }

/-- The schedule of the witness: the handler arrives and checks (equal ⇒ it will wait); the
updater performs a complete run that changes the data and notifies; only then the handler
subscribes. (DESIGN.md's "4-step schedule" check, install, notify, subscribe at the granularity of
the real pre-emption points.) -/
def c17Schedule : List Label :=
  [.h, .h, .u true, .u true, .u true, .u true, .u true, .u true, .h]

/-- **Negation witness for the code as found** (check, then subscribe): for every session and
serial there is a reachable state in which the handler is blocked although the served version is
no longer the presented one, no notification is pending or owed — and *every* continuation that
does not install data again leaves it blocked: the request waits for a further update. -/
theorem C17_check_first_misses_notification (session serial : Nat) :
    ∃ s : State, Reach (sys (c17Found session serial) true serial) s ∧
      s.hpc = .blocked ∧ ¬ current (c17Found session serial) s ∧
      ¬ s.sends > s.subAt ∧ ¬ owed s ∧
      ∀ (ls : List Label) (s' : State),
        (sys (c17Found session serial) true serial).run s ls = some s' →
        s'.installs = s.installs → s'.hpc = .blocked := by
  let s : State :=
    { active := true, serial := serialNext serial, sends := 1, installs := 1, upc := .start,
      must := true, hpc := .blocked, subAt := 1, wait := true, answer := none, differed := true }
  have hrun : (sys (c17Found session serial) true serial).run
      (sys (c17Found session serial) true serial).init c17Schedule = some s := by
    have hne : ¬ serial = serialNext serial := by unfold serialNext; omega
    simp [c17Schedule, Sys.run, sys, step, stepCore, observe, stepH, stepU, afterArrival, needWait,
      c17Found, init, s, hne]
  refine ⟨s, reach_of_run_init _ hrun, rfl, ?_, by simp [s], by simp [owed, s], ?_⟩
  · simp only [current, c17Found, s, Option.some.injEq, Prod.mk.injEq, true_and]
    unfold serialNext
    omega
  · intro ls s' hr hi
    exact (lost_run _ true serial ls s s' ⟨rfl, rfl, Or.inl rfl⟩ hr hi).1

/-- The same schedule on the repaired order ends with the handler at its answer: the theorems'
hypotheses are satisfiable on a non-trivial run, and the repair removes the witness. -/
example :
    ((sys { order := .subscribeFirst, session := 7, presented := some (7, 3) } true 3).run
      (init true 3) ([.h] ++ c17Schedule)).map (fun s => (s.hpc, s.serial, s.sends, s.subAt))
      = some (.answering, 4, 1, 0) := by decide

/-- Non-vacuity of `C17_waiting_implies_current_or_notification`: a reachable state of the repaired
system in which the handler is blocked, the served version differs, and the notification is owed
(not yet pending). -/
example :
    ∃ s, (sys { order := .subscribeFirst, session := 7, presented := some (7, 3) } true 3).run
      (init true 3) [.h, .h, .h, .h, .u true, .u true, .u true, .u true] = some s ∧
      waiting s ∧ ¬ current { order := .subscribeFirst, session := 7, presented := some (7, 3) } s ∧
      ¬ s.sends > s.subAt ∧ owed s := by
  refine ⟨_, rfl, ?_⟩
  decide

end RoutinatorModel
