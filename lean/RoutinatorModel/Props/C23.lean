import RoutinatorModel.Proofs.FsCrash
import RoutinatorModel.Props.C04
/-!
# C23 — A crash at any point never corrupts the store or blocks later runs  (partial)

Model: `RoutinatorModel.FsCrash` (`Model/FsCrash.lean`): file system = path → bytes; a run of
the store is a list of protocol steps (`replace` = temp file + rename, `rewrite` = truncate in
place + writes, `remove`), i.e. a list of primitive operations; a process kill leaves the file
system after a prefix of that list. `Codec` carries what recovery depends on: a *proper prefix*
of a `LastAttempt` header or of the status record does not parse.

Partial: a process kill (`SIGKILL`), not a power loss — what was written stays written, rename
is atomic, operations take effect in program order (kernel semantics modelled, not verified).

The repaired code is modelled: `Store::status` treats an unreadable status file as absent
(`fixes/C23-status-unreadable.patch`) and trust anchor certificates are replaced through a
temporary file (`fixes/C23-ta-atomic.patch`). `C23_status_as_found_fails` and
`C23_ta_in_place_torn` are the negation witnesses for the code as found.

* `C23_clean_preserved`     — the store invariant (`Clean`: a point file is missing, a prefix of
  a `LastAttempt` header, or a complete `Success` file; the status file is missing or a prefix
  of a status record) holds after **every** prefix of every run of well-formed steps — so a
  crashed state is again a legal start state (crash after crash).
* `C23_recovery_never_fatal` — in a clean file system `StoredPoint::open` never meets the fatal
  case (`Success` header with unreadable rest) and `Store::status` (repaired) never fails.
* `C23_point_old_or_new`    — after a crash every point file reads as it did after some number
  of *complete* steps of the run (old, new, or any state an uninterrupted run passes through),
  or as "to be recreated" (torn `LastAttempt` header — never a stored version).
* `C23_stored_version_never_torn` — in particular a stored version (`Success`) is only ever
  replaced by rename or discarded by an explicit `reject`/`remove` step: if the crash view is not
  one of the complete-step views, no stored version was involved.
* `C23_ta_old_or_new`, `C23_status_old_new_or_absent`.
* `C23_next_visit_same`     — engine level: revisiting a publication point from any crash
  variant of its file (untouched, header touched, torn, rejected, already replaced) with the
  same collector offer gives the same payload, children and acceptance as the uninterrupted
  visit did.
-/
namespace RoutinatorModel
open FsCrash

/-- What a path is used for. -/
inductive FsCrash.Kind | point | ta | status | tmp | other
  deriving DecidableEq, Repr

/-- The steps the (repaired) store performs. -/
def FsCrash.StepOk (c : Codec) (kind : Path → Kind) : Step → Prop
  | .replace tmp p chunks =>
    kind tmp = .tmp ∧
      ((kind p = .point ∧ ∃ t v, content chunks = c.encSuccess t v) ∨ kind p = .ta)
  | .rewrite p chunks =>
    (kind p = .point ∧ ∃ t, content chunks = c.encAttempt t)
      ∨ (kind p = .status ∧ ∃ t, content chunks = c.encStatus t)
  | .remove p => kind p ≠ .status

/-- The invariant of the store directory. -/
structure FsCrash.Clean (c : Codec) (kind : Path → Kind) (fs : Fs) : Prop where
  point : ∀ p, kind p = .point →
    fs p = none ∨ (∃ t bs, bs <+: c.encAttempt t ∧ fs p = some bs)
      ∨ (∃ t v, fs p = some (c.encSuccess t v))
  status : ∀ p, kind p = .status →
    fs p = none ∨ ∃ t bs, bs <+: c.encStatus t ∧ fs p = some bs

theorem FsCrash.clean_of_eq_on {c : Codec} {kind : Path → Kind} {fs fs' : Fs}
    (h : Clean c kind fs) (heq : ∀ p, kind p = .point ∨ kind p = .status → fs' p = fs p) :
    Clean c kind fs' :=
  ⟨fun p hp => by rw [heq p (Or.inl hp)]; exact h.point p hp,
   fun p hp => by rw [heq p (Or.inr hp)]; exact h.status p hp⟩

/-- A complete well-formed step keeps the directory clean. -/
theorem FsCrash.clean_step {c : Codec} {kind : Path → Kind} {fs : Fs} {s : Step}
    (h : Clean c kind fs) (hs : StepOk c kind s) : Clean c kind (applyOps fs s.ops) := by
  cases s with
  | replace tmp p chunks =>
    obtain ⟨htmp, hp⟩ := hs
    have htp : tmp ≠ p := by
      intro e; subst e
      rcases hp with ⟨hk, _⟩ | hk <;> simp [htmp] at hk
    constructor
    · intro x hx
      rw [replace_full fs tmp p chunks htp]
      by_cases hxp : x = p
      · subst hxp
        rcases hp with ⟨_, t, v, hc⟩ | hk
        · simp only [↓reduceIte]; exact Or.inr (Or.inr ⟨t, v, by rw [hc]⟩)
        · simp [hx] at hk
      · have hxt : x ≠ tmp := by intro e; subst e; simp [htmp] at hx
        simp only [hxp, hxt, ↓reduceIte]
        exact h.point x hx
    · intro x hx
      rw [replace_full fs tmp p chunks htp]
      have hxp : x ≠ p := by
        intro e; subst e
        rcases hp with ⟨hk, _⟩ | hk <;> simp [hx] at hk
      have hxt : x ≠ tmp := by intro e; subst e; simp [htmp] at hx
      simp only [hxp, hxt, ↓reduceIte]
      exact h.status x hx
  | rewrite p chunks =>
    constructor
    · intro x hx
      rw [rewrite_full]
      by_cases hxp : x = p
      · subst hxp
        rcases hs with ⟨_, t, hc⟩ | ⟨hk, _⟩
        · simp only [↓reduceIte]
          exact Or.inr (Or.inl ⟨t, _, by rw [hc]; exact List.prefix_refl _, rfl⟩)
        · simp [hx] at hk
      · simp only [hxp, ↓reduceIte]; exact h.point x hx
    · intro x hx
      rw [rewrite_full]
      by_cases hxp : x = p
      · subst hxp
        rcases hs with ⟨hk, _⟩ | ⟨_, t, hc⟩
        · simp [hx] at hk
        · simp only [↓reduceIte]
          exact Or.inr ⟨t, _, by rw [hc]; exact List.prefix_refl _, rfl⟩
      · simp only [hxp, ↓reduceIte]; exact h.status x hx
  | remove p =>
    constructor
    · intro x hx
      rw [remove_full]
      by_cases hxp : x = p
      · simp [hxp]
      · simp only [hxp, ↓reduceIte]; exact h.point x hx
    · intro x hx
      rw [remove_full]
      have hxp : x ≠ p := by intro e; subst e; exact hs hx
      simp only [hxp, ↓reduceIte]; exact h.status x hx

theorem FsCrash.clean_steps {c : Codec} {kind : Path → Kind} {fs : Fs} {steps : List Step}
    (h : Clean c kind fs) (hs : ∀ s ∈ steps, StepOk c kind s) :
    Clean c kind (applyOps fs (runOps steps)) := by
  induction steps generalizing fs with
  | nil => exact h
  | cons s rest ih =>
    simp only [runOps, List.flatMap_cons, applyOps_append]
    exact ih (clean_step h (hs s (by simp))) (fun s' h' => hs s' (by simp [h']))

/-- A proper prefix of a well-formed step keeps the directory clean. -/
theorem FsCrash.clean_step_prefix {c : Codec} {kind : Path → Kind} {fs : Fs} {s : Step}
    (h : Clean c kind fs) (hs : StepOk c kind s) (j : Nat) (hj : j < s.ops.length) :
    Clean c kind (applyOps fs (s.ops.take j)) := by
  cases s with
  | replace tmp p chunks =>
    obtain ⟨htmp, _⟩ := hs
    apply clean_of_eq_on h
    intro x hx
    apply replace_prefix_other fs tmp p chunks j hj
    intro e; subst e
    rcases hx with hx | hx <;> simp [htmp] at hx
  | rewrite p chunks =>
    constructor
    · intro x hx
      by_cases hxp : x = p
      · subst hxp
        rcases (rewrite_prefix fs x chunks j x).2 with he | ⟨n, he⟩
        · rw [he]; exact h.point x hx
        · rw [he]
          rcases hs with ⟨_, t, hc⟩ | ⟨hk, _⟩
          · exact Or.inr (Or.inl ⟨t, _, by rw [← hc]; exact content_take_prefix _ _, rfl⟩)
          · simp [hx] at hk
      · rw [(rewrite_prefix fs p chunks j x).1 hxp]; exact h.point x hx
    · intro x hx
      by_cases hxp : x = p
      · subst hxp
        rcases (rewrite_prefix fs x chunks j x).2 with he | ⟨n, he⟩
        · rw [he]; exact h.status x hx
        · rw [he]
          rcases hs with ⟨hk, _⟩ | ⟨_, t, hc⟩
          · simp [hx] at hk
          · exact Or.inr ⟨t, _, by rw [← hc]; exact content_take_prefix _ _, rfl⟩
      · rw [(rewrite_prefix fs p chunks j x).1 hxp]; exact h.status x hx
  | remove p =>
    have : j = 0 := by simp [Step.ops] at hj; exact hj
    subst this
    exact h

/-- **C23, the invariant survives every crash.** After any prefix of the primitive operations
of any run of well-formed steps the store directory is clean again. -/
theorem C23_clean_preserved (c : Codec) (kind : Path → Kind) (fs : Fs) (steps : List Step)
    (h : Clean c kind fs) (hs : ∀ s ∈ steps, StepOk c kind s) (k : Nat) :
    Clean c kind (applyOps fs ((runOps steps).take k)) := by
  rcases take_runOps steps k with ⟨done, s, rest, j, hsplit, hj, ht⟩ | ht
  · rw [ht, applyOps_append]
    have hdone : ∀ s' ∈ done, StepOk c kind s' := fun s' h' => hs s' (by rw [hsplit]; simp [h'])
    have hsok : StepOk c kind s := hs s (by rw [hsplit]; simp)
    exact clean_step_prefix (clean_steps h hdone) hsok j hj
  · rw [ht]; exact clean_steps h hs

/-- **C23, recovery is never fatal.** In a clean directory `StoredPoint::open` finds a
missing/torn file (recreated), a `LastAttempt` header, or a complete stored version — never a
`Success` header with an unreadable rest; and the repaired `Store::status` never fails. -/
theorem C23_recovery_never_fatal (c : Codec) (kind : Path → Kind) (fs : Fs) (h : Clean c kind fs) :
    (∀ p, kind p = .point → c.readPointAt fs p = .recreate
        ∨ (∃ t, c.readPointAt fs p = .attempt t) ∨ (∃ t v, c.readPointAt fs p = .success t v))
    ∧ (∀ p, ∃ r, c.statusRepaired fs p = some r) := by
  constructor
  · intro p hp
    unfold Codec.readPointAt
    rcases h.point p hp with he | ⟨t, bs, hpre, he⟩ | ⟨t, v, he⟩
    · rw [he]; exact Or.inl rfl
    · rw [he]
      by_cases hfull : bs = c.encAttempt t
      · subst hfull; exact Or.inr (Or.inl ⟨t, c.read_attempt t⟩)
      · exact Or.inl (c.read_torn t bs hpre hfull)
    · rw [he]; exact Or.inr (Or.inr ⟨t, v, c.read_success t v⟩)
  · intro p
    unfold Codec.statusRepaired
    cases fs p <;> exact ⟨_, rfl⟩

/-- The file system after `i` complete steps. -/
def FsCrash.after (fs : Fs) (steps : List Step) (i : Nat) : Fs := applyOps fs (runOps (steps.take i))

/-- **C23, every stored point reads as old or new.** After a crash at any operation, the view
`StoredPoint::open` has of a point file is the view after some number of complete steps of the
run — the old version, the new one, or whatever an uninterrupted run passes through (e.g.
`LastAttempt` after a `reject`) — or "recreate" (missing or torn `LastAttempt` header). -/
theorem C23_point_old_or_new (c : Codec) (kind : Path → Kind) (fs : Fs) (steps : List Step)
    (hs : ∀ s ∈ steps, StepOk c kind s) (k : Nat) (p : Path) (hp : kind p = .point) :
    let fs' := applyOps fs ((runOps steps).take k)
    (∃ i, i ≤ steps.length ∧ fs' p = after fs steps i p)
      ∨ (c.readPointAt fs' p = .recreate
          ∧ ∃ i t bs, i < steps.length ∧ steps[i]? = some (.rewrite p bs) ∧ content bs = c.encAttempt t) := by
  intro fs'
  rcases take_runOps steps k with ⟨done, s, rest, j, hsplit, hj, ht⟩ | ht
  · have hdone : after fs steps done.length = applyOps fs (runOps done) := by
      simp [after, hsplit]
    have hlen : done.length < steps.length := by rw [hsplit]; simp
    have hsok : StepOk c kind s := hs s (by rw [hsplit]; simp)
    have hfs' : fs' = applyOps (applyOps fs (runOps done)) (s.ops.take j) := by
      simp only [fs', ht, applyOps_append]
    cases s with
    | replace tmp q chunks =>
      left
      refine ⟨done.length, Nat.le_of_lt hlen, ?_⟩
      rw [hfs', hdone]
      apply replace_prefix_other _ tmp q chunks j hj
      intro e; subst e; simp [hsok.1] at hp
    | rewrite q chunks =>
      by_cases hqp : p = q
      · subst hqp
        rcases (rewrite_prefix (applyOps fs (runOps done)) p chunks j p).2 with he | ⟨n, he⟩
        · left; exact ⟨done.length, Nat.le_of_lt hlen, by rw [hfs', hdone, he]⟩
        · rcases hsok with ⟨_, t, hc⟩ | ⟨hk, _⟩
          · by_cases hfull : content (chunks.take n) = content chunks
            · -- everything was written already: the new state
              left
              refine ⟨done.length + 1, hlen, ?_⟩
              have : after fs steps (done.length + 1) = applyOps (applyOps fs (runOps done))
                  (Step.rewrite p chunks).ops := by
                rw [after, hsplit]; exact applyOps_take_succ fs done _ rest
              rw [hfs', he, this, rewrite_full, hfull]
              simp
            · right
              refine ⟨?_, done.length, t, chunks, hlen, by simp [hsplit], hc⟩
              unfold Codec.readPointAt
              rw [hfs', he]
              apply c.read_torn t
              · rw [← hc]; exact content_take_prefix _ _
              · rw [← hc]; exact hfull
          · simp [hp] at hk
      · left
        refine ⟨done.length, Nat.le_of_lt hlen, ?_⟩
        rw [hfs', hdone, (rewrite_prefix _ q chunks j p).1 hqp]
    | remove q =>
      left
      have : j = 0 := by simp [Step.ops] at hj; exact hj
      subst this
      exact ⟨done.length, Nat.le_of_lt hlen, by rw [hfs', hdone]; rfl⟩
  · left
    refine ⟨steps.length, Nat.le_refl _, ?_⟩
    simp [fs', ht, after]

/-- **C23, a stored version is never torn.** If the crash view of a point file is not one of the
complete-step contents, the file is a torn `LastAttempt` header written by a `rewrite` step of
this run — the content `open` will recreate; in particular it is never a damaged `Success`
file, and a `Success` file present after every complete step is present after the crash. -/
theorem C23_stored_version_never_torn (c : Codec) (kind : Path → Kind) (fs : Fs)
    (steps : List Step) (hs : ∀ s ∈ steps, StepOk c kind s) (k : Nat) (p : Path)
    (hp : kind p = .point) (t v : Nat)
    (hall : ∀ i, i ≤ steps.length → after fs steps i p = some (c.encSuccess t v)) :
    applyOps fs ((runOps steps).take k) p = some (c.encSuccess t v) := by
  rcases C23_point_old_or_new c kind fs steps hs k p hp with ⟨i, hi, he⟩ | ⟨_, i, t', bs, hi, hstep, hc⟩
  · rw [he]; exact hall i hi
  · -- a rewrite step on `p` would leave a `LastAttempt` header after it completed
    exfalso
    have hafter : after fs steps (i + 1) p = some (content bs) := by
      have : steps.take (i + 1) = steps.take i ++ [.rewrite p bs] := by
        rw [List.take_add_one, hstep]; rfl
      simp only [after, this, runOps, List.flatMap_append, List.flatMap_cons, List.flatMap_nil,
        List.append_nil, applyOps_append, rewrite_full, ↓reduceIte]
    have := hall (i + 1) hi
    rw [hafter, hc] at this
    have h1 := c.read_attempt t'
    have h2 := c.read_success t v
    rw [Option.some.inj this] at h1
    rw [h1] at h2
    cases h2

/-- **C23, trust anchor certificates** (repaired: replaced through a temporary file): after a
crash the file is exactly what it was after some number of complete steps — old or new. -/
theorem C23_ta_old_or_new (c : Codec) (kind : Path → Kind) (fs : Fs) (steps : List Step)
    (hs : ∀ s ∈ steps, StepOk c kind s) (k : Nat) (p : Path) (hp : kind p = .ta) :
    ∃ i, i ≤ steps.length ∧ applyOps fs ((runOps steps).take k) p = after fs steps i p := by
  rcases take_runOps steps k with ⟨done, s, rest, j, hsplit, hj, ht⟩ | ht
  · have hdone : after fs steps done.length = applyOps fs (runOps done) := by
      simp [after, hsplit]
    have hlen : done.length < steps.length := by rw [hsplit]; simp
    have hsok : StepOk c kind s := hs s (by rw [hsplit]; simp)
    refine ⟨done.length, Nat.le_of_lt hlen, ?_⟩
    rw [ht, applyOps_append, hdone]
    cases s with
    | replace tmp q chunks =>
      apply replace_prefix_other _ tmp q chunks j hj
      intro e; subst e; simp [hsok.1] at hp
    | rewrite q chunks =>
      apply (rewrite_prefix _ q chunks j p).1
      intro e; subst e
      rcases hsok with ⟨hk, _⟩ | ⟨hk, _⟩ <;> simp [hp] at hk
    | remove q =>
      have : j = 0 := by simp [Step.ops] at hj; exact hj
      subst this; rfl
  · exact ⟨steps.length, Nat.le_refl _, by simp [ht, after]⟩

/-- **C23, status file** (repaired reader): after a crash `Store::status` succeeds and reports
what it reported after some number of complete steps (the old time, the new one) or "no
status". -/
theorem C23_status_old_new_or_absent (c : Codec) (kind : Path → Kind) (fs : Fs)
    (steps : List Step) (hs : ∀ s ∈ steps, StepOk c kind s) (k : Nat) (p : Path)
    (hp : kind p = .status) :
    let fs' := applyOps fs ((runOps steps).take k)
    c.statusRepaired fs' p = some none
      ∨ ∃ i, i ≤ steps.length ∧ c.statusRepaired fs' p = c.statusRepaired (after fs steps i) p := by
  intro fs'
  rcases take_runOps steps k with ⟨done, s, rest, j, hsplit, hj, ht⟩ | ht
  · have hdone : after fs steps done.length = applyOps fs (runOps done) := by
      simp [after, hsplit]
    have hlen : done.length < steps.length := by rw [hsplit]; simp
    have hsok : StepOk c kind s := hs s (by rw [hsplit]; simp)
    have hfs' : fs' = applyOps (applyOps fs (runOps done)) (s.ops.take j) := by
      simp only [fs', ht, applyOps_append]
    have same : fs' p = applyOps fs (runOps done) p →
        ∃ i, i ≤ steps.length ∧ c.statusRepaired fs' p = c.statusRepaired (after fs steps i) p :=
      fun he => ⟨done.length, Nat.le_of_lt hlen, by simp [Codec.statusRepaired, he, hdone]⟩
    cases s with
    | replace tmp q chunks =>
      right; apply same; rw [hfs']
      apply replace_prefix_other _ tmp q chunks j hj
      intro e; subst e; simp [hsok.1] at hp
    | rewrite q chunks =>
      by_cases hqp : p = q
      · subst hqp
        rcases (rewrite_prefix (applyOps fs (runOps done)) p chunks j p).2 with he | ⟨n, he⟩
        · right; apply same; rw [hfs', he]
        · rcases hsok with ⟨hk, _⟩ | ⟨_, t, hc⟩
          · simp [hp] at hk
          · by_cases hfull : content (chunks.take n) = content chunks
            · right
              refine ⟨done.length + 1, hlen, ?_⟩
              have : after fs steps (done.length + 1) = applyOps (applyOps fs (runOps done))
                  (Step.rewrite p chunks).ops := by
                rw [after, hsplit]; exact applyOps_take_succ fs done _ rest
              simp only [Codec.statusRepaired, hfs', he, this, rewrite_full, ↓reduceIte, hfull]
            · left
              simp only [Codec.statusRepaired, hfs', he]
              rw [c.read_status_torn t _ (by rw [← hc]; exact content_take_prefix _ _)
                (by rw [← hc]; exact hfull)]
      · right; apply same; rw [hfs', (rewrite_prefix _ q chunks j p).1 hqp]
    | remove q =>
      right; apply same
      have : j = 0 := by simp [Step.ops] at hj; exact hj
      subst this
      rw [hfs']; rfl
  · right
    exact ⟨steps.length, Nat.le_refl _, by simp [fs', ht, after]⟩

/-! ## The next run -/

open Engine StoreFile in
/-- **C23, the next run sees the same.** Let a run visit a publication point whose file is
`file`, with collector offer `offer`. A crash can leave the point's file untouched, with a
refreshed or torn `LastAttempt` header (`file'.stored = file.stored`), already replaced by the
new version (`file' = ` the file after the visit), or — if the visit discarded an inconsistent
stored copy — as a bare or torn `LastAttempt` header. Revisiting the point from any of these
with the same offer (same clock and configuration) yields exactly the result of the
uninterrupted visit: same payload, same child CAs, same acceptance. -/
theorem C23_next_visit_same (cfg : Cfg) (now : Int) (offer : Offer) (file file' : PointFile)
    (ca : CaCtx) (reorder : List Entry → List Entry) (hperm : ∀ l, (reorder l).Perm l)
    (hvar : file'.stored = file.stored
      ∨ file' = (processPointFile cfg now (some offer) file ca reorder).2
      ∨ (file'.stored = none ∧ file.stored ≠ none
          ∧ (processPointFile cfg now (some offer) file ca reorder).2 = .attempt now)) :
    (processPointFile cfg now (some offer) file' ca reorder).1
      = (processPointFile cfg now (some offer) file ca reorder).1 := by
  have same_stored : ∀ f', f'.stored = file.stored →
      (processPointFile cfg now (some offer) f' ca reorder).1
        = (processPointFile cfg now (some offer) file ca reorder).1 := by
    intro f' h
    rw [(C04_refines_engine cfg now (some offer) f' ca reorder).1,
      (C04_refines_engine cfg now (some offer) file ca reorder).1, h]
  -- a file without stored version, when the visit of `file` rejected the stored copy
  have rejected : ∀ f', f'.stored = none → file.stored ≠ none →
      (processPointFile cfg now (some offer) file ca reorder).2 = .attempt now →
      (processPointFile cfg now (some offer) f' ca reorder).1
        = (processPointFile cfg now (some offer) file ca reorder).1 := by
    intro f' hnone hsome hatt
    rcases C04_point_step cfg now (some offer) file ca reorder hperm with
      ⟨_, _, _, _, _, _, _, _, hout, _⟩ | ⟨hout, _⟩
        | ⟨t, s, offer', mf, vm, crl, _, _, hoff, hm, hv, _, hres, hbad⟩
    · rw [hout] at hatt; cases hatt
    · exfalso
      apply hsome
      have := touch_stored now file
      rw [← hout, hatt] at this
      exact this.symm
    · cases hoff
      rw [hres, (C04_refines_engine cfg now (some offer) f' ca reorder).1, hnone]
      obtain ⟨acc, hacc⟩ := runEntries_aborted cfg now ca vm (offer.get ca.info.mft).files
        (reorder vm.mft.entries) [] [] []
        (by obtain ⟨e, he, hb⟩ := hbad; exact ⟨e, (hperm _).mem_iff.mpr he, hb⟩)
      simp [processPointWith, processCollectedWith, hm, sameManifest, hv, collectedIsNewer, hacc,
        storedResult]
  rcases hvar with h | h | ⟨hnone, hsome, hatt⟩
  · exact same_stored file' h
  · rcases C04_point_step cfg now (some offer) file ca reorder hperm with
      ⟨offer', mf, vm, crl, objs, hoff, hacc, _, hout, _⟩ | ⟨hout, _⟩
        | ⟨t, s, _, _, _, _, hfile, _, _, _, _, hout, _⟩
    · cases hoff
      have husable := C04_stored_version_usable cfg now offer file ca reorder reorder hperm hacc
      obtain ⟨h1, _, _⟩ := husable
      rw [← h1, h, (C04_refines_engine cfg now (some offer) _ ca reorder).1, hout]
      have hm := hacc.mft
      simp only [processPointWith, processCollectedWith, hm, PointFile.stored, sameManifest,
        beq_self_eq_true, Bool.and_self, ↓reduceIte, processPointFile, PointFile.open]
    · apply same_stored
      rw [h, hout]; exact touch_stored now file
    · apply rejected file' (by rw [h, hout]; rfl) (by rw [hfile]; simp [PointFile.stored])
      exact hout
  · exact rejected file' hnone hsome hatt

/-! ## The code as found: negation witnesses, and non-vacuity -/

namespace C23Example
/-- A toy encoding: `LastAttempt t` = `[2, 1, t]`, `Success t v` = `[2, 0, t, v]`,
status `t` = `[0, t]`; readers accept exactly these. -/
def readPoint : Bytes → PointRead
  | [2, 1, t] => .attempt t
  | [2, 0, t, v] => .success t v
  | 2 :: 0 :: _ => .fatal
  | _ => .recreate

def readStatus : Bytes → Option Nat
  | [0, t] => some t
  | _ => none

theorem torn_attempt (t : Nat) (bs : Bytes) (h : bs <+: [2, 1, t]) (hne : bs ≠ [2, 1, t]) :
    readPoint bs = .recreate := by
  obtain ⟨r, hr⟩ := h
  match bs, hr with
  | [], _ => rfl
  | [a], hr => simp at hr; obtain ⟨rfl, _⟩ := hr; rfl
  | [a, b], hr => simp at hr; obtain ⟨rfl, rfl, _⟩ := hr; rfl
  | [a, b, c'], hr => simp at hr; obtain ⟨rfl, rfl, rfl, _⟩ := hr; exact absurd rfl hne
  | a :: b :: c' :: d :: rest, hr => simp at hr

theorem torn_status (t : Nat) (bs : Bytes) (h : bs <+: [0, t]) (hne : bs ≠ [0, t]) :
    readStatus bs = none := by
  obtain ⟨r, hr⟩ := h
  match bs, hr with
  | [], _ => rfl
  | [a], hr => simp at hr; obtain ⟨rfl, _⟩ := hr; rfl
  | [a, b], hr => simp at hr; obtain ⟨rfl, rfl, _⟩ := hr; exact absurd rfl hne
  | a :: b :: c' :: rest, hr => simp at hr

def codec : Codec where
  encAttempt t := [2, 1, t]
  encSuccess t v := [2, 0, t, v]
  readPoint := readPoint
  read_attempt _ := rfl
  read_success _ _ := rfl
  read_torn := torn_attempt
  encStatus t := [0, t]
  readStatus := readStatus
  read_status _ := rfl
  read_status_torn := torn_status

/-- Paths: 1, 2 publication points, 10 status, 20 trust anchor, ≥ 100 temporary. -/
def kind (p : Path) : Kind :=
  if p = 10 then .status else if p = 20 then .ta else if p ≥ 100 then .tmp
  else if p = 1 ∨ p = 2 then .point else .other

/-- Point 1 holds version 7, point 2 a `LastAttempt` marker, status says 50, a TA is stored. -/
def fs0 : Fs := fun p =>
  if p = 1 then some [2, 0, 50, 7] else if p = 2 then some [2, 1, 50]
  else if p = 10 then some [0, 50] else if p = 20 then some [9, 9] else none

/-- A run: header touch of point 2, point 1 replaced by version 8 (three writes), the trust
anchor replaced, status rewritten (two writes). -/
def run : List Step :=
  [.rewrite 2 [[2], [1, 60]], .replace 100 1 [[2, 0], [60], [8]], .replace 101 20 [[9, 9]],
   .rewrite 10 [[0], [60]]]
end C23Example

open C23Example in
/-- Non-vacuity: the example run is well-formed and starts clean. -/
example : (∀ s ∈ run, StepOk codec kind s) ∧ Clean codec kind fs0 := by
  refine ⟨?_, ?_, ?_⟩
  · intro s hs
    simp only [run, List.mem_cons, List.not_mem_nil, or_false] at hs
    rcases hs with rfl | rfl | rfl | rfl
    · exact Or.inl ⟨by decide, 60, rfl⟩
    · exact ⟨by decide, Or.inl ⟨by decide, 60, 8, rfl⟩⟩
    · exact ⟨by decide, Or.inr (by decide)⟩
    · exact Or.inr ⟨by decide, 60, rfl⟩
  · intro p hp
    have : p = 1 ∨ p = 2 := by
      unfold kind at hp
      split at hp <;> (try cases hp)
      split at hp <;> (try cases hp)
      split at hp <;> (try cases hp)
      split at hp <;> (try cases hp)
      assumption
    rcases this with rfl | rfl
    · exact Or.inr (Or.inr ⟨50, 7, rfl⟩)
    · exact Or.inr (Or.inl ⟨50, _, List.prefix_refl _, rfl⟩)
  · intro p hp
    have : p = 10 := by
      unfold kind at hp
      split at hp
      · assumption
      · split at hp <;> (try cases hp)
        split at hp <;> (try cases hp)
        split at hp <;> cases hp
    subst this
    exact Or.inr ⟨50, _, List.prefix_refl _, rfl⟩

open C23Example in
/-- In the example, crash prefixes show: torn marker (recreated), old version during the
replace, new version after the rename, status absent in between, never a fatal read. -/
example :
    codec.readPointAt (applyOps fs0 ((runOps run).take 2)) 2 = .recreate
    ∧ codec.readPointAt (applyOps fs0 ((runOps run).take 7)) 1 = .success 50 7
    ∧ codec.readPointAt (applyOps fs0 ((runOps run).take 8)) 1 = .success 60 8
    ∧ codec.statusRepaired (applyOps fs0 ((runOps run).take 12)) 10 = some none
    ∧ codec.statusRepaired (applyOps fs0 ((runOps run).take 14)) 10 = some (some 60) := by
  decide

open C23Example in
/-- **Negation witness, status file.** With `Store::status` as found, the crash right after the
status file was truncated makes the status unreadable: `store_status()?` fails in every later
`vrps --update-after` until something rewrites the file. -/
theorem C23_status_as_found_fails :
    codec.statusAsFound (applyOps fs0 ((runOps run).take 12)) 10 = none
    ∧ codec.statusRepaired (applyOps fs0 ((runOps run).take 12)) 10 = some none := by
  decide

open C23Example in
/-- **Negation witness, trust anchor certificate.** Written in place (`fs::write`) instead of
through a temporary file, a crash after the truncation leaves an empty file: neither the old
nor the new certificate, so a run without collector finds no trust anchor. -/
theorem C23_ta_in_place_torn :
    let asFound : List Step := [.rewrite 20 [[9, 9]]]
    applyOps fs0 ((runOps asFound).take 1) 20 = some []
    ∧ applyOps fs0 ((runOps asFound).take 1) 20 ≠ fs0 20
    ∧ applyOps fs0 ((runOps asFound).take 1) 20 ≠ applyOps fs0 (runOps asFound) 20 := by
  decide

end RoutinatorModel
