import RoutinatorModel.Proofs.OutputJson
import RoutinatorModel.Generated.Templates
/-!
# C21 — Output formats list exactly the selected payload, well-formed

* `C21_listed`: for each of the 13 formats, every selection and every type exclusion, the
  formatter is asked to write exactly the items the documented selection admits, of the
  enabled types the format can express — each once, in snapshot order.
* `C21_json`: the `json`, `jsonext`, `slurm` and `slurm2` outputs are JSON texts for all data,
  including arbitrary trust-anchor names, exception comments and paths.
* `C21_closed` / `C21_section_items`: the document is header, sections, footer, and the
  elements of each section's array are exactly the listed items' objects.
* `C21_old_invalid`: with the TAL name written verbatim (pinned tree) the `json` output for a
  TAL named ESC is not JSON.
-/
namespace RoutinatorModel
open RoutinatorModel.Json RoutinatorModel.Output

/-- The items written are the admitted items of the enabled, expressible types. -/
theorem C21_listed (fmt : Format) (out : Output) (d : Data) :
    listed fmt out d =
      (if fmt.listsOrigins && out.routeOrigins then (d.origins.filter (admitsOrigin out)).map .o else []) ++
      ((if fmt.listsKeys && out.routerKeys then (d.keys.filter (admitsKey out)).map .k else []) ++
       (if fmt.listsAspas && out.aspas then (d.aspas.filter (admitsAspa out)).map .a else [])) := by
  rw [listed_eq, listedSpec]
  have h1 : inclOrigin out = admitsOrigin out := funext (inclOrigin_eq out)
  have h2 : inclKey out = admitsKey out := funext (inclKey_eq out)
  have h3 : inclAspa out = admitsAspa out := funext (inclAspa_eq out)
  rw [h1, h2, h3]

/-- Each listed item is an item of the data set, and an item is listed at most as often as it
occurs there: once, for a data set without duplicates. -/
theorem C21_listed_once (fmt : Format) (out : Output) (d : Data) (x : Item) :
    (listed fmt out d).count x ≤
      (d.origins.map Item.o ++ (d.keys.map Item.k ++ d.aspas.map Item.a)).count x := by
  rw [C21_listed]
  simp only [List.count_append]
  have ho : ∀ (l : List OriginI) (p : OriginI → Bool), ((l.filter p).map Item.o).count x ≤ (l.map Item.o).count x :=
    fun l p => (List.filter_sublist.map Item.o).count_le x
  have hk : ∀ (l : List KeyI) (p : KeyI → Bool), ((l.filter p).map Item.k).count x ≤ (l.map Item.k).count x :=
    fun l p => (List.filter_sublist.map Item.k).count_le x
  have ha : ∀ (l : List AspaI) (p : AspaI → Bool), ((l.filter p).map Item.a).count x ≤ (l.map Item.a).count x :=
    fun l p => (List.filter_sublist.map Item.a).count_le x
  have e1 : (if fmt.listsOrigins && out.routeOrigins then (d.origins.filter (admitsOrigin out)).map Item.o else []).count x
      ≤ (d.origins.map Item.o).count x := by split <;> simp [ho]
  have e2 : (if fmt.listsKeys && out.routerKeys then (d.keys.filter (admitsKey out)).map Item.k else []).count x
      ≤ (d.keys.map Item.k).count x := by split <;> simp [hk]
  have e3 : (if fmt.listsAspas && out.aspas then (d.aspas.filter (admitsAspa out)).map Item.a else []).count x
      ≤ (d.aspas.map Item.a).count x := by split <;> simp [ha]
  omega

/-- The four JSON formats produce a JSON text for every data set, selection and exclusion. -/
theorem C21_json (fmt : Format) (hf : fmt.isJson = true) (out : Output) (d : Data)
    (hd : d.okB = true) : IsJson (render fmt out d) := render_isJson fmt hf out d hd

/-- The document in closed form: header, the written sections, footer; the items of a section
are the included items of that type, separated by the delimiter. -/
theorem C21_closed (fmt : Format) (hf : fmt.isJson = true) (out : Output) (d : Data) :
    render fmt out d = closedText fmt (presO fmt out) (presK fmt out) (presA fmt out) d.generated
      d.generatedTime (itemsO fmt out d) (itemsK fmt out d) (itemsA fmt out d) :=
  render_closed fmt hf out d

/-- SLURM: the `prefixAssertions` / `bgpsecAssertions` (/ `aspaAssertions`) arrays consist of
exactly one element per listed item, in order, each the item's object. -/
theorem C21_section_items (fmt : Format) (hf : fmt.isJson = true) (out : Output) (d : Data)
    (hd : d.okB = true) :
    itemsO fmt out d = (if out.routeOrigins then
      joinComma (sepElems [0x0A] (originText fmt) (d.origins.filter (admitsOrigin out))) else []) ∧
    (∀ o ∈ d.origins, J .element (originText fmt o)) ∧
    (∀ k ∈ d.keys, J .element (keyText fmt k)) := by
  simp only [Data.okB, Bool.and_eq_true] at hd
  refine ⟨?_, fun o ho => origin_element hf (List.all_eq_true.mp hd.1.1.2 o ho),
    fun k hk => key_element hf (List.all_eq_true.mp hd.1.2 k hk)⟩
  have h1 : inclOrigin out = admitsOrigin out := funext (inclOrigin_eq out)
  unfold itemsO
  rw [(delim_eq fmt hf).1, loopText_join, h1]

/-! ## The pinned tree -/

/-- The `json` document for one origin whose trust anchor is named ESC, with the name written
verbatim as on the pinned tree. -/
def oldJsonWitness : Text :=
  closedText .json true false false (cp!"0") (cp!"1970-01-01T00:00:00Z")
    (fillFrom (h_origin .json) [cp!"AS64496", cp!"192.0.2.0", cp!"24", cp!"24", [0x1B]]) [] []

theorem C21_old_invalid : ¬ IsJson oldJsonWitness :=
  not_isJson_of_control (c := 0x1B) (by decide) (by decide) (by decide)

/-- The same document with the name passed through `json_str` is accepted. -/
example : recognise (closedText .json true false false (cp!"0") (cp!"1970-01-01T00:00:00Z")
    (fillFrom (h_origin .json) [cp!"AS64496", cp!"192.0.2.0", cp!"24", cp!"24", taText (some [0x1B])]) [] [])
    = true := by decide +kernel

/-! ## The source is what the model says it is -/

theorem C21_templates_current :
    Generated.outputTemplates = Output.outputTemplates ∧
    Generated.outputFlows = Output.outputFlows ∧
    Generated.outputLoopsOk = true := by
  decide +kernel

/-! ## Non-vacuity -/

def p4 (a b c d len : Nat) : Pfx := ⟨true, ((a * 256 + b) * 256 + c) * 256 + d, len⟩

example : (p4 10 0 0 0 8).covers (p4 10 1 0 0 16) = true := by decide
example : (p4 10 1 0 0 16).covers (p4 10 0 0 0 8) = false := by decide
example : (p4 10 0 0 0 8).covers (p4 11 0 0 0 8) = false := by decide
example : (p4 0 0 0 0 0).covers (p4 255 255 255 255 32) = true := by decide
example : (p4 10 0 0 1 32).covers (p4 10 0 0 1 32) = true := by decide
example : (⟨false, 0x20010db8 * 2 ^ 96, 32⟩ : Pfx).covers ⟨false, 0x20010db80001 * 2 ^ 80, 48⟩ = true := by decide
example : (⟨false, 0, 0⟩ : Pfx).covers (p4 10 0 0 0 8) = false := by decide

end RoutinatorModel
