import RoutinatorModel.Model.Limit
/-!
# C38 — the object size limit is applied exactly as configured

Model: `Model/Limit.lean`. All statements quantify over every chunking of the body (every list
of chunks with the same concatenation), and the buffer statements over every event sequence
including read failures.
-/
namespace RoutinatorModel
open Limit

namespace Limit

/-- All data the wrapped reader delivers (ignoring failures). -/
def dataOf : List Ev → Bytes
  | [] => []
  | .data c :: rest => c ++ dataOf rest
  | .fail :: rest => dataOf rest

theorem dataOf_chunked (cs : List Bytes) : dataOf (chunked cs) = cs.flatten := by
  induction cs with
  | nil => rfl
  | cons c cs ih => simp [chunked, dataOf] at ih ⊢; rw [ih]

theorem readLoop_none (acc : Bytes) (cs : List Bytes) :
    readLoop none acc (chunked cs) = .ok (acc ++ cs.flatten) := by
  induction cs generalizing acc with
  | nil => simp [chunked, readLoop]
  | cons c cs ih =>
    simp only [chunked, List.map_cons, readLoop, List.flatten_cons] at ih ⊢
    rw [ih]; simp

theorem readLoop_fits (l : Nat) (acc : Bytes) (cs : List Bytes) (h : cs.flatten.length ≤ l) :
    readLoop (some l) acc (chunked cs) = .ok (acc ++ cs.flatten) := by
  induction cs generalizing acc l with
  | nil => simp [chunked, readLoop]
  | cons c cs ih =>
    simp only [List.flatten_cons, List.length_append] at h
    simp only [chunked, List.map_cons, readLoop, List.flatten_cons] at ih ⊢
    have hc : ¬ c.length > l := by omega
    rw [if_neg hc, ih (l - c.length) (acc ++ c) (by omega)]
    simp

/-- The general invariant: what is buffered is the start of the delivered data and fits the limit. -/
theorem readLoop_buffered (l : Nat) (acc : Bytes) (evs : List Ev) :
    ∃ p, (readLoop (some l) acc evs).buffered = acc ++ p ∧ p.length ≤ l ∧ p <+: dataOf evs := by
  induction evs generalizing acc l with
  | nil => exact ⟨[], by simp [readLoop, Res.buffered], by simp, by simp [dataOf]⟩
  | cons e rest ih =>
    cases e with
    | fail => exact ⟨[], by simp [readLoop, Res.buffered], by simp, by simp⟩
    | data c =>
      simp only [readLoop, dataOf]
      by_cases hc : c.length > l
      · rw [if_pos hc]
        exact ⟨[], by simp [Res.buffered], by simp, by simp⟩
      · rw [if_neg hc]
        obtain ⟨p, h1, h2, h3⟩ := ih (l - c.length) (acc ++ c)
        refine ⟨c ++ p, by rw [h1]; simp, by simp; omega, ?_⟩
        exact (List.prefix_append_right_inj c).mpr h3

theorem readLoop_too_big (l : Nat) (acc : Bytes) (cs : List Bytes) (h : cs.flatten.length > l) :
    (readLoop (some l) acc (chunked cs)).isOk = false := by
  induction cs generalizing acc l with
  | nil => simp at h
  | cons c cs ih =>
    simp only [List.flatten_cons, List.length_append] at h
    simp only [chunked, List.map_cons, readLoop] at ih ⊢
    by_cases hc : c.length > l
    · rw [if_pos hc]; rfl
    · rw [if_neg hc]
      exact ih (l - c.length) (acc ++ c) (by omega)

theorem readLoop_ok_content (limit : Option Nat) (acc : Bytes) (evs : List Ev) (b : Bytes)
    (h : readLoop limit acc evs = .ok b) : b = acc ++ dataOf evs ∧ Ev.fail ∉ evs := by
  induction evs generalizing acc limit with
  | nil => simp [readLoop] at h; simp [dataOf, h]
  | cons e rest ih =>
    cases e with
    | fail => simp [readLoop] at h
    | data c =>
      cases limit with
      | none =>
        simp only [readLoop] at h
        obtain ⟨h1, h2⟩ := ih none (acc ++ c) h
        exact ⟨by simp [dataOf, h1], by simp [h2]⟩
      | some l =>
        simp only [readLoop] at h
        by_cases hc : c.length > l
        · rw [if_pos hc] at h; simp at h
        · rw [if_neg hc] at h
          obtain ⟨h1, h2⟩ := ih _ (acc ++ c) h
          exact ⟨by simp [dataOf, h1], by simp [h2]⟩

end Limit

/-- With a limit `l` (or none), whatever the chunking: the object is accepted — and then it is
the complete body — exactly if there is no limit or the body has at most `l` bytes. -/
theorem C38_accept_iff (limit : Option Nat) (chunks : List Bytes) :
    readAll limit (chunked chunks) = .ok chunks.flatten ↔
      (limit = none ∨ ∃ l, limit = some l ∧ chunks.flatten.length ≤ l) := by
  cases limit with
  | none => simp [readAll, readLoop_none]
  | some l =>
    by_cases h : chunks.flatten.length ≤ l
    · constructor
      · intro _; exact Or.inr ⟨l, rfl, h⟩
      · intro _; simp [readAll, readLoop_fits l [] chunks h]
    · have := readLoop_too_big l [] chunks (by omega)
      constructor
      · intro e; unfold readAll at e; rw [e] at this; simp [Res.isOk] at this
      · rintro (e | ⟨l', e, hl⟩)
        · simp at e
        · simp only [Option.some.injEq] at e; subst e; exact absurd hl h

/-- Larger objects are refused, whatever the chunking (never accepted as anything). -/
theorem C38_refuse_larger (l : Nat) (chunks : List Bytes) (h : chunks.flatten.length > l) :
    (readAll (some l) (chunked chunks)).isOk = false :=
  readLoop_too_big l [] chunks h

/-- Acceptance does not depend on how the body is cut into chunks. -/
theorem C38_chunking_independent (limit : Option Nat) (c1 c2 : List Bytes)
    (h : c1.flatten = c2.flatten) :
    (readAll limit (chunked c1)).isOk = (readAll limit (chunked c2)).isOk := by
  cases limit with
  | none => simp [readAll, readLoop_none, Res.isOk]
  | some l =>
    by_cases hl : c1.flatten.length ≤ l
    · rw [readAll, readAll, readLoop_fits l [] c1 hl, readLoop_fits l [] c2 (h ▸ hl)]
      rfl
    · rw [C38_refuse_larger l c1 (by omega), C38_refuse_larger l c2 (by rw [← h]; omega)]

/-- Never more than `l` bytes are buffered, and they are the beginning of what was delivered —
for every event sequence, read failures included. -/
theorem C38_buffer_bound (l : Nat) (evs : List Ev) :
    (readAll (some l) evs).buffered.length ≤ l ∧ (readAll (some l) evs).buffered <+: dataOf evs := by
  obtain ⟨p, h1, h2, h3⟩ := readLoop_buffered l [] evs
  unfold readAll
  rw [h1]
  exact ⟨by simpa using h2, by simpa using h3⟩

/-- An accepted object is exactly what was delivered, and nothing failed. -/
theorem C38_ok_content (limit : Option Nat) (evs : List Ev) (b : Bytes)
    (h : readAll limit evs = .ok b) : b = dataOf evs ∧ Ev.fail ∉ evs := by
  have := readLoop_ok_content limit [] evs b h
  simpa using this

/-- Trust anchor download with the limit disabled: every body is accepted completely, with or
without a `Content-Length` header, whatever the chunking. -/
theorem C38_ta_unlimited (contentLength : Option Nat) (chunks : List Bytes) :
    loadTa none contentLength (chunked chunks) = some chunks.flatten := by
  simp [loadTa, clExceeds, readAll, readLoop_none, Res.buffered]

/-- Trust anchor download with limit `l` and an honest (or absent) `Content-Length`: the complete
body is returned exactly if it has at most `l` bytes; otherwise nothing or a proper beginning of
at most `l` bytes. -/
theorem C38_ta_limited (l : Nat) (contentLength : Option Nat) (chunks : List Bytes)
    (hcl : contentLength = none ∨ contentLength = some chunks.flatten.length) :
    (loadTa (some l) contentLength (chunked chunks) = some chunks.flatten ↔ chunks.flatten.length ≤ l)
    ∧ (∀ b, loadTa (some l) contentLength (chunked chunks) = some b → b.length ≤ l) := by
  constructor
  · by_cases h : chunks.flatten.length ≤ l
    · have hx : clExceeds contentLength (some l) = false := by
        rcases hcl with e | e
        · simp [clExceeds, optGt, e]
        · rw [e]
          simp only [clExceeds, optGt, Option.isSome_some, Bool.true_and,
            decide_eq_false_iff_not]
          omega
      constructor
      · intro _; exact h
      · intro _; simp [loadTa, hx, readAll, readLoop_fits l [] chunks h, Res.buffered]
    · simp only [h, iff_false]
      intro e
      unfold loadTa at e
      split at e
      · simp at e
      · simp only [Option.some.injEq] at e
        have := (C38_buffer_bound l (chunked chunks)).1
        rw [e] at this
        omega
  · intro b hb
    unfold loadTa at hb
    split at hb
    · simp at hb
    · simp only [Option.some.injEq] at hb
      rw [← hb]
      exact (C38_buffer_bound l _).1

/-- `max-object-size`: `0` switches the limit off, on the command line and in the config file; the
command line wins; the default is 20 000 000. -/
theorem C38_config (file cli : Option Nat) :
    (configLimit file cli = none ↔ (cli = some 0 ∨ (cli = none ∧ file = some 0))) ∧
    (∀ v, v ≠ 0 → configLimit file (some v) = some v) ∧
    (∀ v, v ≠ 0 → configLimit (some v) none = some v) ∧
    configLimit none none = some 20000000 := by
  refine ⟨?_, ?_, ?_, rfl⟩
  · cases cli with
    | some v => by_cases h : v = 0 <;> simp [configLimit, limitOfValue, h]
    | none =>
      cases file with
      | some v => by_cases h : v = 0 <;> simp [configLimit, limitOfValue, h]
      | none => simp [configLimit]
  · intro v hv; simp [configLimit, limitOfValue, hv]
  · intro v hv; simp [configLimit, limitOfValue, hv]

/-! ## Non-vacuity and the negation witness for the repaired defect -/

/-- The unrepaired pre-check (`Some(len) > None`) refused every trust anchor that came with a
`Content-Length` header when the limit was disabled … -/
theorem C38_old_refuses (n : Nat) (evs : List Ev) : loadTaOld none (some n) evs = none := by
  simp [loadTaOld, clExceedsOld, optGt]

/-- … the repaired one accepts it. -/
example : loadTa none (some 3) (chunked [[1], [2, 3]]) = some [1, 2, 3] := by decide
example : loadTaOld none (some 3) (chunked [[1], [2, 3]]) = none := by decide
/-- size = limit is accepted, size = limit + 1 is not, under adversarial chunkings. -/
example : readAll (some 3) (chunked [[1], [2], [3]]) = .ok [1, 2, 3] := by decide
example : readAll (some 3) (chunked [[1, 2, 3]]) = .ok [1, 2, 3] := by decide
example : readAll (some 3) (chunked [[1, 2, 3], [4]]) = .tooLarge [1, 2, 3] := by decide
example : readAll (some 3) (chunked [[1], [2, 3, 4]]) = .tooLarge [1] := by decide
example : readAll (some 3) [.data [1], .fail, .data [2]] = .readError [1] := by decide
/-- Recorded corner: an oversized body whose chunk boundary falls at byte `l` leaves exactly the
first `l` bytes with `load_ta` (at most `l` bytes are ever kept; never the oversized body). -/
example : loadTa (some 3) none (chunked [[1, 2, 3], [4]]) = some [1, 2, 3] := by decide

end RoutinatorModel
