import RoutinatorModel.Proofs.SnapshotOrder
/-!
# C09 — The served data set is the documented composition of validated payload

Model: `Model/Snapshot.lean` — `served s κo κk points rejectedCerts e` is a whole validation
run's report (`PubPointProcessor` per publication point with the length limits of `add_roa`
and the BGPsec/ASPA switches, `commit`, `cancel`) followed by `ValidationReport::into_snapshot`
(`SnapshotBuilder`: unsafe filter, SLURM filters, insert-or-merge, router keys per ASN, ASPA
union per customer, assertions last, drop of over-long ASPAs, sort).

All statements hold for every list of publication points with every number of ROAs, router
certificates and ASPAs (duplicates allowed), every set of rejected CA certificates, every
exceptions value and every option combination. `κo`/`κk` are the ranks of route origins and
router keys in Rust's `Ord`; only their injectivity on the items that occur is used.

Vocabulary (`Proofs/SnapshotSpec.lean`): `validatedOrigins s points` — the origins of all
validated ROAs whose prefix length is within the configured limit of its family;
`validatedKeys` / `validatedAspas` — router keys per certificate ASN / ASPA objects, empty
when the feature is disabled; `Unsafe certs p` — `p` overlaps a non-`/0` address block of a
rejected CA certificate; `e.dropOrigin` / `e.dropRouterKey` — some SLURM filter matches.
-/
namespace RoutinatorModel

/-! ### Route origins -/

/-- The served origins are: validated origins within the length limits, minus unsafe ones
under `reject`, minus SLURM-filtered ones, plus the SLURM assertions. -/
theorem C09_origins_mem (s : Settings) (κo : Origin → Nat) (κk : RouterKey → Nat)
    (points : List RawPoint) (certs : List CertResources) (e : Exceptions) (o : Origin) :
    o ∈ (served s κo κk points certs e).origins ↔
      (o ∈ validatedOrigins s points
        ∧ ¬ (s.unsafeVrps = .reject ∧ Unsafe certs o.pfx)
        ∧ e.dropOrigin o = false)
      ∨ o ∈ e.originAssertions := by
  rw [served_eq]
  simp only [mem_sortBy, mem_originLane]

/-- What "validated origin within the limits" means in terms of the ROAs. -/
theorem C09_validatedOrigins_mem (s : Settings) (points : List RawPoint) (o : Origin) :
    o ∈ validatedOrigins s points ↔
      ∃ p ∈ points, ∃ roa ∈ p.roas, ∃ v ∈ roa, v.toOrigin = o ∧
        (∀ limit, (if v.pfx.v4 then s.limitV4 else s.limitV6) = some limit → v.pfx.len ≤ limit) := by
  unfold validatedOrigins rawOrigins
  simp only [List.mem_flatMap, List.mem_map, List.mem_filter]
  constructor
  · rintro ⟨p, hp, roa, hr, v, ⟨hv, hl⟩, rfl⟩
    refine ⟨p, hp, roa, hr, v, hv, rfl, ?_⟩
    intro limit hlim
    unfold withinLimit at hl
    rw [hlim] at hl
    simpa using hl
  · rintro ⟨p, hp, roa, hr, v, hv, rfl, hl⟩
    refine ⟨p, hp, roa, hr, v, ⟨hv, ?_⟩, rfl⟩
    unfold withinLimit
    cases hlim : (if v.pfx.v4 then s.limitV4 else s.limitV6) with
    | none => rfl
    | some limit => have := hl limit hlim; simp; omega

/-- Each distinct origin appears once. -/
theorem C09_origins_nodup (s : Settings) (κo : Origin → Nat) (κk : RouterKey → Nat)
    (points : List RawPoint) (certs : List CertResources) (e : Exceptions) :
    (served s κo κk points certs e).origins.Nodup := by
  rw [served_eq]
  exact nodup_sortBy _ _ (nodup_originLane s points certs e)

/-- The served origins are strictly sorted in the payload order. -/
theorem C09_origins_sorted (s : Settings) (κo : Origin → Nat) (κk : RouterKey → Nat)
    (points : List RawPoint) (certs : List CertResources) (e : Exceptions)
    (hκ : InjOn κo (validatedOrigins s points ++ e.originAssertions)) :
    (served s κo κk points certs e).origins.Pairwise (fun a b => κo a < κo b) := by
  rw [served_eq]
  apply strict_sortBy _ _ (nodup_originLane s points certs e)
  intro a ha b hb
  apply hκ
  · rcases (mem_originLane s points certs e a).1 ha with h | h
    · exact List.mem_append.2 (Or.inl h.1)
    · exact List.mem_append.2 (Or.inr h)
  · rcases (mem_originLane s points certs e b).1 hb with h | h
    · exact List.mem_append.2 (Or.inl h.1)
    · exact List.mem_append.2 (Or.inr h)

/-! ### Router keys -/

/-- Router keys: one per ASN of each validated router certificate (only when BGPsec is
enabled), minus SLURM-filtered ones, plus the SLURM assertions. -/
theorem C09_routerKeys_mem (s : Settings) (κo : Origin → Nat) (κk : RouterKey → Nat)
    (points : List RawPoint) (certs : List CertResources) (e : Exceptions) (k : RouterKey) :
    k ∈ (served s κo κk points certs e).routerKeys ↔
      (k ∈ validatedKeys s points ∧ e.dropRouterKey k = false) ∨ k ∈ e.routerKeyAssertions := by
  rw [served_eq]
  simp only [mem_sortBy, mem_keyLane]

theorem C09_validatedKeys_mem (s : Settings) (points : List RawPoint) (k : RouterKey) :
    k ∈ validatedKeys s points ↔
      s.enableBgpsec = true ∧ ∃ p ∈ points, ∃ c ∈ p.routerCerts,
        k.keyId = c.keyId ∧ k.info = c.info ∧ ∃ b ∈ c.asns, b.1 ≤ k.asn ∧ k.asn ≤ b.2 := by
  unfold validatedKeys
  cases s.enableBgpsec
  · simp
  · simp only [if_true, List.mem_flatMap, mem_certKeys, true_and]

/-- With BGPsec disabled only locally asserted router keys are served. -/
theorem C09_routerKeys_disabled (s : Settings) (κo : Origin → Nat) (κk : RouterKey → Nat)
    (points : List RawPoint) (certs : List CertResources) (e : Exceptions)
    (h : s.enableBgpsec = false) (k : RouterKey) :
    k ∈ (served s κo κk points certs e).routerKeys ↔ k ∈ e.routerKeyAssertions := by
  rw [C09_routerKeys_mem]
  simp [validatedKeys, h]

theorem C09_routerKeys_nodup (s : Settings) (κo : Origin → Nat) (κk : RouterKey → Nat)
    (points : List RawPoint) (certs : List CertResources) (e : Exceptions) :
    (served s κo κk points certs e).routerKeys.Nodup := by
  rw [served_eq]
  exact nodup_sortBy _ _ (nodup_keyLane s points e)

theorem C09_routerKeys_sorted (s : Settings) (κo : Origin → Nat) (κk : RouterKey → Nat)
    (points : List RawPoint) (certs : List CertResources) (e : Exceptions)
    (hκ : InjOn κk (validatedKeys s points ++ e.routerKeyAssertions)) :
    (served s κo κk points certs e).routerKeys.Pairwise (fun a b => κk a < κk b) := by
  rw [served_eq]
  apply strict_sortBy _ _ (nodup_keyLane s points e)
  intro a ha b hb
  apply hκ
  · rcases (mem_keyLane s points e a).1 ha with h | h
    · exact List.mem_append.2 (Or.inl h.1)
    · exact List.mem_append.2 (Or.inr h)
  · rcases (mem_keyLane s points e b).1 hb with h | h
    · exact List.mem_append.2 (Or.inl h.1)
    · exact List.mem_append.2 (Or.inr h)

/-! ### ASPAs -/

/-- ASPAs: `(c, ps)` is served iff some validated ASPA has customer `c`, `ps` is the ascending
list of exactly the providers of all validated ASPAs for `c` (their union), and that union
has at most 16380 members. Validated ASPA provider sets are ascending (`ProviderAsSet`). -/
theorem C09_aspas_mem (s : Settings) (κo : Origin → Nat) (κk : RouterKey → Nat)
    (points : List RawPoint) (certs : List CertResources) (e : Exceptions)
    (hasc : ∀ a ∈ validatedAspas s points, Ascending a.providers) (c : Nat) (ps : List Nat) :
    (c, ps) ∈ (served s κo κk points certs e).aspas ↔
      ((∃ a ∈ validatedAspas s points, a.customer = c)
        ∧ Ascending ps
        ∧ (∀ x, x ∈ ps ↔ ∃ a ∈ validatedAspas s points, a.customer = c ∧ x ∈ a.providers))
      ∧ ps.length ≤ 16380 := by
  rw [served_eq]
  exact mem_aspaFinal s points hasc c ps

/-- At most one ASPA per customer, sorted by customer. -/
theorem C09_aspas_sorted (s : Settings) (κo : Origin → Nat) (κk : RouterKey → Nat)
    (points : List RawPoint) (certs : List CertResources) (e : Exceptions)
    (hasc : ∀ a ∈ validatedAspas s points, Ascending a.providers) :
    (served s κo κk points certs e).aspas.Pairwise (fun a b => a.1 < b.1) := by
  rw [served_eq]
  exact aspaFinal_sorted s points hasc

/-- With ASPA disabled no ASPA is served. -/
theorem C09_aspas_disabled (s : Settings) (κo : Origin → Nat) (κk : RouterKey → Nat)
    (points : List RawPoint) (certs : List CertResources) (e : Exceptions)
    (h : s.enableAspa = false) : (served s κo κk points certs e).aspas = [] := by
  rw [served_eq]
  simp [aspaLane, validatedAspas, h, sortBy]

/-- A customer whose provider union exceeds the encoding limit is not served at all. -/
theorem C09_aspas_too_large (s : Settings) (κo : Origin → Nat) (κk : RouterKey → Nat)
    (points : List RawPoint) (certs : List CertResources) (e : Exceptions)
    (hasc : ∀ a ∈ validatedAspas s points, Ascending a.providers) (c : Nat) (ps : List Nat)
    (hps : Ascending ps)
    (hunion : ∀ x, x ∈ ps ↔ ∃ a ∈ validatedAspas s points, a.customer = c ∧ x ∈ a.providers)
    (hbig : ps.length > 16380) (qs : List Nat) :
    (c, qs) ∉ (served s κo κk points certs e).aspas := by
  intro hm
  obtain ⟨⟨_, hq1, hq2⟩, hlen⟩ := (C09_aspas_mem s κo κk points certs e hasc c qs).1 hm
  have : qs = ps := ascending_ext _ _ hq1 hps (fun x => by rw [hq2 x, hunion x])
  subst this
  omega

/-! ### Order independence -/

/-- The served snapshot only depends on the *sets* of validated payload, of unsafe prefixes
and of exceptions: two runs that agree on those serve identical snapshots, whatever the order
in which publication points were committed (the `SegQueue` pop order), objects were processed
within a point, certificates were rejected or exception files were loaded. -/
theorem C09_extensional (s : Settings) (κo : Origin → Nat) (κk : RouterKey → Nat)
    (points points' : List RawPoint) (certs certs' : List CertResources) (e e' : Exceptions)
    (hκo : InjOn κo (validatedOrigins s points ++ e.originAssertions))
    (hκk : InjOn κk (validatedKeys s points ++ e.routerKeyAssertions))
    (hasc : ∀ a ∈ validatedAspas s points, Ascending a.providers)
    (hasc' : ∀ a ∈ validatedAspas s points', Ascending a.providers)
    (ho : ∀ o, o ∈ validatedOrigins s points ↔ o ∈ validatedOrigins s points')
    (hk : ∀ k, k ∈ validatedKeys s points ↔ k ∈ validatedKeys s points')
    (hac : ∀ c, (∃ a ∈ validatedAspas s points, a.customer = c)
      ↔ (∃ a ∈ validatedAspas s points', a.customer = c))
    (hap : ∀ c x, (∃ a ∈ validatedAspas s points, a.customer = c ∧ x ∈ a.providers)
      ↔ (∃ a ∈ validatedAspas s points', a.customer = c ∧ x ∈ a.providers))
    (hu : ∀ p, Unsafe certs p ↔ Unsafe certs' p)
    (hdo : ∀ o, e.dropOrigin o = e'.dropOrigin o)
    (hdk : ∀ k, e.dropRouterKey k = e'.dropRouterKey k)
    (hoa : ∀ o, o ∈ e.originAssertions ↔ o ∈ e'.originAssertions)
    (hka : ∀ k, k ∈ e.routerKeyAssertions ↔ k ∈ e'.routerKeyAssertions) :
    served s κo κk points certs e = served s κo κk points' certs' e' := by
  rw [served_eq, served_eq]
  have h1 : sortBy κo (originLane s points certs e) = sortBy κo (originLane s points' certs' e') := by
    apply sortBy_congr κo _ _ (nodup_originLane ..) (nodup_originLane ..)
    · intro a ha b hb
      apply hκo
      · rcases (mem_originLane s points certs e a).1 ha with h | h
        · exact List.mem_append.2 (Or.inl h.1)
        · exact List.mem_append.2 (Or.inr h)
      · rcases (mem_originLane s points certs e b).1 hb with h | h
        · exact List.mem_append.2 (Or.inl h.1)
        · exact List.mem_append.2 (Or.inr h)
    · intro x
      rw [mem_originLane, mem_originLane, ho x, hu x.pfx, hdo x, hoa x]
  have h2 : sortBy κk (keyLane s points e) = sortBy κk (keyLane s points' e') := by
    apply sortBy_congr κk _ _ (nodup_keyLane ..) (nodup_keyLane ..)
    · intro a ha b hb
      apply hκk
      · rcases (mem_keyLane s points e a).1 ha with h | h
        · exact List.mem_append.2 (Or.inl h.1)
        · exact List.mem_append.2 (Or.inr h)
      · rcases (mem_keyLane s points e b).1 hb with h | h
        · exact List.mem_append.2 (Or.inl h.1)
        · exact List.mem_append.2 (Or.inr h)
    · intro x
      rw [mem_keyLane, mem_keyLane, hk x, hdk x, hka x]
  have h3 := aspaFinal_congr s points points' hasc hasc'
    (aspaEntry_congr _ _ hac hap)
  unfold aspaFinal at h3
  rw [h1, h2, h3]

/-- Permuting the publication points (and the rejected certificates) changes nothing. -/
theorem C09_perm_points (s : Settings) (κo : Origin → Nat) (κk : RouterKey → Nat)
    (points points' : List RawPoint) (certs certs' : List CertResources) (e : Exceptions)
    (hκo : InjOn κo (validatedOrigins s points ++ e.originAssertions))
    (hκk : InjOn κk (validatedKeys s points ++ e.routerKeyAssertions))
    (hasc : ∀ a ∈ validatedAspas s points, Ascending a.providers)
    (hp : points.Perm points') (hc : certs.Perm certs') :
    served s κo κk points certs e = served s κo κk points' certs' e := by
  have hmem : ∀ {β : Type} (f : RawPoint → List β) (x : β),
      x ∈ points.flatMap f ↔ x ∈ points'.flatMap f := by
    intro β f x
    simp only [List.mem_flatMap]
    constructor
    · rintro ⟨p, h1, h2⟩; exact ⟨p, hp.mem_iff.1 h1, h2⟩
    · rintro ⟨p, h1, h2⟩; exact ⟨p, hp.mem_iff.2 h1, h2⟩
  have hva : ∀ a, a ∈ validatedAspas s points ↔ a ∈ validatedAspas s points' := by
    intro a
    unfold validatedAspas
    cases s.enableAspa
    · simp
    · simp only [if_true]; exact hmem _ a
  apply C09_extensional s κo κk points points' certs certs' e e hκo hκk hasc
  · intro a ha; exact hasc a ((hva a).2 ha)
  · intro o; exact hmem _ o
  · intro k
    unfold validatedKeys
    cases s.enableBgpsec
    · simp
    · simp only [if_true]; exact hmem _ k
  · intro c
    constructor
    · rintro ⟨a, ha, h⟩; exact ⟨a, (hva a).1 ha, h⟩
    · rintro ⟨a, ha, h⟩; exact ⟨a, (hva a).2 ha, h⟩
  · intro c x
    constructor
    · rintro ⟨a, ha, h⟩; exact ⟨a, (hva a).1 ha, h⟩
    · rintro ⟨a, ha, h⟩; exact ⟨a, (hva a).2 ha, h⟩
  · intro p
    unfold Unsafe
    constructor
    · rintro ⟨c, h1, h2⟩; exact ⟨c, hc.mem_iff.1 h1, h2⟩
    · rintro ⟨c, h1, h2⟩; exact ⟨c, hc.mem_iff.2 h1, h2⟩
  · intro _; rfl
  · intro _; rfl
  · intro _; rfl
  · intro _; rfl

/-- Permuting the objects within one publication point changes nothing either. -/
theorem C09_perm_within (s : Settings) (κo : Origin → Nat) (κk : RouterKey → Nat)
    (pre post : List RawPoint) (p q : RawPoint) (certs : List CertResources) (e : Exceptions)
    (hκo : InjOn κo (validatedOrigins s (pre ++ p :: post) ++ e.originAssertions))
    (hκk : InjOn κk (validatedKeys s (pre ++ p :: post) ++ e.routerKeyAssertions))
    (hasc : ∀ a ∈ validatedAspas s (pre ++ p :: post), Ascending a.providers)
    (hr : p.roas.Perm q.roas) (hc : p.routerCerts.Perm q.routerCerts) (ha : p.aspas.Perm q.aspas) :
    served s κo κk (pre ++ p :: post) certs e = served s κo κk (pre ++ q :: post) certs e := by
  have hmem : ∀ {β : Type} (f : RawPoint → List β), (∀ x, x ∈ f p ↔ x ∈ f q) → ∀ x,
      x ∈ (pre ++ p :: post).flatMap f ↔ x ∈ (pre ++ q :: post).flatMap f := by
    intro β f hf x
    simp only [List.flatMap_append, List.flatMap_cons, List.mem_append, hf x]
  have hva : ∀ a, a ∈ validatedAspas s (pre ++ p :: post) ↔ a ∈ validatedAspas s (pre ++ q :: post) := by
    intro a
    unfold validatedAspas
    cases s.enableAspa
    · simp
    · simp only [if_true]; exact hmem _ (fun x => ha.mem_iff) a
  apply C09_extensional s κo κk _ _ certs certs e e hκo hκk hasc
  · intro a h; exact hasc a ((hva a).2 h)
  · intro o
    unfold validatedOrigins
    apply hmem
    intro x
    unfold rawOrigins
    simp only [List.mem_flatMap]
    constructor
    · rintro ⟨r, h1, h2⟩; exact ⟨r, hr.mem_iff.1 h1, h2⟩
    · rintro ⟨r, h1, h2⟩; exact ⟨r, hr.mem_iff.2 h1, h2⟩
  · intro k
    unfold validatedKeys
    cases s.enableBgpsec
    · simp
    · simp only [if_true]
      apply hmem
      intro x
      simp only [List.mem_flatMap]
      constructor
      · rintro ⟨r, h1, h2⟩; exact ⟨r, hc.mem_iff.1 h1, h2⟩
      · rintro ⟨r, h1, h2⟩; exact ⟨r, hc.mem_iff.2 h1, h2⟩
  · intro c
    constructor
    · rintro ⟨a, h1, h⟩; exact ⟨a, (hva a).1 h1, h⟩
    · rintro ⟨a, h1, h⟩; exact ⟨a, (hva a).2 h1, h⟩
  · intro c x
    constructor
    · rintro ⟨a, h1, h⟩; exact ⟨a, (hva a).1 h1, h⟩
    · rintro ⟨a, h1, h⟩; exact ⟨a, (hva a).2 h1, h⟩
  · intro _; exact Iff.rfl
  · intro _; rfl
  · intro _; rfl
  · intro _; exact Iff.rfl
  · intro _; exact Iff.rfl

/-! ### Non-vacuity -/

section Examples
private def p10_8 : Prefix := ⟨true, 8, 0x0a000000#128 <<< 96⟩
private def p10_1_16 : Prefix := ⟨true, 16, 0x0a010000#128 <<< 96⟩
private def p10_1_1_24 : Prefix := ⟨true, 24, 0x0a010100#128 <<< 96⟩
private def p10_1_1_128_25 : Prefix := ⟨true, 25, 0x0a010180#128 <<< 96⟩
private def exSettings : Settings := ⟨true, true, some 24, none, .reject⟩
private def exPoints : List RawPoint :=
  [ ⟨[[⟨p10_8, none, 1⟩, ⟨p10_1_1_24, none, 2⟩, ⟨p10_1_1_128_25, none, 2⟩]], [⟨[(5, 6)], 7, 7⟩],
      [⟨65000, [1, 3]⟩]⟩,
    ⟨[[⟨p10_8, some 8, 1⟩, ⟨p10_1_16, some 20, 3⟩]], [], [⟨65000, [2, 3]⟩, ⟨65001, [9]⟩]⟩ ]
-- the rejected CA holds 10.1.0.0/16 (as a block) and 0.0.0.0/0 (ignored)
private def exCerts : List CertResources :=
  [⟨[⟨p10_1_16.minAddr, p10_1_16.maxAddr, some 16⟩, ⟨0, 2 ^ 128 - 1, some 0⟩], []⟩]
private def exExc : Exceptions :=
  ⟨[⟨none, some 1⟩], [⟨none, some 6⟩], [⟨p10_1_1_24, 24, 9⟩], []⟩
private def exRankO (o : Origin) : Nat := o.pfx.bits.toNat * 1000 + o.maxLen + o.asn
private def exRankK (k : RouterKey) : Nat := k.asn

/-- /25 is over the limit, 10.1.x is unsafe, AS1 is filtered, the assertion (inside the
unsafe block) is added; one router key is filtered; ASPAs for 65000 are merged. -/
example : (served exSettings exRankO exRankK exPoints exCerts exExc).origins
      = [⟨p10_1_1_24, 24, 9⟩] ∧
    (served exSettings exRankO exRankK exPoints exCerts exExc).routerKeys = [⟨7, 5, 7⟩] := by decide
example : aspaLane exSettings exPoints = [(65000, [1, 2, 3]), (65001, [9])] := by
  simp [aspaLane, validatedAspas, exSettings, exPoints, aspaStep, List.lookup, replaceKey, asnUnion]
-- implicit and explicit max length of 10.0.0.0/8 AS1 are one item
example : (served { exSettings with unsafeVrps := .warn } exRankO exRankK exPoints exCerts
      ⟨[], [], [], []⟩).origins.length = 3 := by decide
example : ∀ a ∈ validatedAspas exSettings exPoints, Ascending a.providers := by
  intro a ha
  simp only [validatedAspas, exSettings, exPoints, if_true, List.flatMap_cons, List.flatMap_nil,
    List.append_nil, List.cons_append, List.nil_append, List.mem_cons, List.not_mem_nil,
    or_false] at ha
  rcases ha with rfl | rfl | rfl <;> simp [Ascending]
end Examples

end RoutinatorModel
