import RoutinatorModel.Model.Listener
/-!
# C19 — the RTR listener keeps accepting after a failed connection setup

Model: `Model/Listener.lean` (`Listener.sys true` = `RtrListener::poll_next` after
fixes/C19-listener-wakeup.patch, `Listener.sys false` = the pinned commit). All sequences of
client connections, any subset of which fails the per-connection setup (the `ok` argument of the
`poll` label is arbitrary at every accept).

Partial: tokio's reactor (edge-triggered readiness cache + waker slot) and the kernel accept
queue are modelled, not verified; accept errors (`poll_accept = Ready(Err)`) are assumed away.
-/
namespace RoutinatorModel
open Listener

namespace Listener

/-- The inductive invariant of the repaired listener. -/
structure Inv (s : St) : Prop where
  signalled : 0 < s.queue → s.ready = true ∨ s.event = true
  parkedWaker : s.task = .parked → s.waker = true
  parkedNotReady : s.task = .parked → s.ready = false
  conserve : s.queue + s.served + s.closed = s.arrived
  wakerParked : s.waker = true → s.task = .parked

theorem inv_init : Inv St.init := by
  constructor <;> simp [St.init]

theorem inv_step (s : St) (l : Label) (s' : St) (h : Inv s) (hs : step true s l = some s') :
    Inv s' := by
  obtain ⟨h1, h2, h3, h4⟩ := h
  cases l with
  | arrive =>
    simp only [step] at hs; injection hs with hs; subst hs
    constructor <;> simp_all <;> omega
  | reactor =>
    simp only [step] at hs
    split at hs
    · split at hs <;> (injection hs with hs; subst hs; constructor <;> simp_all)
      -- no waker registered: the task cannot be parked
      all_goals (intro hp; have := h2 hp; simp_all)
    · simp at hs
  | poll ok =>
    simp only [step] at hs
    split at hs
    · simp at hs
    · split at hs
      · split at hs
        · injection hs with hs; subst hs; constructor <;> simp_all
        · rename_i q hq
          split at hs
          · injection hs with hs; subst hs; constructor <;> simp_all <;> omega
          · simp only [if_true] at hs
            injection hs with hs; subst hs; constructor <;> simp_all <;> omega
      · injection hs with hs; subst hs
        constructor <;> simp_all

theorem inv_reach : ∀ s, Reach (sys true) s → Inv s :=
  inv_of_inductive (S := sys true) Inv inv_init inv_step

/-- Decreases with every internal step: the server always comes to rest. -/
def measure (s : St) : Nat :=
  3 * s.queue + (if s.event then 2 else 0) + (if s.task = .scheduled then 1 else 0)

end Listener

/-- Safety form of the property: whenever connections are waiting while the listener task is
parked, its waker is registered and the event that will fire it is pending — no lost wake-up. -/
theorem C19_no_lost_wakeup {s : St} (h : Reach (sys true) s) (hp : s.task = .parked)
    (hq : 0 < s.queue) : s.waker = true ∧ s.event = true := by
  have hi := inv_reach s h
  refine ⟨hi.parkedWaker hp, ?_⟩
  rcases hi.signalled hq with hr | he
  · rw [hi.parkedNotReady hp] at hr; cases hr
  · exact he

theorem run_cons_some {S : Sys} {s s1 : S.State} {l : S.Label} {ls : List S.Label}
    (h : S.step s l = some s1) : S.run s (l :: ls) = S.run s1 ls := by
  simp [Sys.run, h]

theorem run_cons_none {S : Sys} {s : S.State} {l : S.Label} {ls : List S.Label}
    (h : S.step s l = none) : S.run s (l :: ls) = none := by
  simp [Sys.run, h]

/-- Progress: from every reachable state with a waiting connection, at most two internal steps
(no further client activity needed, whatever the outcome `ok` of that connection's setup) hand
the next connection to the server or close it. -/
theorem C19_progress {s : St} (h : Reach (sys true) s) (hq : 0 < s.queue) (ok : Bool) :
    ∃ (ls : List Label) (s' : St), (∀ l ∈ ls, l.internal = true) ∧ ls.length ≤ 2 ∧
      (sys true).run s ls = some s' ∧ s'.served + s'.closed = s.served + s.closed + 1 := by
  have hi := inv_reach s h
  obtain ⟨q, hq'⟩ : ∃ q, s.queue = q + 1 := ⟨s.queue - 1, by omega⟩
  -- the state after the reactor step, if one is needed
  have accept : ∀ s1 : St, s1.task = .scheduled → s1.ready = true → s1.queue = q + 1 →
      ∃ s2, step true s1 (.poll ok) = some s2 ∧
        s2.served + s2.closed = s1.served + s1.closed + 1 := by
    intro s1 ht hr hq1
    cases ok with
    | true =>
      exact ⟨{ s1 with queue := q, served := s1.served + 1 }, by simp [step, ht, hr, hq1],
        by simp; omega⟩
    | false =>
      exact ⟨{ s1 with queue := q, closed := s1.closed + 1 }, by simp [step, ht, hr, hq1],
        by simp; omega⟩
  by_cases hr : s.ready = true
  · -- cached readiness: the task cannot be parked, one poll accepts
    have ht : s.task = .scheduled := by
      cases ht : s.task with
      | scheduled => rfl
      | parked => have := hi.parkedNotReady ht; rw [hr] at this; cases this
    obtain ⟨s2, h2, hc⟩ := accept s ht hr hq'
    refine ⟨[.poll ok], s2, ?_, by simp, ?_, hc⟩
    · intro l hl; simp only [List.mem_cons, List.not_mem_nil, or_false] at hl; subst hl; rfl
    · exact (run_cons_some (S := sys true) (s := s) (l := Label.poll ok) (ls := []) h2).trans rfl
  · -- no cached readiness: the event is pending; the reactor sets readiness and, if the task
    -- is parked, wakes it through the registered waker
    have hr' : s.ready = false := by simpa using hr
    have he : s.event = true := by
      rcases hi.signalled hq with h1 | h1
      · exact absurd h1 hr
      · exact h1
    have hstep : ∃ s1, step true s .reactor = some s1 ∧ s1.task = .scheduled ∧ s1.ready = true ∧
        s1.queue = q + 1 ∧ s1.served = s.served ∧ s1.closed = s.closed := by
      cases hw : s.waker with
      | true =>
        exact ⟨{ s with event := false, ready := true, waker := false, task := .scheduled },
          by simp [step, he, hw], rfl, rfl, hq', rfl, rfl⟩
      | false =>
        have ht : s.task = .scheduled := by
          cases ht : s.task with
          | scheduled => rfl
          | parked => have := hi.parkedWaker ht; rw [hw] at this; cases this
        exact ⟨{ s with event := false, ready := true },
          by simp [step, he, hw], ht, rfl, hq', rfl, rfl⟩
    obtain ⟨s1, h1, ht1, hr1, hq1, hs1, hc1⟩ := hstep
    obtain ⟨s2, h2, hc⟩ := accept s1 ht1 hr1 hq1
    refine ⟨[.reactor, .poll ok], s2, ?_, by simp, ?_, by omega⟩
    · intro l hl
      simp only [List.mem_cons, List.not_mem_nil, or_false] at hl
      rcases hl with rfl | rfl <;> rfl
    · exact (run_cons_some (S := sys true) (s := s) (l := Label.reactor) (ls := [Label.poll ok]) h1).trans
        ((run_cons_some (S := sys true) (s := s1) (l := Label.poll ok) (ls := []) h2).trans rfl)

/-- Conservation: every connection that arrived is waiting, served or closed. -/
theorem C19_conservation {s : St} (h : Reach (sys true) s) :
    s.queue + s.served + s.closed = s.arrived := (inv_reach s h).conserve

/-- At rest (no internal step enabled) no connection is left waiting: every connection that ever
arrived — before or after any failed setup — has been handed to the server or, if its setup
failed, closed. -/
theorem C19_quiescent_all_handled {s : St} (h : Reach (sys true) s)
    (hrest : ∀ l : Label, l.internal = true → step true s l = none) :
    s.queue = 0 ∧ s.served + s.closed = s.arrived := by
  have hc := C19_conservation h
  have hq : s.queue = 0 := by
    cases hq : s.queue with
    | zero => rfl
    | succ q =>
      obtain ⟨ls, s', hint, _, hrun, hcnt⟩ := C19_progress h (by omega : 0 < s.queue) true
      cases ls with
      | nil =>
        simp only [Sys.run] at hrun; injection hrun with hrun; subst hrun; omega
      | cons l rest =>
        have hl := hint l (List.mem_cons_self ..)
        have hnone := hrest l hl
        have e : none = some s' :=
          (run_cons_none (S := sys true) (s := s) (l := l) (ls := rest) hnone).symm.trans hrun
        cases e
  exact ⟨hq, by omega⟩

/-- Every internal step decreases `measure`: without new arrivals the server comes to rest after
finitely many steps (and then, by `C19_quiescent_all_handled`, nothing is left waiting). -/
theorem C19_internal_terminates {s s' : St} {l : Label} (hl : l.internal = true)
    (hs : step true s l = some s') : Listener.measure s' < Listener.measure s := by
  cases l with
  | arrive => cases hl
  | reactor =>
    simp only [step] at hs
    split at hs
    · rename_i he
      split at hs <;> (injection hs with hs; subst hs) <;>
        (by_cases hts : s.task = Task.scheduled <;> simp [Listener.measure, he, hts])
    · simp at hs
  | poll ok =>
    simp only [step] at hs
    split at hs
    · simp at hs
    · rename_i ht
      split at hs
      · split at hs
        · injection hs with hs; subst hs; simp [Listener.measure, ht]
        · rename_i q hq
          split at hs
          · injection hs with hs; subst hs; simp only [Listener.measure, ht, hq]; omega
          · simp only [if_true] at hs
            injection hs with hs; subst hs; simp only [Listener.measure, ht, hq]; omega
      · injection hs with hs; subst hs; simp [Listener.measure, ht]

/-! ### The listener at the pinned commit loses the wake-up -/

/-- The task parks with its waker; a client connects and is woken up for; its setup fails and
`poll_next` returns `Pending` with no waker registered; the next client connects and nobody is
there to be woken. -/
def lostWakeupSchedule : List Label :=
  [.poll true, .arrive, .reactor, .poll false, .arrive, .reactor]

theorem C19_old_lost_wakeup :
    ∃ s, Reach (sys false) s ∧ s.queue = 1 ∧ s.task = .parked ∧ s.waker = false ∧
      ∀ l : Label, l.internal = true → step false s l = none := by
  refine ⟨((sys false).run (sys false).init lostWakeupSchedule).getD St.init, ?_, rfl, rfl, rfl, ?_⟩
  · exact reach_of_run_init (S := sys false) lostWakeupSchedule (by rfl)
  · intro l hl
    cases l with
    | arrive => cases hl
    | reactor => rfl
    | poll ok => rfl

/-- So `C19_quiescent_all_handled` is false for the pinned commit. -/
theorem C19_old_not_all_handled :
    ¬ ∀ s, Reach (sys false) s → (∀ l : Label, l.internal = true → step false s l = none) →
      s.queue = 0 := by
  intro hall
  obtain ⟨s, hr, hq, _, _, hrest⟩ := C19_old_lost_wakeup
  have := hall s hr hrest
  omega

/-! ### Non-vacuity -/

/-- The same client behaviour against the repaired listener: the second connection is accepted
(here its setup succeeds) although the first one failed. -/
def recoveredSchedule : List Label :=
  [.poll true, .arrive, .reactor, .poll false, .arrive, .reactor, .poll true]

example : ∃ s, Reach (sys true) s ∧ s.closed = 1 ∧ s.served = 1 ∧ s.queue = 0 ∧ s.arrived = 2 := by
  refine ⟨((sys true).run (sys true).init recoveredSchedule).getD St.init, ?_, rfl, rfl, rfl, rfl⟩
  exact reach_of_run_init (S := sys true) recoveredSchedule (by rfl)

end RoutinatorModel
