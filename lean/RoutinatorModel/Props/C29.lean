import RoutinatorModel.Model.Collector
/-!
# C29 — RRDP-to-rsync fallback follows the documented policy table

The statement's table, as a specification written independently of the code's control flow, and
the proof that `repository` (the transcription of `collector::Run::repository`) realises it on the
full product policy × RRDP outcome × RRDP enabled × rsync enabled × rpkiNotify present (3·4·2·2·2 =
96 rows). The domain is finite; the proofs split on every variable, i.e. they enumerate all rows.
-/
namespace RoutinatorModel
open Collector

/-- The statement: when is rsync the transport (provided rsync is enabled)? -/
def C29.wantsRsync (policy : Policy) (rrdpEnabled hasNotify : Bool) (o : Outcome) : Prop :=
  -- a CA without an RRDP URI is fetched with rsync
  hasNotify = false ∨
  -- for a CA announcing RRDP, rsync is used exactly when RRDP is disabled …
  rrdpEnabled = false ∨
  -- … or the update failed with no local copy and the policy is `new` or `stale` …
  (o = .unavailable ∧ (policy = .new ∨ policy = .stale)) ∨
  -- … or it failed with an expired local copy and the policy is `stale`
  (o = .stale ∧ policy = .stale)

instance (p : Policy) (re hn : Bool) (o : Outcome) : Decidable (C29.wantsRsync p re hn o) := by
  unfold C29.wantsRsync; exact inferInstance

/-- rsync is used exactly in the rows the statement lists (and only if rsync is enabled). -/
theorem C29_rsync_iff (p : Policy) (re rs hn : Bool) (o : Outcome) :
    repository p re rs hn o = .rsync ↔ (rs = true ∧ C29.wantsRsync p re hn o) := by
  cases p <;> cases re <;> cases rs <;> cases hn <;> cases o <;> decide

/-- RRDP is used exactly when the CA announces it, RRDP is enabled and the update succeeded:
a successful RRDP update is always used, whatever the policy. -/
theorem C29_rrdp_iff (p : Policy) (re rs hn : Bool) (o : Outcome) :
    repository p re rs hn o = .rrdp ↔ (hn = true ∧ re = true ∧ o = .updated) := by
  cases p <;> cases re <;> cases rs <;> cases hn <;> cases o <;> decide

/-- A failed update with a current copy never falls back: neither transport is used (the stored
data is used instead), under every policy and whether or not rsync is enabled. -/
theorem C29_current_never_falls_back (p : Policy) (rs : Bool) :
    repository p true rs true .current = .none := by
  cases p <;> cases rs <;> decide

/-- Nothing is used exactly in the remaining rows: rsync wanted but disabled, or RRDP consulted,
failed, and the policy forbids falling back. -/
theorem C29_none_iff (p : Policy) (re rs hn : Bool) (o : Outcome) :
    repository p re rs hn o = .none ↔
      ((rs = false ∧ C29.wantsRsync p re hn o) ∨
       (hn = true ∧ re = true ∧ o ≠ .updated ∧ ¬ C29.wantsRsync p re hn o)) := by
  cases p <;> cases re <;> cases rs <;> cases hn <;> cases o <;> decide

/-- The whole table at once, as one decided statement over the 96 rows. -/
theorem C29_table :
    ∀ p ∈ [Policy.never, .stale, .new], ∀ o ∈ [Outcome.updated, .current, .stale, .unavailable],
    ∀ re ∈ [true, false], ∀ rs ∈ [true, false], ∀ hn ∈ [true, false],
      repository p re rs hn o =
        (if hn = true ∧ re = true ∧ o = .updated then Transport.rrdp
         else if decide (C29.wantsRsync p re hn o) && rs then .rsync
         else .none) := by
  decide +kernel

/-- The outcome classes are what the statement calls them. -/
theorem C29_classify (ok copy expired : Bool) :
    (classify ok copy expired = .updated ↔ ok = true) ∧
    (classify ok copy expired = .current ↔ ok = false ∧ copy = true ∧ expired = false) ∧
    (classify ok copy expired = .stale ↔ ok = false ∧ copy = true ∧ expired = true) ∧
    (classify ok copy expired = .unavailable ↔ ok = false ∧ copy = false) := by
  cases ok <;> cases copy <;> cases expired <;> decide

/-- RRDP is not even asked when it is disabled or the CA has no rpkiNotify URI: the outcome is
irrelevant in those rows. -/
theorem C29_outcome_irrelevant (p : Policy) (re rs hn : Bool) (o o' : Outcome)
    (h : asksRrdp re hn = false) : repository p re rs hn o = repository p re rs hn o' := by
  cases p <;> cases re <;> cases rs <;> cases hn <;> cases o <;> cases o' <;> first | rfl | simp [asksRrdp] at h

/-! ## The outcome classes are decided by the stored best-before time and the clock alone -/

/-- What the statement calls the outcome classes, in terms of what is stored and the clock:
a failed update leaves a *current* copy iff there is a copy whose stored best-before time has not
passed, an *expired* one iff it has passed, *no copy* iff nothing is stored. -/
theorem C29_outcome_iff (cfg : RunConfig) (ok : Bool) (stored : Option Nat) (now : Nat) :
    (tryUpdateOutcome cfg ok stored now = .updated ↔ ok = true) ∧
    (tryUpdateOutcome cfg ok stored now = .current ↔ ok = false ∧ ∃ bb, stored = some bb ∧ now ≤ bb) ∧
    (tryUpdateOutcome cfg ok stored now = .stale ↔ ok = false ∧ ∃ bb, stored = some bb ∧ bb < now) ∧
    (tryUpdateOutcome cfg ok stored now = .unavailable ↔ ok = false ∧ stored = none) := by
  cases ok <;> cases stored with
  | none => simp [tryUpdateOutcome]
  | some bb =>
    by_cases h : now ≤ bb
    · simp [tryUpdateOutcome, h]; try omega
    · simp [tryUpdateOutcome, h]; try omega

/-- The classification depends on nothing but (update result, stored best-before, now): in
particular not on the `refresh` / `rrdp-fallback-time` of the configuration that happens to be
running now (the stored time was picked under whatever configuration was in effect then). A model
of code that consults the running configuration here does not satisfy this. -/
theorem C29_outcome_config_independent (cfg cfg' : RunConfig) (ok : Bool) (stored : Option Nat)
    (now : Nat) : tryUpdateOutcome cfg ok stored now = tryUpdateOutcome cfg' ok stored now := rfl

/-- End to end: whatever the running configuration, the policy and the rsync switch — a failed
update with a copy whose stored best-before has not passed never falls back and uses no
transport at all (the stored data is used instead). -/
theorem C29_current_copy_never_falls_back (cfg : RunConfig) (p : Policy) (rs : Bool)
    (bb now : Nat) (h : now ≤ bb) :
    repository p true rs true (tryUpdateOutcome cfg false (some bb) now) = .none := by
  simp only [tryUpdateOutcome, h, if_true]
  exact C29_current_never_falls_back p rs

/-- … and with an expired copy rsync is used exactly under the policy `stale`. -/
theorem C29_expired_copy (cfg : RunConfig) (p : Policy) (bb now : Nat) (h : bb < now) :
    repository p true true true (tryUpdateOutcome cfg false (some bb) now) =
      (if p = .stale then .rsync else .none) := by
  have : ¬ now ≤ bb := by omega
  simp only [tryUpdateOutcome, this]
  cases p <;> decide

/-- A CA whose rpkiNotify URI is rejected as dubious still announces RRDP: the load is
`unavailable` (whatever is stored, whatever the server would say) and the table's `unavailable`
line applies — nothing under `never`, rsync (if enabled) under `new` and `stale`. It is *not*
treated like a CA without rpkiNotify, which would get rsync under every policy. -/
theorem C29_dubious_notify (cfg : RunConfig) (p : Policy) (rs ok : Bool) (stored : Option Nat)
    (now : Nat) :
    loadOutcome cfg true ok stored now = .unavailable ∧
    repository p true rs true (loadOutcome cfg true ok stored now) =
      (if p = .never then .none else if rs = true then .rsync else .none) ∧
    (p = .never → rs = true →
      repository p true rs true (loadOutcome cfg true ok stored now) ≠ repository p true rs false .unavailable) := by
  refine ⟨rfl, ?_, ?_⟩
  · simp only [loadOutcome, if_true]
    cases p <;> cases rs <;> decide
  · intro hp hr
    subst hp hr
    simp only [loadOutcome, if_true]
    decide

/-- Without rejection `loadOutcome` is `try_update`'s classification. -/
theorem C29_not_rejected (cfg : RunConfig) (ok : Bool) (stored : Option Nat) (now : Nat) :
    loadOutcome cfg false ok stored now = tryUpdateOutcome cfg ok stored now := rfl

example : tryUpdateOutcome ⟨600, 3600⟩ false (some 10000) 9000 = .current := by decide
example : tryUpdateOutcome ⟨600, 600⟩ false (some 10000) 1000 = .current := by decide
example : tryUpdateOutcome ⟨600, 3600⟩ false (some 10000) 10000 = .current := by decide
example : tryUpdateOutcome ⟨600, 3600⟩ false (some 10000) 10001 = .stale := by decide

/-! Non-vacuity: each transport occurs, and each policy distinguishes some row. -/
example : repository .stale true true true .stale = .rsync := by decide
example : repository .new true true true .stale = .none := by decide
example : repository .new true true true .unavailable = .rsync := by decide
example : repository .never true true true .unavailable = .none := by decide
example : repository .never true true true .updated = .rrdp := by decide
example : repository .never false true true .updated = .rsync := by decide
example : repository .stale true false false .updated = .none := by decide

end RoutinatorModel
