import RoutinatorModel.Model.Collector
/-!
# C29 — RRDP-to-rsync fallback follows the documented policy table

The statement's table, as a specification written independently of the code's control flow, and
the proof that `repository` (the transcription of `collector::Run::repository`) realises it on the
full product policy × RRDP outcome × RRDP enabled × rsync enabled × rpkiNotify present (3·4·2·2·2 =
96 rows). The domain is finite; the proofs split on every variable, i.e. they enumerate all rows.
-/
namespace RoutinatorModel
open Collector

/-- The statement: when is rsync the transport (provided rsync is enabled)? -/
def C29.wantsRsync (policy : Policy) (rrdpEnabled hasNotify : Bool) (o : Outcome) : Prop :=
  -- a CA without an RRDP URI is fetched with rsync
  hasNotify = false ∨
  -- for a CA announcing RRDP, rsync is used exactly when RRDP is disabled …
  rrdpEnabled = false ∨
  -- … or the update failed with no local copy and the policy is `new` or `stale` …
  (o = .unavailable ∧ (policy = .new ∨ policy = .stale)) ∨
  -- … or it failed with an expired local copy and the policy is `stale`
  (o = .stale ∧ policy = .stale)

instance (p : Policy) (re hn : Bool) (o : Outcome) : Decidable (C29.wantsRsync p re hn o) := by
  unfold C29.wantsRsync; exact inferInstance

/-- rsync is used exactly in the rows the statement lists (and only if rsync is enabled). -/
theorem C29_rsync_iff (p : Policy) (re rs hn : Bool) (o : Outcome) :
    repository p re rs hn o = .rsync ↔ (rs = true ∧ C29.wantsRsync p re hn o) := by
  cases p <;> cases re <;> cases rs <;> cases hn <;> cases o <;> decide

/-- RRDP is used exactly when the CA announces it, RRDP is enabled and the update succeeded:
a successful RRDP update is always used, whatever the policy. -/
theorem C29_rrdp_iff (p : Policy) (re rs hn : Bool) (o : Outcome) :
    repository p re rs hn o = .rrdp ↔ (hn = true ∧ re = true ∧ o = .updated) := by
  cases p <;> cases re <;> cases rs <;> cases hn <;> cases o <;> decide

/-- A failed update with a current copy never falls back: neither transport is used (the stored
data is used instead), under every policy and whether or not rsync is enabled. -/
theorem C29_current_never_falls_back (p : Policy) (rs : Bool) :
    repository p true rs true .current = .none := by
  cases p <;> cases rs <;> decide

/-- Nothing is used exactly in the remaining rows: rsync wanted but disabled, or RRDP consulted,
failed, and the policy forbids falling back. -/
theorem C29_none_iff (p : Policy) (re rs hn : Bool) (o : Outcome) :
    repository p re rs hn o = .none ↔
      ((rs = false ∧ C29.wantsRsync p re hn o) ∨
       (hn = true ∧ re = true ∧ o ≠ .updated ∧ ¬ C29.wantsRsync p re hn o)) := by
  cases p <;> cases re <;> cases rs <;> cases hn <;> cases o <;> decide

/-- The whole table at once, as one decided statement over the 96 rows. -/
theorem C29_table :
    ∀ p ∈ [Policy.never, .stale, .new], ∀ o ∈ [Outcome.updated, .current, .stale, .unavailable],
    ∀ re ∈ [true, false], ∀ rs ∈ [true, false], ∀ hn ∈ [true, false],
      repository p re rs hn o =
        (if hn = true ∧ re = true ∧ o = .updated then Transport.rrdp
         else if decide (C29.wantsRsync p re hn o) && rs then .rsync
         else .none) := by
  decide +kernel

/-- The outcome classes are what the statement calls them. -/
theorem C29_classify (ok copy expired : Bool) :
    (classify ok copy expired = .updated ↔ ok = true) ∧
    (classify ok copy expired = .current ↔ ok = false ∧ copy = true ∧ expired = false) ∧
    (classify ok copy expired = .stale ↔ ok = false ∧ copy = true ∧ expired = true) ∧
    (classify ok copy expired = .unavailable ↔ ok = false ∧ copy = false) := by
  cases ok <;> cases copy <;> cases expired <;> decide

/-- RRDP is not even asked when it is disabled or the CA has no rpkiNotify URI: the outcome is
irrelevant in those rows. -/
theorem C29_outcome_irrelevant (p : Policy) (re rs hn : Bool) (o o' : Outcome)
    (h : asksRrdp re hn = false) : repository p re rs hn o = repository p re rs hn o' := by
  cases p <;> cases re <;> cases rs <;> cases hn <;> cases o <;> cases o' <;> first | rfl | simp [asksRrdp] at h

/-! Non-vacuity: each transport occurs, and each policy distinguishes some row. -/
example : repository .stale true true true .stale = .rsync := by decide
example : repository .new true true true .stale = .none := by decide
example : repository .new true true true .unavailable = .rsync := by decide
example : repository .never true true true .unavailable = .none := by decide
example : repository .never true true true .updated = .rrdp := by decide
example : repository .never false true true .updated = .rsync := by decide
example : repository .stale true false false .updated = .none := by decide

end RoutinatorModel
