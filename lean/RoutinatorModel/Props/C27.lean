import RoutinatorModel.Proofs.Records
import RoutinatorModel.Generated.RecordLayouts
/-!
# C27 — Corrupt local data never crashes Routinator (codec part)

Model: the decoders of `Model/Binio.lean` / `Model/Records.lean` return, besides the outcome, the
list of buffer sizes they request from the allocator — in particular the requests driven by an
*untrusted* length or count field (`vec![0u8; len]`, `HashMap::with_capacity`). Lean functions are
total, so "every byte string yields a value, an EOF or a format error" is free
(`C27_outcome_classes`); the content is the allocation bound: with the two repairs in place
(`allocOk`: bodies read through `take(len).read_to_end`, map pre-allocation `min(len, cap)`), every
request made while decoding `bytes` is at most `2 * |bytes| + c`, for *all* byte strings, all
record layouts, the object iteration and the file-level readers. Which policy the source uses is
extracted on every run (`Generated.params.readChecked/mapCapMin/mapCap`) and `C27_generated_alloc_ok`
re-decides the side condition and `c ≤ 1 MiB`.

The factor 2 is `Vec`'s amortised doubling while `read_to_end` collects a body that really is in
the input; the constant is the map pre-allocation for `mapCap` entries (hashbrown layout, checked
against the real allocator by the harness) — see notes/C27.md.

The unrepaired policies violate the bound: `C27_unrepaired_body_unbounded`,
`C27_unrepaired_map_unbounded` (negation witnesses).

The archive container (`src/utils/archive.rs`: bucket count, chain walks) is covered by the
harness oracle, see notes/C27.md.
-/
namespace RoutinatorModel
open Codec

/-- Every input is classified: a value (with the unread rest), an unexpected EOF, or a format
error. (Totality of the model; stated for the record.) -/
theorem C27_outcome_classes (P : Params) (L : RecLayout) (bytes : Bytes) :
    (∃ r rest, (decodeRec P L bytes).res = .ok (r, rest)) ∨
    (decodeRec P L bytes).res = .error .eof ∨ (decodeRec P L bytes).res = .error .format := by
  cases h : (decodeRec P L bytes).res with
  | ok p => exact Or.inl ⟨p.1, p.2, rfl⟩
  | error e => cases e <;> simp

/-- Field level. -/
theorem C27_alloc_bound_field (P : Params) (hA : allocOk P = true) (ty : FT) (bytes : Bytes) :
    ∀ a ∈ (dec P ty bytes).allocs, a ≤ 2 * bytes.length + allocConst P :=
  (Good.dec P hA ty).bound bytes

/-- Record level, any layout. -/
theorem C27_alloc_bound_record (P : Params) (hA : allocOk P = true) (L : RecLayout) (bytes : Bytes) :
    ∀ a ∈ (decodeRec P L bytes).allocs, a ≤ 2 * bytes.length + allocConst P :=
  (Good.decodeItems P hA L.read).bound bytes

/-- `StoredObject::read` and the iteration over all objects of a stored point. -/
theorem C27_alloc_bound_objects (P : Params) (hA : allocOk P = true) (L : RecLayout) (fuel : Nat)
    (bytes : Bytes) :
    (∀ a ∈ (decodeObjOpt P L bytes).allocs, a ≤ 2 * bytes.length + allocConst P) ∧
    (∀ a ∈ (decodeObjects P L fuel bytes).allocs, a ≤ 2 * bytes.length + allocConst P) :=
  ⟨(Good.decodeObjOpt P hA L).bound bytes, (Good.decodeObjects P hA L fuel).bound bytes⟩

/-- `StoredPoint::open` on a file with arbitrary content. -/
theorem C27_alloc_bound_open (P : Params) (hA : allocOk P = true) (L : PointLayouts) (file : Bytes) :
    ∀ a ∈ (openPoint P L file).2, a ≤ 2 * file.length + allocConst P := by
  intro a ha
  have hH := Good.decodeItems P hA L.header.read
  have hM := Good.decodeItems P hA L.manifest.read
  unfold openPoint at ha
  simp only at ha
  cases hh : (decodeRec P L.header file).res with
  | error e => rw [hh] at ha; exact hH.bound file a ha
  | ok p =>
    obtain ⟨hr, s⟩ := p
    rw [hh] at ha
    simp only at ha
    have hs := hH.shrink file hr s hh
    split at ha
    · exact hH.bound file a ha
    · have ha' : a ∈ (decodeRec P L.header file).allocs ++ (decodeRec P L.manifest s).allocs := by
        cases hm : (decodeRec P L.manifest s).res with
        | error e => rw [hm] at ha; exact ha
        | ok q => rw [hm] at ha; exact ha
      rw [List.mem_append] at ha'
      rcases ha' with h1 | h1
      · exact hH.bound file a h1
      · have := hM.bound s a h1
        omega

/-- `StoredPoint::load_quietly`. -/
theorem C27_alloc_bound_load_quietly (P : Params) (hA : allocOk P = true) (L : PointLayouts)
    (file : Bytes) :
    ∀ a ∈ (loadQuietly P L file).2, a ≤ 2 * file.length + allocConst P := by
  intro a ha
  have hH := Good.decodeItems P hA L.header.read
  have hM := Good.decodeItems P hA L.manifest.read
  unfold loadQuietly at ha
  simp only at ha
  cases hh : (decodeRec P L.header file).res with
  | error e => rw [hh] at ha; exact hH.bound file a ha
  | ok p =>
    obtain ⟨hr, s⟩ := p
    rw [hh] at ha
    simp only at ha
    have hs := hH.shrink file hr s hh
    split at ha
    · exact hH.bound file a ha
    · have ha' : a ∈ (decodeRec P L.header file).allocs ++ (decodeRec P L.manifest s).allocs := by
        cases hm : (decodeRec P L.manifest s).res with
        | error e => rw [hm] at ha; exact ha
        | ok q => rw [hm] at ha; exact ha
      rw [List.mem_append] at ha'
      rcases ha' with h1 | h1
      · exact hH.bound file a h1
      · have := hM.bound s a h1
        omega

/-- What `open` does with unreadable content: an unreadable header (EOF, wrong version, bad
format) means *discard and recreate*; a readable success header followed by an unreadable manifest
is a *reported error*. There is no other way out. -/
theorem C27_open_outcomes (P : Params) (L : PointLayouts) (file : Bytes) :
    ((∃ e, (decodeRec P L.header file).res = .error e) → (openPoint P L file).1 = .recreated) ∧
    (∀ hr s, (decodeRec P L.header file).res = .ok (hr, s) → headerIsAttempt hr = false →
      (∃ e, (decodeRec P L.manifest s).res = .error e) → (openPoint P L file).1 = .failed) := by
  constructor
  · rintro ⟨e, he⟩
    unfold openPoint
    simp only [he]
  · rintro hr s hh hatt ⟨e, he⟩
    unfold openPoint
    simp only [hh, hatt, he, Bool.false_eq_true, ↓reduceIte]

/-- The per-run obligation: the source has both repairs and the constant is below 1 MiB
(`123 * mapCap + 359`). -/
theorem C27_generated_alloc_ok :
    allocOk Generated.params = true ∧ allocConst Generated.params ≤ 2 ^ 20 := by
  decide

/-- The bound for the pinned (repaired) source, in the form the harness oracle uses. -/
theorem C27_generated_alloc_bound (L : RecLayout) (bytes : Bytes) :
    ∀ a ∈ (decodeRec Generated.params L bytes).allocs, a ≤ 2 * bytes.length + 2 ^ 20 := by
  intro a ha
  have h1 := C27_alloc_bound_record Generated.params C27_generated_alloc_ok.1 L bytes a ha
  have h2 := C27_generated_alloc_ok.2
  omega

/-! ### Negation witnesses: the unrepaired policies are unbounded -/

/-- `vec![0u8; len]` with the declared length: five octets ask for 4 GiB. -/
theorem C27_unrepaired_body_unbounded :
    let P := { Generated.params with readChecked := false }
    ∃ bytes : Bytes, ∃ a ∈ (decodeRec P Generated.storedPointHeader bytes).allocs,
      a > 2 * bytes.length + 2 ^ 20 :=
  ⟨[2, 0xff, 0xff, 0xff, 0xff], 4294967295, by decide, by decide⟩

/-- `HashMap::with_capacity(max(len, 65536))`: a 69-octet repository state with a crafted count
asks for more than 2^40 bytes (and even an honest empty map costs 5 MiB). -/
theorem C27_unrepaired_map_unbounded :
    let P := { Generated.params with mapCapMin := false, mapCap := 65536 }
    ∃ bytes : Bytes, ∃ a ∈ (decodeRec P Generated.repositoryState bytes).allocs,
      a > 2 * bytes.length + 2 ^ 20 :=
  ⟨[1, 0, 0, 0, 8] ++ httpsScheme ++ List.replicate 16 0 ++ List.replicate 24 0 ++ [0] ++
    List.replicate 8 0xff ++ [0, 0, 1, 0, 0, 0, 0, 0],
   mapPrealloc { Generated.params with mapCapMin := false, mapCap := 65536 } (2 ^ 40),
   by decide +kernel, by decide +kernel⟩

/-- Non-vacuity: the bound is attained up to the constant — a valid 4 KiB object body is read
with a request of about twice its size. -/
example : (readVec Generated.params 4096 (List.replicate 4096 0)).allocs = [2 * 4096 + 32] := by
  decide +kernel

end RoutinatorModel
