import RoutinatorModel.Proofs.Records
import RoutinatorModel.Proofs.ArchiveRead
import RoutinatorModel.Generated.RecordLayouts
/-!
# C27 — Corrupt local data never crashes Routinator (codec part)

Model: the decoders of `Model/Binio.lean` / `Model/Records.lean` return, besides the outcome, the
list of buffer sizes they request from the allocator — in particular the requests driven by an
*untrusted* length or count field (`vec![0u8; len]`, `HashMap::with_capacity`). Lean functions are
total, so "every byte string yields a value, an EOF or a format error" is free
(`C27_outcome_classes`); the content is the allocation bound: with the two repairs in place
(`allocOk`: bodies read through `take(len).read_to_end`, map pre-allocation `min(len, cap)`), every
request made while decoding `bytes` is at most `2 * |bytes| + c`, for *all* byte strings, all
record layouts, the object iteration and the file-level readers. Which policy the source uses is
extracted on every run (`Generated.params.readChecked/mapCapMin/mapCap`) and `C27_generated_alloc_ok`
re-decides the side condition and `c ≤ 1 MiB`.

The factor 2 is `Vec`'s amortised doubling while `read_to_end` collects a body that really is in
the input; the constant is the map pre-allocation for `mapCap` entries (hashbrown layout, checked
against the real allocator by the harness) — see notes/C27.md.

The unrepaired policies violate the bound: `C27_unrepaired_body_unbounded`,
`C27_unrepaired_map_unbounded` (negation witnesses).

The archive container (`src/utils/archive.rs`) is modelled in `Model/ArchiveRead.lean` (file
header, index, object headers, chain walks, SipHash-2-4 bucket selection, `verify`, `fetch`,
`objects()`, `load_state`). Here the content is: with `open` validating the bucket count and the
chain walks bounded (`ArchiveParams`, extracted), no read of any file panics or walks forever, every
walk reads at most `size / 33 + 1` object headers and `verify`'s vector holds at most that many
entries (`C27_archive_*`); without the repairs a 30-byte file panics and a 112-byte file is walked
forever (`C27_unrepaired_bucket_count_panics`, `C27_unrepaired_walk_endless`).
-/
namespace RoutinatorModel
open Codec

/-- Every input is classified: a value (with the unread rest), an unexpected EOF, or a format
error. (Totality of the model; stated for the record.) -/
theorem C27_outcome_classes (P : Params) (L : RecLayout) (bytes : Bytes) :
    (∃ r rest, (decodeRec P L bytes).res = .ok (r, rest)) ∨
    (decodeRec P L bytes).res = .error .eof ∨ (decodeRec P L bytes).res = .error .format := by
  cases h : (decodeRec P L bytes).res with
  | ok p => exact Or.inl ⟨p.1, p.2, rfl⟩
  | error e => cases e <;> simp

/-- Field level. -/
theorem C27_alloc_bound_field (P : Params) (hA : allocOk P = true) (ty : FT) (bytes : Bytes) :
    ∀ a ∈ (dec P ty bytes).allocs, a ≤ 2 * bytes.length + allocConst P :=
  (Good.dec P hA ty).bound bytes

/-- Record level, any layout. -/
theorem C27_alloc_bound_record (P : Params) (hA : allocOk P = true) (L : RecLayout) (bytes : Bytes) :
    ∀ a ∈ (decodeRec P L bytes).allocs, a ≤ 2 * bytes.length + allocConst P :=
  (Good.decodeItems P hA L.read).bound bytes

/-- `StoredObject::read` and the iteration over all objects of a stored point. -/
theorem C27_alloc_bound_objects (P : Params) (hA : allocOk P = true) (L : RecLayout) (fuel : Nat)
    (bytes : Bytes) :
    (∀ a ∈ (decodeObjOpt P L bytes).allocs, a ≤ 2 * bytes.length + allocConst P) ∧
    (∀ a ∈ (decodeObjects P L fuel bytes).allocs, a ≤ 2 * bytes.length + allocConst P) :=
  ⟨(Good.decodeObjOpt P hA L).bound bytes, (Good.decodeObjects P hA L fuel).bound bytes⟩

/-- `StoredPoint::open` on a file with arbitrary content. -/
theorem C27_alloc_bound_open (P : Params) (hA : allocOk P = true) (L : PointLayouts) (file : Bytes) :
    ∀ a ∈ (openPoint P L file).2, a ≤ 2 * file.length + allocConst P := by
  intro a ha
  have hH := Good.decodeItems P hA L.header.read
  have hM := Good.decodeItems P hA L.manifest.read
  unfold openPoint at ha
  simp only at ha
  cases hh : (decodeRec P L.header file).res with
  | error e => rw [hh] at ha; exact hH.bound file a ha
  | ok p =>
    obtain ⟨hr, s⟩ := p
    rw [hh] at ha
    simp only at ha
    have hs := hH.shrink file hr s hh
    split at ha
    · exact hH.bound file a ha
    · have ha' : a ∈ (decodeRec P L.header file).allocs ++ (decodeRec P L.manifest s).allocs := by
        cases hm : (decodeRec P L.manifest s).res with
        | error e => rw [hm] at ha; exact ha
        | ok q => rw [hm] at ha; exact ha
      rw [List.mem_append] at ha'
      rcases ha' with h1 | h1
      · exact hH.bound file a h1
      · have := hM.bound s a h1
        omega

/-- `StoredPoint::load_quietly`. -/
theorem C27_alloc_bound_load_quietly (P : Params) (hA : allocOk P = true) (L : PointLayouts)
    (file : Bytes) :
    ∀ a ∈ (loadQuietly P L file).2, a ≤ 2 * file.length + allocConst P := by
  intro a ha
  have hH := Good.decodeItems P hA L.header.read
  have hM := Good.decodeItems P hA L.manifest.read
  unfold loadQuietly at ha
  simp only at ha
  cases hh : (decodeRec P L.header file).res with
  | error e => rw [hh] at ha; exact hH.bound file a ha
  | ok p =>
    obtain ⟨hr, s⟩ := p
    rw [hh] at ha
    simp only at ha
    have hs := hH.shrink file hr s hh
    split at ha
    · exact hH.bound file a ha
    · have ha' : a ∈ (decodeRec P L.header file).allocs ++ (decodeRec P L.manifest s).allocs := by
        cases hm : (decodeRec P L.manifest s).res with
        | error e => rw [hm] at ha; exact ha
        | ok q => rw [hm] at ha; exact ha
      rw [List.mem_append] at ha'
      rcases ha' with h1 | h1
      · exact hH.bound file a h1
      · have := hM.bound s a h1
        omega

/-- What `open` does with unreadable content: an unreadable header (EOF, wrong version, bad
format) means *discard and recreate*; a readable success header followed by an unreadable manifest
is a *reported error*. There is no other way out. -/
theorem C27_open_outcomes (P : Params) (L : PointLayouts) (file : Bytes) :
    ((∃ e, (decodeRec P L.header file).res = .error e) → (openPoint P L file).1 = .recreated) ∧
    (∀ hr s, (decodeRec P L.header file).res = .ok (hr, s) → headerIsAttempt hr = false →
      (∃ e, (decodeRec P L.manifest s).res = .error e) → (openPoint P L file).1 = .failed) := by
  constructor
  · rintro ⟨e, he⟩
    unfold openPoint
    simp only [he]
  · rintro hr s hh hatt ⟨e, he⟩
    unfold openPoint
    simp only [hh, hatt, he, Bool.false_eq_true, ↓reduceIte]

/-- The per-run obligation: the source has both repairs and the constant is below 1 MiB
(`123 * mapCap + 359`). -/
theorem C27_generated_alloc_ok :
    allocOk Generated.params = true ∧ allocConst Generated.params ≤ 2 ^ 20 := by
  decide

/-- The bound for the pinned (repaired) source, in the form the harness oracle uses. -/
theorem C27_generated_alloc_bound (L : RecLayout) (bytes : Bytes) :
    ∀ a ∈ (decodeRec Generated.params L bytes).allocs, a ≤ 2 * bytes.length + 2 ^ 20 := by
  intro a ha
  have h1 := C27_alloc_bound_record Generated.params C27_generated_alloc_ok.1 L bytes a ha
  have h2 := C27_generated_alloc_ok.2
  omega

/-! ### Negation witnesses: the unrepaired policies are unbounded -/

/-- `vec![0u8; len]` with the declared length: five octets ask for 4 GiB. -/
theorem C27_unrepaired_body_unbounded :
    let P := { Generated.params with readChecked := false }
    ∃ bytes : Bytes, ∃ a ∈ (decodeRec P Generated.storedPointHeader bytes).allocs,
      a > 2 * bytes.length + 2 ^ 20 :=
  ⟨[2, 0xff, 0xff, 0xff, 0xff], 4294967295, by decide, by decide⟩

/-- `HashMap::with_capacity(max(len, 65536))`: a 69-octet repository state with a crafted count
asks for more than 2^40 bytes (and even an honest empty map costs 5 MiB). -/
theorem C27_unrepaired_map_unbounded :
    let P := { Generated.params with mapCapMin := false, mapCap := 65536 }
    ∃ bytes : Bytes, ∃ a ∈ (decodeRec P Generated.repositoryState bytes).allocs,
      a > 2 * bytes.length + 2 ^ 20 :=
  ⟨[1, 0, 0, 0, 8] ++ httpsScheme ++ List.replicate 16 0 ++ List.replicate 24 0 ++ [0] ++
    List.replicate 8 0xff ++ [0, 0, 1, 0, 0, 0, 0, 0],
   mapPrealloc { Generated.params with mapCapMin := false, mapCap := 65536 } (2 ^ 40),
   by decide +kernel, by decide +kernel⟩

/-- Non-vacuity: the bound is attained up to the constant — a valid 4 KiB object body is read
with a request of about twice its size. -/
example : (readVec Generated.params 4096 (List.replicate 4096 0)).allocs = [2 * 4096 + 32] := by
  decide +kernel

/-! ## The archive container -/

/-- The per-run obligation for the archive reader: both repairs are in the source. -/
theorem C27_archive_generated_ok :
    Generated.archiveParams.checkIndex = true ∧ Generated.archiveParams.boundWalks = true := by
  decide

/-- `Archive::open` itself only ever reports an I/O error (EOF) or `Corrupt`. -/
theorem C27_archive_open_safe (A : ArchiveParams) (file : ByteArray) : Safe (openArchive A file) :=
  openArchive_safe A file

/-- For every file that `open` accepts: `find`/`fetch`/`load_state`, `verify` and `objects()` end
with a value, an I/O error or `Corrupt` — never with a panic, never without end — and read at most
`size / 33 + 1` object headers. -/
theorem C27_archive_no_panic_no_hang (A : ArchiveParams) (hC : A.checkIndex = true)
    (hB : A.boundWalks = true) (file : ByteArray) (a : Opened) (h : openArchive A file = .ok a) :
    (∀ name, Safe (find A a name).1 ∧ (find A a name).2 ≤ a.size / headerSize + 1) ∧
    (∀ name, Safe (fetch A a name)) ∧
    (∀ P L, Safe (loadState A P L a)) ∧
    Safe (verify A a) ∧
    Safe (objects A a).1 ∧ (objects A a).2 ≤ a.size / headerSize + 1 := by
  have hI := (openArchive_indexOk hC h).1
  exact ⟨fun name => find_safe A hB a hI name, fun name => fetch_safe A hB a hI name,
    fun P L => loadState_safe A hB P L a hI, (verify_safe A hB a hI).1,
    (objects_safe A hB a hI).1, (objects_safe A hB a hI).2⟩

/-- `verify` collects at most `size / 33 + 1` `(position, size)` pairs: its vector (16-byte
entries, amortised doubling) stays below `size + 64` bytes. -/
theorem C27_archive_verify_vector_bound (A : ArchiveParams) (hC : A.checkIndex = true)
    (hB : A.boundWalks = true) (file : ByteArray) (a : Opened) (h : openArchive A file = .ok a)
    (n m : Nat) (hv : verify A a = .ok (n, m)) :
    n + m ≤ a.size / headerSize + 1 ∧ 2 * 16 * (n + m) ≤ a.size + 64 := by
  have hI := (openArchive_indexOk hC h).1
  have h1 := (verify_safe A hB a hI).2 n m hv
  refine ⟨h1, ?_⟩
  have : a.size / headerSize * 33 ≤ a.size := by
    unfold headerSize; exact Nat.div_mul_le_self _ _
  omega

/-- The pinned (repaired) source, any file. -/
theorem C27_archive_generated (file : ByteArray) (a : Opened)
    (h : openArchive Generated.archiveParams file = .ok a) :
    Safe (verify Generated.archiveParams a) ∧
    Safe (loadState Generated.archiveParams Generated.params Generated.repositoryState a) ∧
    Safe (objects Generated.archiveParams a).1 :=
  have hh := C27_archive_no_panic_no_hang Generated.archiveParams C27_archive_generated_ok.1
    C27_archive_generated_ok.2 file a h
  ⟨hh.2.2.2.1, hh.2.2.1 _ _, hh.2.2.2.2.1⟩

/-! ### Negation witnesses for the archive reader -/

/-- 30 octets: magic, key, bucket count 0. -/
def zeroBucketFile : ByteArray :=
  ByteArray.mk (#[0x52, 0x54, 0x4e, 0x52, 1, 0x43] ++ Array.replicate 16 0 ++ Array.replicate 8 0)

/-- Without the bucket-count check `open` accepts the file and `load_state` divides by zero. -/
theorem C27_unrepaired_bucket_count_panics :
    let A : ArchiveParams := ⟨false, true⟩
    ∃ a, openArchive A zeroBucketFile = .ok a ∧
      loadState A Generated.params Generated.repositoryState a = .error .panic := by
  intro A
  have h : (match openArchive A zeroBucketFile with
      | .ok a => decide (loadState A Generated.params Generated.repositoryState a = .error .panic)
      | .error _ => false) = true := by decide +kernel
  cases ho : openArchive A zeroBucketFile with
  | error e => rw [ho] at h; cases h
  | ok a => rw [ho] at h; exact ⟨a, rfl, of_decide_eq_true h⟩

/-- …and with the check the same file is `Corrupt` (discard and recreate). -/
example : (openArchive ⟨true, true⟩ zeroBucketFile).toOption.isNone = true ∧
    (∀ a, openArchive ⟨true, true⟩ zeroBucketFile ≠ .ok a) := by
  refine ⟨by decide +kernel, fun a h => ?_⟩
  have : (openArchive ⟨true, true⟩ zeroBucketFile).toOption.isNone = true := by decide +kernel
  rw [h] at this
  cases this

/-- 112 octets: one bucket, one object (`"x"`) whose `next` pointer is its own position 46. -/
def cycleFile : ByteArray := ByteArray.mk (#[0x52, 0x54, 0x4e, 0x52, 1, 0x43] ++ Array.replicate 16 0 ++
  #[1,0,0,0,0,0,0,0] ++ #[46,0,0,0,0,0,0,0] ++ #[0,0,0,0,0,0,0,0] ++
  #[66,0,0,0,0,0,0,0] ++ #[46,0,0,0,0,0,0,0] ++ #[0] ++ #[1,0,0,0,0,0,0,0] ++ #[0,0,0,0,0,0,0,0] ++
  #[0x78] ++ Array.replicate 32 0)

def cycleArchive : Opened := ⟨cycleFile, List.replicate 16 0, 1⟩

/-- Looking for `"state"` in that file without a step bound never ends: whatever budget the walk
is given, it uses all of it. -/
theorem C27_unrepaired_walk_endless (fuel : Nat) (steps : Nat) :
    findLoop ⟨true, false⟩ cycleArchive stateName fuel 46 steps = (.error .hang, steps + fuel) := by
  have hread : ∃ h, readHeaderName cycleArchive.file 46 = .ok (h, [0x78]) ∧ h.next = 46 := by
    have : (readHeaderName cycleFile 46).toOption.map (fun p => (p.1.next, p.2)) = some (46, [0x78]) := by
      decide +kernel
    cases hr : readHeaderName cycleFile 46 with
    | error e => rw [hr] at this; cases this
    | ok p =>
      obtain ⟨h, n⟩ := p
      rw [hr] at this
      simp only [Except.toOption, Option.map_some, Option.some.injEq, Prod.mk.injEq] at this
      exact ⟨h, by rw [← this.2]; exact hr, this.1⟩
  obtain ⟨h, hr, hn⟩ := hread
  induction fuel generalizing steps with
  | zero => simp [findLoop, outOfFuel]
  | succ fuel ih =>
    simp only [findLoop, hr]
    have hne : ¬ ([0x78] : List UInt8) = stateName := by decide
    rw [if_neg hne, hn, ih (steps + 1)]
    congr 1
    omega

/-- The repaired reader stops after `112 / 33 + 1 = 4` headers and reports `Corrupt`. -/
example : find ⟨true, true⟩ cycleArchive stateName = (.error .corrupt, 4) := by decide +kernel

/-- `open` accepts the cyclic file (the index fits), so the walks are really reached. -/
example : (openArchive ⟨true, true⟩ cycleFile).toOption.map (fun a => a.bucketCount) = some 1 := by
  decide +kernel

end RoutinatorModel
