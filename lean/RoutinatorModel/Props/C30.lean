import RoutinatorModel.Proofs.PathsInj
/-!
# C30 — remote URIs map to confined, distinct local paths

Model: `Model/Paths.lean`. `pathOf sha cache k` is the path *string* routinator builds for the key
`k` (stored trust anchor, stored publication point, rsync collector copy, RRDP archive), step by
step as the code does (`format!`, `PathBuf::push`). `resolve` is the file system's reading of a
path string (split at `/`, drop empty and `.` components, `..` removes the previous component).

* confined: the resolved path has the resolved cache (dump) directory as a prefix — for every
  syntactically valid URI, including HTTPS authorities `..`, `.` and the empty authority;
* distinct: two keys with the same resolved path are of the same kind and their URIs are
  equivalent (`Rsync.equiv`: authority up to ASCII case, module and path segments equal;
  `Https.equiv`: rpki's `Eq`, authority up to ASCII case, path equal). For hashed names this uses
  the explicit hypotheses that SHA-256 is injective, 32 bytes long, with byte-valued output.
-/
namespace RoutinatorModel
open Paths

/-- Every cache path stays inside the cache directory. -/
theorem C30_confined (sha : Str → List Nat) (hlen : ∀ x, (sha x).length = 32)
    (cache : Str) (k : Key) (hk : k.WF) :
    resolve cache <+: resolve (pathOf sha cache k) := by
  rw [resolve_pathOf sha hlen cache hk]
  exact List.prefix_append _ _

/-- The exact location below the cache directory. -/
theorem C30_resolved (sha : Str → List Nat) (hlen : ∀ x, (sha x).length = 32)
    (cache : Str) (k : Key) (hk : k.WF) :
    resolve (pathOf sha cache k) = resolve cache ++ relOf sha k :=
  resolve_pathOf sha hlen cache hk

/-- Inequivalent URIs (or keys of different kinds) never share a file in the cache. -/
theorem C30_distinct (sha : Str → List Nat)
    (hinj : Function.Injective sha) (hlen : ∀ x, (sha x).length = 32)
    (hbyte : ∀ x, ∀ b ∈ sha x, b < 256)
    (cache : Str) (k1 k2 : Key) (h1 : k1.WF) (h2 : k2.WF)
    (h : resolve (pathOf sha cache k1) = resolve (pathOf sha cache k2)) : k1.equiv k2 := by
  rw [resolve_pathOf sha hlen cache h1, resolve_pathOf sha hlen cache h2] at h
  exact relOf_inj_same hinj hlen hbyte h1 h2 (List.append_cancel_left h)

/-- rsync-derived paths (stored points of the rsync repository, collector copies) are distinct
structurally — no hypothesis on SHA-256 at all. -/
theorem C30_distinct_rsync (sha : Str → List Nat) (cache : Str) (u v : Rsync)
    (hu : u.WF) (hv : v.WF) :
    (resolve (rsyncUriPath cache u) = resolve (rsyncUriPath cache v) → u.equiv v) ∧
    (resolve (pointPath sha cache none u) = resolve (pointPath sha cache none v) → u.equiv v) := by
  constructor
  · intro h
    rw [resolve_rsyncUriPath sha cache hu, resolve_rsyncUriPath sha cache hv] at h
    have := List.append_cancel_left h
    simp only [relOf, List.cons_append, List.nil_append, List.cons.injEq, true_and] at this
    exact ⟨this.1, this.2.1, this.2.2⟩
  · intro h
    rw [resolve_pointPath_none sha cache hu, resolve_pointPath_none sha cache hv] at h
    have := List.append_cancel_left h
    simp only [relOf, List.cons_append, List.nil_append, List.cons.injEq, true_and] at this
    exact ⟨this.1, this.2.1, this.2.2⟩

/-- The rsync module directory is the collector path of the module's own URI. -/
theorem C30_module_path (sha : Str → List Nat) (cache : Str) (u : Rsync) (hu : u.WF) :
    resolve (rsyncModulePath cache u) =
      resolve (pathOf sha cache (.rsyncFile { u with segs := [], dir := false })) := by
  have hu' : ({ u with segs := [], dir := false } : Rsync).WF :=
    ⟨hu.scheme, hu.auth, hu.module, by simp, by simp⟩
  rw [resolve_rsyncModulePath cache hu]
  show _ = resolve (rsyncUriPath cache _)
  rw [resolve_rsyncUriPath sha cache hu']
  simp [relOf]

/-- Every dump path stays inside the dump directory, whatever directory name the registry chose
(any slash-free name, even `..`). -/
theorem C30_dump_confined (dump : Str) (k : DumpKey) (hk : k.WF) :
    resolve dump <+: resolve (dumpPathOf dump k) := by
  rw [resolve_dumpPathOf dump hk]
  exact List.prefix_append _ _

/-- Inside a dump, two objects share a file only if they are in the same tree, in the same
repository directory and their URIs are equivalent. Holds for repository directory names that are
ordinary path segments; the names are the RRDP servers' authorities (plus `-i`), and a repository
whose authority is empty, `.` or `..` can never have been fetched, hence is never dumped. -/
theorem C30_dump_distinct (dump : Str) (k1 k2 : DumpKey) (h1 : k1.WF) (h2 : k2.WF)
    (r1 : okSeg k1.reg) (r2 : okSeg k2.reg)
    (h : resolve (dumpPathOf dump k1) = resolve (dumpPathOf dump k2)) : k1.equiv k2 := by
  rw [resolve_dumpPathOf dump h1, resolve_dumpPathOf dump h2] at h
  exact dumpRelOf_inj r1 r2 (List.append_cancel_left h)

/-- Registries reachable by `get_repo_path` calls from `DumpRegistry::new`. -/
inductive Registry.Reachable : Registry → Prop
  | new : Registry.Reachable Registry.new
  | get {r r' : Registry} {n : Https} {x : Str} :
      Registry.Reachable r → r.get n = some (x, r') → Registry.Reachable r'

theorem Registry.Reachable.inv {r : Registry} (h : Registry.Reachable r) : r.Inv := by
  induction h with
  | new => exact Registry.inv_new
  | get _ hg ih => exact Registry.get_inv ih hg

/-- The dump registry gives inequivalent rpkiNotify URIs different directory names, keeps a name
once given, and never gives out the rsync repository's name `rsync`. -/
theorem C30_dump_registry (r : Registry) (hr : Registry.Reachable r) :
    (∀ m n x, r.lookup m = some x → r.lookup n = some x → m.equiv n) ∧
    (∀ n x r', r.get n = some (x, r') →
        r'.lookup n = some x ∧ (∀ m y, r.lookup m = some y → r'.lookup m = some y)) ∧
    (∀ n x r', r.lookup n = none → r.get n = some (x, r') → x ≠ sRsync) :=
  ⟨fun _ _ _ hm hn => Registry.names_distinct hr.inv hm hn,
   fun _ _ _ hg => ⟨Registry.get_lookup hg, fun _ _ hm => Registry.get_stable hg hm⟩,
   fun _ _ _ hl hg => Registry.name_ne_rsync hr.inv hl hg⟩

/-! ## Non-vacuity and negation witnesses -/

section Examples
/-- A stand-in digest for examples only (32 bytes, not injective). -/
private def sha0 (_ : Str) : List Nat := List.replicate 32 7

private def uA : Rsync := ⟨sRsyncScheme, [72, 111, 115, 116], [109], [[97], [98]], false⟩   -- rsync://Host/m/a/b
private def uB : Rsync := ⟨sRsyncScheme, [104, 111, 115, 116], [109], [[97], [98]], true⟩   -- rsync://host/m/a/b/
private def nDots : Https := ⟨sHttpsScheme, [46, 46], [47, 110]⟩                            -- https://../n

example : uA.WF := ⟨rfl, by decide, by decide, by decide, by decide⟩
example : uA.equiv uB := by decide
/-- An HTTPS authority `..` leaves `stored/ta/https` but not the cache. -/
example : resolve (pathOf sha0 [47, 99] (.taHttps nDots))
    = [[99], sStored, sTa, hex (sha0 []) ++ sCer] := by decide
/-- `PathBuf::push` semantics: an empty authority does not produce an empty component. -/
example : push (push [47, 99] []) [120] = [47, 99, 47, 120] := by decide

/-- Negation witness for the repaired defect: without reserving `rsync`, the RRDP repository
`https://rsync/…` was given the directory of the rsync repository. -/
example : ((⟨[], []⟩ : Registry).get ⟨sHttpsScheme, sRsync, [47, 110]⟩).map (·.1)
    = some sRsync := by decide
example : (Registry.new.get ⟨sHttpsScheme, sRsync, [47, 110]⟩).map (·.1)
    = some (sRsync ++ [45, 49]) := by decide

/-- Recorded corner (why `C30_dump_distinct` asks for ordinary directory names): with the
directory name `.`, objects of different repositories can meet. -/
example : dumpRelOf (.storeObj [46] ⟨sRsyncScheme, [102], [120], [[121]], false⟩)
    = dumpRelOf (.storeObj [102] ⟨sRsyncScheme, [120], [121], [], false⟩) := by decide
end Examples

end RoutinatorModel
