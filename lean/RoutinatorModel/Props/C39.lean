import RoutinatorModel.Proofs.Engine2Refresh
/-!
# C39 — The refresh deadline never exceeds the contributing objects' expiry

Model: the refresh bookkeeping of `src/payload/validation.rs` carried along the walk of
`Model/Engine2.lean` (`CaX.refresh` = `PubPoint::orig_refresh` from `new_ta` / `new_ca`,
`pointValidity` = `point_validity`, `Acc.addPayload` = `update_refresh` + `add_*`, restart on
the fallback path, `snapshotRefresh` = `SnapshotBuilder::update_refresh` over the points that
`commit` pushed). The walk erases to the shared engine model (`runOnceX_erase`).

The ghost field `dates` collects, along the same walk, every date the statement mentions:
`C39_dates_root` / `C39_dates_child` / `C39_dates_point` say what it contains.

* `C39_refresh_bound` — the snapshot's refresh time is at most every date of every point
  that contributed payload.
* `C39_point_invariant` — the invariant behind it, for every visit (contributing or not).
* `C39_dates_*` — the dates: TA certificate notAfter; per CA on the chain the manifest EE
  notAfter, manifest nextUpdate and CRL nextUpdate of the version used and the CA
  certificate's notAfter; the notAfter of every object that yields payload.
* `C39_silent_object` — an object that adds no payload does not change the refresh time.
* `C39_refresh_exists` — if any point contributes, there is a refresh time.
-/
namespace RoutinatorModel
open Engine

namespace Engine

theorem point_refresh_ok (cfg : Cfg) (now : Int) (coll : Option Offer) (ca : CaX) (store : Store)
    (hP : ca.Ok) (hS : StoreWf store) :
    StoreWf (store.setPoint ca.ctx.info.mft
        (processPointX cfg now coll (store.point ca.ctx.info.mft) ca).stored)
    ∧ (∀ k ∈ (processPointX cfg now coll (store.point ca.ctx.info.mft) ca).kids, k.Ok)
    ∧ ((∀ d ∈ (processPointX cfg now coll (store.point ca.ctx.info.mft) ca).dates,
          (processPointX cfg now coll (store.point ca.ctx.info.mft) ca).refresh ≤ d)
       ∧ ∀ d ∈ ca.dates, d ∈ (processPointX cfg now coll (store.point ca.ctx.info.mft) ca).dates) := by
  have pf := processPointX_from cfg now coll (store.point ca.ctx.info.mft) ca
    (fun s hs => hS.point hs)
  obtain ⟨h1, h2, h3⟩ := pf.refresh_ok hP
  refine ⟨?_, h2, h1, h3⟩
  generalize processPointX cfg now coll (store.point ca.ctx.info.mft) ca = r at pf
  cases pf with
  | none stored hstored => exact hS.setPoint _ _ hstored
  | used vm crl objs stored used hver hstored => exact hS.setPoint _ _ hstored

end Engine

/-- **C39, invariant.** For every visited publication point the processor's refresh time is
at most every date collected for it: the dates of its chain, of the manifest and CRL it
used, and of its contributing objects. -/
theorem C39_point_invariant (cfg : Cfg) (now : Int) (view : Option View) (tals : List Tal)
    (store : Store) (hwf : StoreWf store) :
    ∀ v ∈ (runOnceX cfg now view tals store).1,
      (∀ d ∈ v.point.dates, v.point.refresh ≤ d) ∧ (∀ d ∈ v.ca.dates, d ∈ v.point.dates) := by
  have := runOnceX_rule cfg now view tals store
    (P := fun ca => ca.Ok) (S := StoreWf)
    (Q := fun v => (∀ d ∈ v.point.dates, v.point.refresh ≤ d) ∧ (∀ d ∈ v.ca.dates, d ∈ v.point.dates))
    (fun s s' he h p hp => h p (he ▸ hp))
    (fun tal _ uri _ c _ _ _ => by
      intro d hd
      simp only [CaX.root, List.mem_singleton] at hd
      subst hd
      exact Int.le_refl _)
    (fun ca st hP hS => point_refresh_ok cfg now _ ca st hP hS)
    hwf
  exact this.2

/-- **C39.** The refresh time of the data set is no later than any date on the chain of any
publication point that contributed payload, nor than the notAfter of any contributing
object: certificates (TA, CAs), manifest EE certificates, manifests' and CRLs' nextUpdate. -/
theorem C39_refresh_bound (cfg : Cfg) (now : Int) (view : Option View) (tals : List Tal)
    (store : Store) (hwf : StoreWf store) (r : Int)
    (hr : snapshotRefresh (runOnceX cfg now view tals store).1 = some r) :
    ∀ v ∈ (runOnceX cfg now view tals store).1, v.contributes = true →
      ∀ d ∈ v.point.dates, r ≤ d := by
  intro v hv hc d hd
  have h1 := (snapshotRefresh_le _).1 r hr v hv hc
  have h2 := (C39_point_invariant cfg now view tals store hwf v hv).1 d hd
  omega

/-- **C39, existence.** As soon as a point contributes payload there is a refresh time. -/
theorem C39_refresh_exists (visits : List Visit) (h : ∃ v ∈ visits, v.contributes = true) :
    ∃ r, snapshotRefresh visits = some r := (snapshotRefresh_le visits).2 h

/-- The dates of a trust anchor's task: the notAfter of the TA certificate. -/
theorem C39_dates_root (c : TaCert) : (CaX.root c).dates = [c.notAfter]
    ∧ (CaX.root c).refresh = c.notAfter := ⟨rfl, rfl⟩

/-- The dates of a publication point (`PointFrom`): those of its CA task, then — if a
version is used — the manifest EE certificate's notAfter, the manifest's nextUpdate, the
CRL's nextUpdate, and the notAfter of the certificate of every object that yields payload.
The dates of a child task: all of those but the objects', plus the notAfter of the child's
CA certificate. -/
theorem C39_dates_point (cfg : Cfg) (now : Int) (coll : Option Offer) (st : Option Stored)
    (ca : CaX) (hst : ∀ s, st = some s → StoredWf s) :
    let r := processPointX cfg now coll st ca
    (r.accepted = false ∧ r.dates = ca.dates)
    ∨ ∃ vm crl objs, ValidVersion cfg now coll ca.ctx vm crl objs ∧ r.accepted = true
        ∧ (∀ d ∈ ca.dates, d ∈ r.dates)
        ∧ vm.mft.ee.notAfter ∈ r.dates ∧ vm.mft.nextUpdate ∈ r.dates
        ∧ crlNextUpdate crl ∈ r.dates
        ∧ (∀ o ∈ objs, ∀ i c, Yields cfg now vm o.ext o.file.content i →
            certOf o.file.content = some c → c.notAfter ∈ r.dates)
        ∧ (∀ k ∈ r.kids, ∃ o ∈ objs, ∃ c info, Issues cfg now ca.ctx vm o.ext o.file.content c info
            ∧ k.ctx = ca.ctx.child info
            ∧ k.dates = ca.dates ++ [vm.mft.ee.notAfter, vm.mft.nextUpdate, crlNextUpdate crl]
                ++ [c.notAfter]) := by
  intro r
  have pf := processPointX_from cfg now coll st ca hst
  generalize hr : processPointX cfg now coll st ca = r' at pf
  have hrr : r = r' := hr
  rw [hrr]
  cases pf with
  | none stored hstored => exact Or.inl ⟨rfl, rfl⟩
  | used vm crl objs stored used hver hstored =>
    refine Or.inr ⟨vm, crl, objs, hver, rfl, ?_, ?_, ?_, ?_, ?_, ?_⟩
    · intro d hd; simp only [List.mem_append]; exact Or.inl (Or.inl hd)
    · simp [pointDates]
    · simp [pointDates]
    · simp [pointDates]
    · intro o ho i c hy hc
      simp only [List.mem_append]
      exact Or.inr (runStoredObjectsX_objDates cfg now ca.ctx vm _ objs _ o ho i hy c hc)
    · intro k hk
      rcases runStoredObjectsX_kids _ _ _ _ _ _ _ _ hk with hk | ⟨o, ho, c, info, r, hiss, rfl⟩
      · simp at hk
      · exact ⟨o, ho, c, info, hiss, rfl, rfl⟩

/-- **C39, non-contributing objects.** An object that adds no payload (invalid, disabled
type, a ROA all of whose prefixes are filtered, a GBR, …) leaves the refresh time alone. -/
theorem C39_silent_object (cfg : Cfg) (now : Int) (ca : CaCtx) (vm : ValidMft) (pd : List Int)
    (ext : Ext) (content : Content) (a : Acc)
    (h : (processObjectX cfg now ca vm pd ext content a).items = a.items) :
    (processObjectX cfg now ca vm pd ext content a).refresh = a.refresh :=
  processObjectX_silent cfg now ca vm pd ext content a h

/-! ## Non-vacuity -/

namespace C39Example
def cfg : Cfg := ⟨.reject, 32, false, true⟩
def crlFile : File := ⟨50, .crl true 900 []⟩
/-- contributes; EE certificate expires at 700 -/
def roaA : File := ⟨51, .roa ⟨true, 10, 0, 700, some 7⟩ [64496]⟩
/-- ASPA is disabled: expires at 300 but must not constrain -/
def asaB : File := ⟨52, .asa ⟨true, 11, 0, 300, some 7⟩ [64497]⟩
def mft : MftFile := ⟨1, some ⟨⟨true, 1, 0, 1000, some 7⟩, some 0, 1, 10, 800,
  [⟨0, .crl, 50, true⟩, ⟨1, .roa, 51, true⟩, ⟨2, .asa, 52, true⟩]⟩⟩
def ta : TaFile := ⟨90, some ⟨0, true, 0, 2000, ⟨0, 9, 8⟩⟩⟩
def view : View := ⟨[(5, ta)], [(8, ⟨some mft, [(0, crlFile), (1, roaA), (2, asaB)], []⟩)]⟩
def tals : List Tal := [⟨0, [5]⟩]
end C39Example

open C39Example in
/-- TA 2000, manifest EE 1000, manifest nextUpdate 800, CRL nextUpdate 900, ROA 700, disabled
ASPA 300: the refresh time is 700. -/
example : snapshotRefresh (runOnceX cfg 100 (some view) tals ⟨[], []⟩).1 = some 700 := by decide

end RoutinatorModel
