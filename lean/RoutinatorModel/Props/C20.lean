import RoutinatorModel.Proofs.Validity
/-!
# C20 — Route origin validation follows RFC 6811

Model: `Model/Prefix.lean` (`Prefix.covers`, transcribed from `rpki`), `Model/Validity.lean`
(`RouteValidity.new/state/reason`, transcribed from `src/validity.rs`).

Statements are for *every* route and *every* list of VRPs (any length, duplicates allowed).
`Prefix.Covers` is the mathematical notion on bit strings; `C20_covers_spec` shows that the
mask trick in `Prefix::covers` decides it for well-formed prefixes (host bits zero, length
within the family), which is what `Prefix::new`/`new_relaxed` construct.
-/
namespace RoutinatorModel
open RouteValidity

/-- A VRP *covers* a route prefix (RFC 6811 §2). -/
def Vrp.Covers (v : Vrp) (pfx : Prefix) : Prop := v.pfx.Covers pfx

/-- A VRP *matches* a route (RFC 6811 §2): it covers the prefix, the route is not longer
than the (resolved) max length, and the AS numbers are equal. -/
def Vrp.Matches (v : Vrp) (pfx : Prefix) (asn : Nat) : Prop :=
  v.Covers pfx ∧ pfx.len ≤ v.resolvedMaxLen ∧ v.asn = asn

/-- Every prefix in the data set and the route's prefix are well-formed. -/
def AllWF (pfx : Prefix) (S : List Vrp) : Prop := pfx.WF ∧ ∀ v ∈ S, v.pfx.WF

/-- The bit trick of `Prefix::covers` decides "same family ∧ p.len ≤ q.len ∧ first p.len
bits equal". -/
theorem C20_covers_spec {p q : Prefix} (hp : p.WF) (hq : q.WF) :
    p.covers q = true ↔
      (p.v4 = q.v4 ∧ p.len ≤ q.len ∧ ∀ i, i < p.len → q.bit i = p.bit i) :=
  Prefix.covers_iff hp hq

/-- The executable well-formedness test used by the driver is the stated one. -/
theorem C20_wf_spec (p : Prefix) : p.wfB = true ↔ p.WF := Prefix.wfB_iff p

/-- The three lists, element by element: a VRP of the data set is listed as matched iff it
matches; as unmatched-length iff it covers and the route is longer than its max length; as
unmatched-AS iff it covers, the length is fine and the AS differs. Nothing else is listed. -/
theorem C20_lists_mem {pfx : Prefix} {asn : Nat} {S : List Vrp} (h : AllWF pfx S) (v : Vrp) :
    (v ∈ (new pfx asn S).matched ↔ v ∈ S ∧ v.Matches pfx asn) ∧
    (v ∈ (new pfx asn S).badLen ↔ v ∈ S ∧ v.Covers pfx ∧ pfx.len > v.resolvedMaxLen) ∧
    (v ∈ (new pfx asn S).badAsn ↔
      v ∈ S ∧ v.Covers pfx ∧ pfx.len ≤ v.resolvedMaxLen ∧ v.asn ≠ asn) := by
  rw [new_eq]
  simp only [List.mem_filter, isMatch, isBadAsn, isBadLen, Bool.and_eq_true, decide_eq_true_iff,
    Vrp.Matches, Vrp.Covers]
  refine ⟨?_, ?_, ?_⟩ <;>
  · constructor
    · rintro ⟨hm, hc⟩
      have := Prefix.covers_iff (h.2 v hm) h.1
      simp_all
    · rintro ⟨hm, hc⟩
      have := Prefix.covers_iff (h.2 v hm) h.1
      simp_all

/-- The lists keep the data set's order and multiplicity: they are the sub-lists selected by
the three criteria (code form, no hypotheses). -/
theorem C20_lists_eq (pfx : Prefix) (asn : Nat) (S : List Vrp) :
    (new pfx asn S).matched = S.filter (isMatch pfx asn) ∧
    (new pfx asn S).badAsn = S.filter (isBadAsn pfx asn) ∧
    (new pfx asn S).badLen = S.filter (isBadLen pfx) := by
  rw [new_eq]; exact ⟨rfl, rfl, rfl⟩

/-- matched ++ unmatched_as ++ unmatched_length is a permutation of the covering VRPs … -/
theorem C20_partition_perm (pfx : Prefix) (asn : Nat) (S : List Vrp) :
    ((new pfx asn S).matched ++ (new pfx asn S).badAsn ++ (new pfx asn S).badLen).Perm
      (S.filter (fun v => v.pfx.covers pfx)) := by
  rw [new_eq]
  exact perm_three S (isCovering pfx) _ _ _
    (fun v => (classes pfx asn v).1) (fun v => (classes pfx asn v).2.1)
    (fun v => (classes pfx asn v).2.2.1) (fun v => (classes pfx asn v).2.2.2)

/-- … and the three lists are pairwise disjoint. -/
theorem C20_partition_disjoint (pfx : Prefix) (asn : Nat) (S : List Vrp) (v : Vrp) :
    ¬ (v ∈ (new pfx asn S).matched ∧ v ∈ (new pfx asn S).badAsn) ∧
    ¬ (v ∈ (new pfx asn S).matched ∧ v ∈ (new pfx asn S).badLen) ∧
    ¬ (v ∈ (new pfx asn S).badAsn ∧ v ∈ (new pfx asn S).badLen) := by
  rw [new_eq]
  have := classes pfx asn v
  simp only [List.mem_filter]
  refine ⟨?_, ?_, ?_⟩ <;> (rintro ⟨⟨_, h1⟩, ⟨_, h2⟩⟩; simp_all)

/-- `valid` iff some VRP of the data set matches the route. -/
theorem C20_valid_iff {pfx : Prefix} {asn : Nat} {S : List Vrp} (h : AllWF pfx S) :
    (new pfx asn S).state = .valid ↔ ∃ v ∈ S, v.Matches pfx asn := by
  have hm := fun v => (C20_lists_mem (asn := asn) h v).1
  unfold state
  cases hl : (new pfx asn S).matched with
  | nil =>
    simp only [List.isEmpty_nil, if_true]
    constructor
    · intro h'; split at h' <;> cases h'
    · rintro ⟨v, hv, hmt⟩
      have := (hm v).2 ⟨hv, hmt⟩
      rw [hl] at this; cases this
  | cons a l =>
    simp only [List.isEmpty_cons, Bool.false_eq_true, if_false, true_iff]
    have := (hm a).1 (by rw [hl]; exact List.mem_cons_self)
    exact ⟨a, this.1, this.2⟩

/-- `not-found` iff no VRP of the data set covers the route's prefix. -/
theorem C20_notfound_iff {pfx : Prefix} {asn : Nat} {S : List Vrp} (h : AllWF pfx S) :
    (new pfx asn S).state = .notFound ↔ ¬ ∃ v ∈ S, v.Covers pfx := by
  have hm := fun v => C20_lists_mem (asn := asn) h v
  unfold state
  constructor
  · intro hs
    rintro ⟨v, hv, hc⟩
    split at hs
    · rename_i h1
      split at hs
      · rename_i h2
        simp only [Bool.and_eq_true, List.isEmpty_iff] at h1 h2
        by_cases hlen : pfx.len ≤ v.resolvedMaxLen
        · by_cases ha : v.asn = asn
          · have := (hm v).1.2 ⟨hv, hc, hlen, ha⟩
            rw [h1] at this; cases this
          · have := (hm v).2.2.2 ⟨hv, hc, hlen, ha⟩
            rw [h2.1] at this; cases this
        · have := (hm v).2.1.2 ⟨hv, hc, by omega⟩
          rw [h2.2] at this; cases this
      · cases hs
    · cases hs
  · intro hn
    have e1 : (new pfx asn S).matched = [] := by
      apply List.eq_nil_iff_forall_not_mem.2
      intro v hv
      have := (hm v).1.1 hv
      exact hn ⟨v, this.1, this.2.1⟩
    have e2 : (new pfx asn S).badAsn = [] := by
      apply List.eq_nil_iff_forall_not_mem.2
      intro v hv
      have := (hm v).2.2.1 hv
      exact hn ⟨v, this.1, this.2.1⟩
    have e3 : (new pfx asn S).badLen = [] := by
      apply List.eq_nil_iff_forall_not_mem.2
      intro v hv
      have := (hm v).2.1.1 hv
      exact hn ⟨v, this.1, this.2.1⟩
    simp [e1, e2, e3]

/-- `invalid` iff some VRP covers the route's prefix but none matches the route. -/
theorem C20_invalid_iff {pfx : Prefix} {asn : Nat} {S : List Vrp} (h : AllWF pfx S) :
    (new pfx asn S).state = .invalid ↔
      (∃ v ∈ S, v.Covers pfx) ∧ ¬ ∃ v ∈ S, v.Matches pfx asn := by
  have hnf := C20_notfound_iff (asn := asn) h
  have hc : (∃ v ∈ S, v.Covers pfx) ↔ (new pfx asn S).state ≠ .notFound := by
    constructor
    · intro he hs; exact hnf.1 hs he
    · intro hs; exact Classical.byContradiction fun hne => hs (hnf.2 hne)
  rw [← C20_valid_iff h, hc]
  cases (new pfx asn S).state <;> simp

/-- The reason follows the lists: `"as"` iff invalid and some covering VRP has a sufficient
max length (but another AS); `"length"` iff invalid and every covering VRP has a too-short
max length; no reason iff the state is not `invalid`. -/
theorem C20_reason (pfx : Prefix) (asn : Nat) (S : List Vrp) :
    let r := new pfx asn S
    (r.reason = some "as" ↔ r.state = .invalid ∧ r.badAsn ≠ []) ∧
    (r.reason = some "length" ↔ r.state = .invalid ∧ r.badAsn = []) ∧
    (r.reason = none ↔ r.state ≠ .invalid) := by
  intro r
  unfold reason state
  cases r.matched <;> cases r.badAsn <;> cases r.badLen <;> simp

/-- The reason in terms of the data set. -/
theorem C20_reason_spec {pfx : Prefix} {asn : Nat} {S : List Vrp} (h : AllWF pfx S) :
    ((new pfx asn S).reason = some "as" ↔
      (new pfx asn S).state = .invalid ∧ ∃ v ∈ S, v.Covers pfx ∧ pfx.len ≤ v.resolvedMaxLen) ∧
    ((new pfx asn S).reason = some "length" ↔
      (new pfx asn S).state = .invalid ∧
        ∀ v ∈ S, v.Covers pfx → pfx.len > v.resolvedMaxLen) := by
  have hr := C20_reason pfx asn S
  have hm := fun v => C20_lists_mem (asn := asn) h v
  have hinv := C20_invalid_iff (asn := asn) h
  simp only at hr
  constructor
  · rw [hr.1]
    constructor
    · rintro ⟨hs, hne⟩
      refine ⟨hs, ?_⟩
      obtain ⟨v, hv⟩ := List.exists_mem_of_ne_nil _ hne
      have := (hm v).2.2.1 hv
      exact ⟨v, this.1, this.2.1, this.2.2.1⟩
    · rintro ⟨hs, v, hv, hc, hl⟩
      refine ⟨hs, ?_⟩
      have hnm := (hinv.1 hs).2
      have ha : v.asn ≠ asn := fun ha => hnm ⟨v, hv, hc, hl, ha⟩
      have := (hm v).2.2.2 ⟨hv, hc, hl, ha⟩
      intro e; rw [e] at this; cases this
  · rw [hr.2.1]
    constructor
    · rintro ⟨hs, he⟩
      refine ⟨hs, ?_⟩
      intro v hv hc
      have hnm := (hinv.1 hs).2
      by_cases hl : pfx.len ≤ v.resolvedMaxLen
      · have ha : v.asn ≠ asn := fun ha => hnm ⟨v, hv, hc, hl, ha⟩
        have := (hm v).2.2.2 ⟨hv, hc, hl, ha⟩
        rw [he] at this; cases this
      · omega
    · rintro ⟨hs, hall⟩
      refine ⟨hs, ?_⟩
      apply List.eq_nil_iff_forall_not_mem.2
      intro v hv
      have := (hm v).2.2.1 hv
      have := hall v this.1 this.2.1
      omega

/-! ### Non-vacuity: concrete routes against a concrete data set -/

section Examples
/-- `10.0.0.0/8` -/
def ex10_8 : Prefix := ⟨true, 8, 0x0a000000#128 <<< 96⟩
/-- `10.1.0.0/16` -/
def ex10_1_16 : Prefix := ⟨true, 16, 0x0a010000#128 <<< 96⟩
/-- `10.1.1.0/24` -/
def ex10_1_1_24 : Prefix := ⟨true, 24, 0x0a010100#128 <<< 96⟩
/-- `2001:db8::/32` -/
def exV6 : Prefix := ⟨false, 32, 0x20010db8#128 <<< 96⟩

def exSet : List Vrp :=
  [⟨ex10_8, some 16, 64496⟩, ⟨ex10_1_16, none, 64497⟩, ⟨exV6, some 48, 64496⟩]

example : ex10_8.wfB = true ∧ ex10_1_16.wfB = true ∧ ex10_1_1_24.wfB = true ∧ exV6.wfB = true := by
  decide
example : AllWF ex10_1_16 exSet := by
  refine ⟨(Prefix.wfB_iff _).1 (by decide), ?_⟩
  intro v hv
  simp only [exSet, List.mem_cons, List.not_mem_nil, or_false] at hv
  rcases hv with rfl | rfl | rfl <;> exact (Prefix.wfB_iff _).1 (by decide)
example : ex10_8.covers ex10_1_16 = true ∧ ex10_1_16.covers ex10_8 = false
    ∧ exV6.covers ex10_8 = false := by decide
-- valid, invalid by AS, invalid by length (AS-mismatching VRP with too-short max length is
-- listed under length), not found
example : (new ex10_1_16 64496 exSet).state = .valid := by decide
example : (new ex10_1_16 64499 exSet).state = .invalid ∧
    (new ex10_1_16 64499 exSet).reason = some "as" := by decide
example : (new ex10_1_1_24 64496 exSet).state = .invalid ∧
    (new ex10_1_1_24 64496 exSet).reason = some "length" ∧
    (new ex10_1_1_24 64496 exSet).badLen.length = 2 := by decide
example : (new exV6 1 []).state = .notFound := by decide
end Examples

end RoutinatorModel
