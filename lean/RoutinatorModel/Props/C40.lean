import RoutinatorModel.Model.Cleanup
import RoutinatorModel.Proofs.Store
/-!
# C40 — Cleanup keeps everything still needed

Model: `RoutinatorModel.Cleanup` (`Model/Cleanup.lean`): the cache = file-level store + the
collector's local copies by repository key (rsync module / RRDP repository);
`Cache.cleanup` = `engine::Run::cleanup` (store cleanup with `StoredPoint::retain`,
registration of the repositories of retained points, collector cleanup keeping registered
repositories and those updated in this run); `finishRun` = the tail of
`ValidationReport::process` (`process()?`, then `cleanup()` unless `dirty`).

"Expired" is what the code's retention rule says: a stored point is kept while
`notAfter > now` (see notes/C40.md for the one-second boundary `notAfter = now`).

* `C40_unexpired_points_kept`: a stored point whose manifest certificate has not expired is
  still stored, unchanged, after the end of a run — whatever the run did, with or without
  collector, dirty or not, failed or not.
* `C40_attempted_points_kept`: so is the marker of a never-successful point attempted in this run.
* `C40_repositories_kept`: a local copy of a repository that is used by a retained stored
  point, or was updated in this run, survives.
* `C40_dirty_unchanged`, `C40_failed_run_unchanged`: with `dirty` and after a failed run the
  cache is exactly what validation left.
* `C40_run_keeps`: the same for the executable complete run `runFullC` (validation by the
  file-level engine model, every repository touched in the run is in `updated`).
* `C40_only_unneeded_removed`: conversely, a stored point that disappears was expired (or a
  stale never-successful marker, or unreadable), and a local copy that disappears was neither
  updated in this run nor used by a retained point.
-/
namespace RoutinatorModel
open Engine StoreFile Cleanup

theorem Cleanup.lookup_filter_of_pos {α : Type} (p : Nat × α → Bool) {k : Nat} {v : α}
    {l : List (Nat × α)} (h : lookup k l = some v) (hp : p (k, v) = true) :
    lookup k (l.filter p) = some v := by
  induction l with
  | nil => simp [lookup] at h
  | cons q rest ih =>
    obtain ⟨k', v'⟩ := q
    unfold lookup at h
    by_cases hk : k' = k
    · subst hk
      simp only [↓reduceIte, Option.some.injEq] at h
      subst h
      simp [List.filter, hp, lookup]
    · simp only [hk, ↓reduceIte] at h
      by_cases hq : p (k', v') = true
      · simp [List.filter, hq, lookup, hk, ih h]
      · simp [List.filter, hq, ih h]

/-- What `finishRun` does to the store: nothing, or `FStore.cleanup`. -/
theorem Cleanup.finishRun_store (keyOf : Uri → RepoKey) (dirty ok : Bool) (now started : Int)
    (updated : List RepoKey) (collector : Bool) (c : Cache) :
    (finishRun keyOf dirty ok now started updated collector c).store = c.store
    ∨ (finishRun keyOf dirty ok now started updated collector c).store
        = c.store.cleanup now started := by
  unfold finishRun
  split
  · exact Or.inl rfl
  · split
    · exact Or.inl rfl
    · exact Or.inr rfl

/-- A point file that `StoredPoint::retain` keeps is found unchanged after the run. -/
theorem Cleanup.retained_file_kept (keyOf : Uri → RepoKey) (dirty ok : Bool) (now started : Int)
    (updated : List RepoKey) (collector : Bool) (c : Cache) (u : Uri) (f : PointFile)
    (hf : lookup u c.store.files = some f) (hr : f.retain now started = true) :
    lookup u (finishRun keyOf dirty ok now started updated collector c).store.files = some f := by
  rcases finishRun_store keyOf dirty ok now started updated collector c with h | h
  · rw [h]; exact hf
  · rw [h]
    exact lookup_filter_of_pos (fun p => p.2.retain now started) hf hr

/-- **C40, store.** A stored publication point whose manifest EE certificate has not expired
(`notAfter > now`) is still stored, byte for byte, when the run has finished. -/
theorem C40_unexpired_points_kept (keyOf : Uri → RepoKey) (dirty ok : Bool) (now started : Int)
    (updated : List RepoKey) (collector : Bool) (c : Cache) (u : Uri) (t : Int) (s : Stored)
    (hf : lookup u c.store.files = some (.success t s)) (hvalid : s.notAfter > now) :
    (finishRun keyOf dirty ok now started updated collector c).store.file u = .success t s := by
  have := retained_file_kept keyOf dirty ok now started updated collector c u _ hf
    (by simp [PointFile.retain, hvalid])
  simp [FStore.file, this]

/-- **C40, store.** The `LastAttempt` marker of a never-successful point that was attempted in
this run (`when ≥ started`) is kept. -/
theorem C40_attempted_points_kept (keyOf : Uri → RepoKey) (dirty ok : Bool) (now started : Int)
    (updated : List RepoKey) (collector : Bool) (c : Cache) (u : Uri) (t : Int)
    (hf : lookup u c.store.files = some (.attempt t)) (hthis : t ≥ started) :
    (finishRun keyOf dirty ok now started updated collector c).store.file u = .attempt t := by
  have := retained_file_kept keyOf dirty ok now started updated collector c u _ hf
    (by simp [PointFile.retain, hthis])
  simp [FStore.file, this]

/-- **C40, collector.** The local copy of a repository survives the end of the run if the
repository was updated (touched) in this run, or a stored point that is retained lives in it. -/
theorem C40_repositories_kept (keyOf : Uri → RepoKey) (dirty ok : Bool) (now started : Int)
    (updated : List RepoKey) (collector : Bool) (c : Cache) (k : RepoKey) (hk : k ∈ c.repos)
    (hneeded : k ∈ updated
      ∨ ∃ p ∈ c.store.files, p.2.retain now started = true ∧ keyOf p.1 = k) :
    k ∈ (finishRun keyOf dirty ok now started updated collector c).repos := by
  unfold finishRun
  split
  · exact hk
  · split
    · exact hk
    · unfold Cache.cleanup
      simp only
      split
      · rw [List.mem_filter]
        refine ⟨hk, ?_⟩
        simp only [List.contains_eq_mem, List.mem_append, decide_eq_true_eq]
        rcases hneeded with h | ⟨p, hp, hr, hkey⟩
        · exact Or.inr h
        · left
          unfold registered
          rw [List.mem_map]
          refine ⟨p, ?_, hkey⟩
          simp only [FStore.cleanup, List.mem_filter]
          exact ⟨hp, hr⟩
      · exact hk

/-- **C40, dirty.** -/
theorem C40_dirty_unchanged (keyOf : Uri → RepoKey) (ok : Bool) (now started : Int)
    (updated : List RepoKey) (collector : Bool) (c : Cache) :
    finishRun keyOf true ok now started updated collector c = c := by
  unfold finishRun; split <;> rfl

/-- **C40, failed run.** `run.process()?` leaves before `cleanup`. -/
theorem C40_failed_run_unchanged (keyOf : Uri → RepoKey) (dirty : Bool) (now started : Int)
    (updated : List RepoKey) (collector : Bool) (c : Cache) :
    finishRun keyOf dirty false now started updated collector c = c := by
  unfold finishRun; rfl

theorem Cleanup.mem_addNew_left {l ks : List RepoKey} {k : RepoKey} (h : k ∈ l) :
    k ∈ addNew l ks := by
  induction ks generalizing l with
  | nil => exact h
  | cons x xs ih =>
    unfold addNew
    split
    · exact ih h
    · exact ih (List.mem_append_left _ h)

theorem Cleanup.mem_addNew_right {l ks : List RepoKey} {k : RepoKey} (h : k ∈ ks) :
    k ∈ addNew l ks := by
  induction ks generalizing l with
  | nil => cases h
  | cons x xs ih =>
    unfold addNew
    rcases List.mem_cons.mp h with rfl | h
    · split
      · rename_i hc
        exact mem_addNew_left (by simpa using hc)
      · exact mem_addNew_left (by simp)
    · split <;> exact ih h

/-- **C40, complete run.** For the executable run `runFullC` (validation over the file-level
store, then the end of `ValidationReport::process`): every stored point the validation left
with an unexpired manifest certificate is still stored; every repository the run touched has
its local copy; a local copy that existed before and is used by a retained point is kept. -/
theorem C40_run_keeps (keyOf repoKey : Uri → RepoKey) (dirty : Bool) (cfg : Cfg) (tals : List Tal)
    (r : Run) (c : Cache) :
    let v := runOnceV cfg r.now r.view tals c.store
    let out := (runFullC keyOf repoKey dirty cfg tals r c).2
    (∀ u t s, lookup u v.2.files = some (.success t s) → s.notAfter > r.now →
        out.store.file u = .success t s)
    ∧ (r.view.isSome = true → ∀ uri ∈ v.1.2, repoKey uri ∈ out.repos)
    ∧ (∀ k ∈ c.repos, (∃ p ∈ v.2.files, p.2.retain r.now r.now = true ∧ keyOf p.1 = k) →
        k ∈ out.repos) := by
  intro v out
  refine ⟨?_, ?_, ?_⟩
  · intro u t s hf hvalid
    exact C40_unexpired_points_kept keyOf _ true r.now r.now _ _ ⟨v.2, _⟩ u t s hf hvalid
  · intro hcoll uri huri
    have hupd : repoKey uri ∈ (if r.view.isSome then v.1.2.map repoKey else []) := by
      simp only [hcoll, ↓reduceIte]
      exact List.mem_map_of_mem huri
    exact C40_repositories_kept keyOf _ true r.now r.now _ _ ⟨v.2, _⟩ _
      (mem_addNew_right hupd) (Or.inl hupd)
  · intro k hk hp
    exact C40_repositories_kept keyOf _ true r.now r.now _ _ ⟨v.2, _⟩ _
      (mem_addNew_left hk) (Or.inr hp)

/-- **C40, converse.** Whatever disappears was not needed: a point file that is gone was not
retainable (expired manifest certificate, a marker not refreshed in this run, unreadable),
and a local copy that is gone was not updated in this run and no retained point lives in it;
moreover nothing disappears at all unless the run succeeded without `dirty`. -/
theorem C40_only_unneeded_removed (keyOf : Uri → RepoKey) (dirty ok : Bool) (now started : Int)
    (updated : List RepoKey) (collector : Bool) (c : Cache) :
    let c' := finishRun keyOf dirty ok now started updated collector c
    (∀ p ∈ c.store.files, p ∉ c'.store.files →
        p.2.retain now started = false ∧ ok = true ∧ dirty = false)
    ∧ (∀ k ∈ c.repos, k ∉ c'.repos →
        k ∉ updated ∧ (∀ p ∈ c'.store.files, keyOf p.1 ≠ k) ∧ ok = true ∧ dirty = false
          ∧ collector = true) := by
  intro c'
  cases ok with
  | false =>
    have : c' = c := C40_failed_run_unchanged keyOf dirty now started updated collector c
    rw [this]
    exact ⟨fun p hp hn => absurd hp hn, fun k hk hn => absurd hk hn⟩
  | true =>
    cases dirty with
    | true =>
      have : c' = c := C40_dirty_unchanged keyOf true now started updated collector c
      rw [this]
      exact ⟨fun p hp hn => absurd hp hn, fun k hk hn => absurd hk hn⟩
    | false =>
      have hc' : c' = c.cleanup keyOf now started updated collector := by
        simp [c', finishRun]
      rw [hc']
      refine ⟨?_, ?_⟩
      · intro p hp hn
        simp only [Cache.cleanup, FStore.cleanup, List.mem_filter, not_and] at hn
        refine ⟨?_, rfl, rfl⟩
        simpa using hn hp
      · intro k hk hn
        cases collector with
        | false => simp [Cache.cleanup] at hn; exact absurd hk hn
        | true =>
          simp only [Cache.cleanup, ↓reduceIte, List.mem_filter, not_and, List.contains_eq_mem,
            List.mem_append, decide_eq_true_eq, not_or] at hn
          have := hn hk
          refine ⟨this.2, ?_, rfl, rfl, rfl⟩
          intro p hp hkey
          apply this.1
          unfold registered
          rw [List.mem_map]
          exact ⟨p, hp, hkey⟩

/-! ## Non-vacuity -/

namespace C40Example
def st (notAfter : Int) : Stored := ⟨⟨1, none⟩, 1, 10, notAfter, 9, .junk, []⟩
/-- Points 1 (module 7, expires at 100), 2 (module 8, expires at 300), a stale marker 3
(module 9); local copies of modules 7, 8, 9, 5. -/
def cache : Cache :=
  ⟨⟨[(1, .success 50 (st 100)), (2, .success 50 (st 300)), (3, .attempt 40)], []⟩, [7, 8, 9, 5]⟩
def keyOf : Uri → RepoKey := fun u => u + 6
end C40Example

open C40Example in
/-- At time 200, in a run that updated module 5 only: point 1 (expired) and the stale marker go,
point 2 stays; modules 8 (retained point) and 5 (updated) stay, 7 and 9 go. With `dirty`, or
after a failed run, nothing changes. At `now = notAfter` the point is removed by the code. -/
example :
    (finishRun keyOf false true 200 200 [5] true cache).store.files = [(2, .success 50 (st 300))]
    ∧ (finishRun keyOf false true 200 200 [5] true cache).repos = [8, 5]
    ∧ (finishRun keyOf true true 200 200 [5] true cache).repos = [7, 8, 9, 5]
    ∧ (finishRun keyOf false false 200 200 [5] true cache).store.files.length = 3
    ∧ (finishRun keyOf false true 100 100 [] true cache).store.file 1 = .absent
    ∧ (finishRun keyOf false true 99 99 [] true cache).store.file 1 = .success 50 (st 100) := by
  decide

end RoutinatorModel
