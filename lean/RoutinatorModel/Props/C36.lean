import RoutinatorModel.Proofs.Registry
/-!
# C36 — RTR client metrics stay consistent under concurrent connections

Model: `Model/Registry.lean` (`Registry.sys`: all interleavings of any number of connections
from any addresses through `RtrPerAddrMetrics::get`, `RtrClientMetrics::update(inc)` at
connection setup and `update(dec)` at drop). Labels are the atomic steps between the hook points
`metrics.*` in `metrics.rs`, refined by `relret`, `incC`, `decC`.

Partial: `ArcSwap`, the `write` mutex and the atomic counters are modelled as sequentially
consistent cells; the model cannot exhibit weak-memory behaviour of `Relaxed` counters or
anything inside `arc_swap`.
-/
namespace RoutinatorModel
open Registry

/-- The published list is strictly sorted by address in every reachable state. -/
theorem C36_sorted {s : St} (h : Reach sys s) : SortedKeys s.cell := (inv_reach s h).sorted

/-- … hence no address is listed twice. -/
theorem C36_nodup {s : St} (h : Reach sys s) : (s.cell.map Prod.fst).Nodup := by
  have := C36_sorted h
  unfold SortedKeys at this
  exact this.imp (fun hlt => Nat.ne_of_lt hlt)

/-- No two addresses share an entry object. -/
theorem C36_entries_distinct {s : St} (h : Reach sys s) : (s.cell.map Prod.snd).Nodup :=
  (inv_reach s h).entNodup

/-- Whatever `get(a)` returned (positions after the return: about to count, counted, open,
closing) is the entry listed for `a`, and it is the only entry listed for `a`. -/
theorem C36_get_returns_listed_entry {s : St} (h : Reach sys s) {t : Tid} {a : Addr} {e : Entry}
    (hp : (s.pc t).has = some (a, e)) :
    (a, e) ∈ s.cell ∧ ∀ e', (a, e') ∈ s.cell → e' = e := by
  have hi := inv_reach s h
  have hm := hi.has t a e hp
  exact ⟨hm, fun e' he' => sorted_unique hi.sorted he' hm⟩

/-- A step never removes a listed (address, entry) pair. -/
theorem C36_step_keeps_entries {s s' : St} {l : Label} (h : Reach sys s)
    (hs : step s l = some s') {x : Addr × Entry} (hx : x ∈ s.cell) : x ∈ s'.cell := by
  have hi := inv_reach s h
  obtain ⟨t, a⟩ := l
  cases a with
  | connect a =>
    simp only [step] at hs
    split at hs
    · injection hs with hs; subst hs; exact hx
    · simp at hs
  | step =>
    simp only [step] at hs
    split at hs
    · simp at hs
    · split at hs <;> (injection hs with hs; subst hs; exact hx)
    · split at hs
      · injection hs with hs; subst hs; exact hx
      · simp at hs
    · split at hs <;> (injection hs with hs; subst hs; exact hx)
    · injection hs with hs; subst hs; exact hx
    · rename_i a new e hpc
      injection hs with hs; subst hs
      obtain ⟨hnew, _⟩ := hi.build t a new e hpc
      subst hnew
      exact mem_ins.2 (Or.inr hx)
    all_goals (injection hs with hs; subst hs; exact hx)

/-- Present forever after: along any further schedule a listed pair stays listed. Together with
`C36_get_returns_listed_entry`: every address whose `get` returned stays recorded, under the
same entry, in all later states. -/
theorem C36_present_forever {s s' : St} (ls : List Label) (h : Reach sys s)
    (hr : sys.run s ls = some s') {x : Addr × Entry} (hx : x ∈ s.cell) : x ∈ s'.cell := by
  induction ls generalizing s with
  | nil => simp only [Sys.run] at hr; injection hr with hr; exact hr ▸ hx
  | cons l ls ih =>
    simp only [Sys.run] at hr
    cases hl : sys.step s l with
    | none => simp [hl] at hr
    | some s1 =>
      rw [hl] at hr
      exact ih (Reach.step (S := sys) h hl) hr (C36_step_keeps_entries h hl hx)

theorem inC_has {p : Pc} {x : Addr × Entry} (h : p.inC = some x) : p.has = some x := by
  cases p <;> simp [Pc.inC] at h <;> simp [Pc.has, h]

/-- The counter shown for address `a` equals the number of connections from `a` that are
currently counted (open, or closing and not yet subtracted). -/
theorem C36_client_count {s : St} (h : Reach sys s) {a : Addr} {e : Entry}
    (hm : (a, e) ∈ s.cell) :
    s.cnt e = ((s.cOpen.filter (fun x => x.2.1 == a)).length : Int) := by
  have hi := inv_reach s h
  rw [hi.cCnt e]
  congr 2
  apply List.filter_congr
  intro x hx
  obtain ⟨t, a', e'⟩ := x
  have hx' := hi.has t a' e' (inC_has ((hi.cMem t a' e').1 hx))
  show (e' == e) = (a' == a)
  by_cases he : e' = e
  · subst he
    have : a' = a := nodup_snd_unique hi.entNodup hx' hm
    simp [this]
  · have hne : a' ≠ a := by
      intro ha; subst ha; exact he (sorted_unique hi.sorted hx' hm)
    have h1 : (e' == e) = false := beq_false_of_ne he
    have h2 : (a' == a) = false := beq_false_of_ne hne
    rw [h1, h2]

/-- The global counter equals the number of connections currently counted in it. -/
theorem C36_global_count {s : St} (h : Reach sys s) : s.global = (s.gOpen.length : Int) :=
  (inv_reach s h).gLen

/-- Counters never go below zero (no underflow of the `usize` atomics). -/
theorem C36_counts_nonneg {s : St} (h : Reach sys s) : 0 ≤ s.global ∧ ∀ e, 0 ≤ s.cnt e := by
  have hi := inv_reach s h
  refine ⟨by rw [hi.gLen]; exact Int.natCast_nonneg _, fun e => ?_⟩
  rw [hi.cCnt e]; exact Int.natCast_nonneg _

/-- An open connection from `a` is counted under the entry listed for `a`. -/
theorem C36_open_is_counted {s : St} (h : Reach sys s) {t : Tid} {a : Addr} {e : Entry}
    (hp : s.pc t = .open a e) : (a, e) ∈ s.cell ∧ 1 ≤ s.cnt e ∧ 1 ≤ s.global := by
  have hi := inv_reach s h
  have hm : (t, a, e) ∈ s.cOpen := (hi.cMem t a e).2 (by rw [hp]; rfl)
  have hg : t ∈ s.gOpen := (hi.gMem t).2 (by rw [hp]; rfl)
  refine ⟨hi.has t a e (by rw [hp]; rfl), ?_, ?_⟩
  · rw [hi.cCnt e]
    have : (t, a, e) ∈ s.cOpen.filter (fun x => x.2.2 == e) := by
      simp [List.mem_filter, hm]
    have := List.length_pos_of_mem this
    omega
  · rw [hi.gLen]; have := List.length_pos_of_mem hg; omega

/-- Once every connection has closed (no thread is counted or half-way through counting), all
open-connection counts are back to zero. -/
theorem C36_returns_to_zero {s : St} (h : Reach sys s)
    (hidle : ∀ t, (s.pc t).inG = false ∧ (s.pc t).inC = none) :
    s.global = 0 ∧ ∀ e, s.cnt e = 0 := by
  have hi := inv_reach s h
  have hg : s.gOpen = [] := by
    cases hgo : s.gOpen with
    | nil => rfl
    | cons t tl =>
      have := (hi.gMem t).1 (by rw [hgo]; exact List.mem_cons_self ..)
      rw [(hidle t).1] at this; cases this
  have hc : s.cOpen = [] := by
    cases hco : s.cOpen with
    | nil => rfl
    | cons x tl =>
      obtain ⟨t, a, e⟩ := x
      have := (hi.cMem t a e).1 (by rw [hco]; exact List.mem_cons_self ..)
      rw [(hidle t).2] at this; cases this
  refine ⟨by rw [hi.gLen, hg]; rfl, fun e => by rw [hi.cCnt e, hc]; rfl⟩

/-- In particular when all threads are idle. -/
theorem C36_all_idle_zero {s : St} (h : Reach sys s) (hidle : ∀ t, s.pc t = .idle) :
    s.global = 0 ∧ ∀ e, s.cnt e = 0 :=
  C36_returns_to_zero h (fun t => by rw [hidle t]; exact ⟨rfl, rfl⟩)

/-! ### The replayed segments are runs of the model -/

theorem reach_settle_reg (t : Tid) (n : Nat) {s s' : St} (h : Reach sys s)
    (hs : settle t n s = some s') : Reach sys s' := by
  induction n generalizing s with
  | zero => simp [settle] at hs; exact hs ▸ h
  | succ n ih =>
    simp only [settle] at hs
    split at hs
    · injection hs with hs; exact hs ▸ h
    · split at hs
      · simp at hs
      · rename_i s1 h1
        exact ih (Reach.step (S := sys) (l := (t, Act.step)) h h1) hs

theorem C36_macro_reach {s s' : St} {l : Label} (h : Reach sys s)
    (hs : macroStep s l = some s') : Reach sys s' := by
  simp only [macroStep] at hs
  split at hs
  · simp at hs
  · rename_i s1 h1
    exact reach_settle_reg l.1 2 (Reach.step (S := sys) (l := l) h h1) hs

/-! ### Non-vacuity -/

/-- Two first connections from the same new address race: both pass the first search, thread 0
inserts, thread 1 finds the entry on the re-check under the mutex; both count on entry 0. -/
def raceCloseSchedule : List Label :=
  [(0, .connect 7), (1, .connect 7), (0, .step), (1, .step), (0, .step), (0, .step), (0, .step),
   (0, .step), (1, .step), (1, .step), (1, .step), (0, .step), (0, .step), (1, .step), (1, .step),
   (0, .step), (0, .step), (1, .step), (1, .step)]

def raceSchedule : List Label :=
  [(0, .connect 7), (1, .connect 7), (0, .step), (1, .step), (0, .step), (0, .step), (0, .step),
   (0, .step), (1, .step), (1, .step), (1, .step), (0, .step), (0, .step), (1, .step), (1, .step)]

example : ∃ s, Reach sys s ∧ s.cell = [(7, 0)] ∧ s.cnt 0 = 2 ∧ s.global = 2 ∧
    s.pc 0 = .open 7 0 ∧ s.pc 1 = .open 7 0 := by
  refine ⟨(sys.run sys.init raceSchedule).getD St.init, ?_, ?_⟩
  · exact reach_of_run_init (S := sys) raceSchedule (by rfl)
  · exact ⟨rfl, rfl, rfl, rfl, rfl⟩

/-- … and after both close everything is back to zero with the address still listed. -/
example : ∃ s, Reach sys s ∧ s.cell = [(7, 0)] ∧ s.cnt 0 = 0 ∧ s.global = 0 := by
  refine ⟨(sys.run sys.init raceCloseSchedule).getD St.init, ?_, ?_⟩
  · exact reach_of_run_init (S := sys) raceCloseSchedule (by rfl)
  · exact ⟨rfl, rfl, rfl⟩

end RoutinatorModel
