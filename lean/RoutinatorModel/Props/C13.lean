import RoutinatorModel.Proofs.History
/-!
# C13 — Serial-based synchronisation is exact or refused

Model: `Model/History.lean` (`History.deltaSince`, `rtrDiff`, `httpDelta`) over
`Model/Serial.lean` (RFC 1982 comparison with the incomparable case), as repaired by
`fixes/C13-delta-since-incomparable-serial.patch` and `fixes/C13-retained-base-version.patch`.

All statements hold for every history satisfying the invariant `History.Wf`, which
`wf_init` / `wf_update` / `wf_seed` / `wf_run` (Proofs/History.lean, re-exported below as
`C13_wf_reachable`) establish for **every** sequence of updates, every history size below
2^31 and — through `seed` — every start of the serial numbering in the 32-bit space. No
bound on the length of the history: after 2^32 changes the serials have wrapped, and the
theorems still apply.

The ghost log `h.log` lists every installed version `(data, serial)`, newest first; "the
data a client holds at serial `c`" is the data of the (unique) entry with serial `c` among
the newest `deltas.length + 1` entries.
-/
namespace RoutinatorModel

/-- Every history reachable from a fresh one by any sequence of updates with well-formed
data sets (and restarts of the numbering at any serial) satisfies the invariant. -/
theorem C13_wf_reachable (keep session : Nat) (hk : keep < serialHalf) (ops : List HistOp)
    (hok : ∀ op ∈ ops, op.Ok) : ((History.init keep session).run ops).Wf :=
  wf_run _ ops (wf_init keep session hk) hok

/-- Decomposition of a client serial relative to the oldest retained delta. -/
private theorem offset_of (a c : Nat) (hc : c < serialMod) :
    ∃ j, j < serialMod ∧ c = (a + j) % serialMod :=
  ⟨(c + serialMod - a % serialMod) % serialMod, Nat.mod_lt _ (by unfold serialMod; omega),
    by unfold serialMod at *; omega⟩

/-- **Exact.** Whatever `delta_since` returns for a client serial `c` turns the data logged
for serial `c` — one of the newest `deltas.length + 1` versions — into exactly the current
data, and is tagged with the current serial. -/
theorem C13_exact (h : History) (hw : h.Wf) (cur : Snapshot) (hcur : h.current = some cur)
    (c : Nat) (hc : c < serialMod) (d : PayloadDelta) (hd : h.deltaSince c = some d) :
    ∃ v ∈ h.log.take (h.deltas.length + 1),
      v.2 = c ∧ d.apply v.1 = cur ∧ d.serial = h.serial := by
  obtain ⟨hk, hw⟩ := hw
  rw [hcur] at hw
  obtain ⟨b, vs, ch⟩ := hw
  have hlen := ch.length
  have hser := ch.serial
  have hlast := ch.serials.last b rfl ch.base_lt
  -- membership in the newest entries of the log
  have hmem : ∀ v, v ∈ b :: vs → v ∈ h.log.take (h.deltas.length + 1) := by
    intro v hv
    obtain ⟨older, hl⟩ := ch.log
    rw [hl, hlen, List.take_append_of_le_length (by simp)]
    rw [List.take_of_length_le (by simp)]
    simp at hv ⊢
    rcases hv with hv | hv
    · right; exact hv
    · left; exact hv
  have hn : h.deltas.length < serialHalf := by
    have := ch.bound; rw [hlen]; unfold serialHalf at *; omega
  obtain ⟨j, hjm, hcj⟩ := offset_of (b.2 + 1) c hc
  by_cases hn0 : vs.length = 0
  · -- no deltas yet: only serial 0
    have hv : vs = [] := List.eq_nil_of_length_eq_zero hn0
    have hds : h.deltas = [] := by
      apply List.eq_nil_of_length_eq_zero; rw [hlen, hn0]
    unfold History.deltaSince History.deltaSinceWith at hd
    rw [hds] at hd
    simp only at hd
    split at hd
    · rename_i hc0
      simp at hd
      refine ⟨b, hmem b (by simp), ?_, ?_, ?_⟩
      · rw [ch.fresh hv, hc0]
      · rw [← hd, ← ch.cur, hv, lastOf_nil]; exact apply_empty ch.base_wf _
      · rw [← hd, hser, hv, lastOf_nil, ch.fresh hv, hc0]; rfl
    · simp at hd
  · by_cases hj1 : j + 1 < vs.length
    · -- an older retained delta: merge of all newer deltas = direct delta (C12)
      obtain ⟨x, xs, hdrop, hres⟩ := deltaSince_found h (b.2 + 1) j ch.serialsFrom hn
        (by rw [hlen]; exact hj1)
      obtain ⟨x', xs', hdrop', hfold⟩ := fold_drop b vs j hj1 ch.vs_wf
      rw [ch.deltas, hdrop'] at hdrop
      injection hdrop with e1 e2
      subst e1; subst e2
      rw [← hcj, hd] at hres
      injection hres with hres
      have hjv : j < vs.length := by omega
      refine ⟨vs[j], hmem _ (by simp), ?_, ?_, ?_⟩
      · rw [ch.serials.getElem j hjv, hcj]; congr 1; omega
      · rw [hres, hfold, ← ch.cur]
        have hlw : (lastOf b vs).1.WF := by rw [ch.cur]; exact ch.cur_wf
        exact C12_apply_merged (ch.vs_wf _ (by simp)) hlw _
      · rw [hres, hfold, hser]; rfl
    · by_cases hj2 : j + 1 = vs.length
      · -- the current serial: empty delta
        have hcs : c = h.serial := by
          rw [hser, hlast, hcj, ← hj2]; congr 1; omega
        rw [hcs, deltaSince_serial] at hd
        injection hd with hd
        refine ⟨lastOf b vs, hmem _ (lastOf_mem b vs), ?_, ?_, ?_⟩
        · rw [hcs, hser]
        · rw [← hd, ch.cur]; exact apply_empty ch.cur_wf _
        · rw [← hd]; rfl
      · by_cases hx : j = serialMod - 1
        · -- the version the oldest retained delta starts from: merge of all retained deltas
          have h0 : h.deltas ≠ [] := by
            intro e; rw [e] at hlen; simp at hlen; omega
          obtain ⟨x, xs, hrev, hres⟩ := deltaSince_base h (b.2 + 1) ch.serialsFrom hn h0
          have hcb : c = b.2 := by
            rw [hcj, hx]; have := ch.base_lt; unfold serialMod at *; omega
          rw [hx] at hcj
          rw [← hcj, hd] at hres
          injection hres with hres
          cases vs with
          | nil => simp at hn0
          | cons v0 vs0 =>
            obtain ⟨t, n⟩ := v0
            have hr := ch.deltas
            simp only [consecutive] at hr
            rw [hr] at hrev
            injection hrev with e1 e2
            subst e1; subst e2
            have hfold := C12_fold_merge b.1 t n vs0 ch.base_wf (ch.vs_wf (t, n) (by simp))
              (fun x hx => ch.vs_wf x (by simp [hx]))
            have hlw : (lastOf (t, n) vs0).1.WF := by
              have := ch.cur; rw [lastOf_cons] at this; rw [this]; exact ch.cur_wf
            refine ⟨b, hmem b (by simp), hcb.symm, ?_, ?_⟩
            · rw [hres, hfold, ← ch.cur, lastOf_cons]
              exact C12_apply_merged ch.base_wf hlw _
            · rw [hres, hfold, ch.serial, lastOf_cons]; rfl
        · -- everything else is refused
          have h0 : h.deltas ≠ [] := by
            intro e; rw [e] at hlen; simp at hlen; omega
          have := deltaSince_refuse h (b.2 + 1) j ch.serialsFrom hn h0 (by rw [hlen]; omega) hjm hx
          rw [← hcj, hd] at this
          simp at this

/-- **Current serial ⇒ empty change set**, tagged with the current serial. -/
theorem C13_current_empty (h : History) :
    h.deltaSince h.serial = some (PayloadDelta.empty h.serial) ∧
    (PayloadDelta.empty h.serial).isEmpty = true := ⟨deltaSince_serial h, rfl⟩

/-- **Window.** Every serial a retained delta leads to is answered (see `C13_window_base`
for the version the oldest one starts from and `C13_window_last` for the arithmetic form). -/
theorem C13_window (h : History) (hw : h.Wf) (cur : Snapshot) (hcur : h.current = some cur)
    (d : PayloadDelta) (hd : d ∈ h.deltas) : (h.deltaSince d.serial).isSome = true := by
  obtain ⟨hk, hw⟩ := hw
  rw [hcur] at hw
  obtain ⟨b, vs, ch⟩ := hw
  have hlen := ch.length
  have hn : h.deltas.length < serialHalf := by
    have := ch.bound; rw [hlen]; unfold serialHalf at *; omega
  have hr : d ∈ h.deltas.reverse := by simpa using hd
  obtain ⟨j, hj, hdj⟩ := List.getElem_of_mem hr
  have hs := ch.serialsFrom j hj
  rw [hdj] at hs
  rw [hs]
  simp at hj
  by_cases hj1 : j + 1 < h.deltas.length
  · obtain ⟨x, xs, _, hres⟩ := deltaSince_found h (b.2 + 1) j ch.serialsFrom hn hj1
    rw [hres]; rfl
  · have : (b.2 + 1 + j) % serialMod = h.serial := by
      rw [ch.serial, ch.serials.last b rfl ch.base_lt, ← hlen]; congr 1; omega
    rw [this, deltaSince_serial]; rfl

/-- The version the oldest retained delta starts from (serial `S − n`) is answered as well
(second repair): `n` retained deltas serve `n + 1` client serials. -/
theorem C13_window_base (h : History) (hw : h.Wf) (cur : Snapshot) (hcur : h.current = some cur) :
    (h.deltaSince ((h.serial + serialMod - h.deltas.length) % serialMod)).isSome = true := by
  obtain ⟨hk, hw⟩ := hw
  rw [hcur] at hw
  obtain ⟨b, vs, ch⟩ := hw
  have hlen := ch.length
  have hn : h.deltas.length < serialHalf := by
    have := ch.bound; rw [hlen]; unfold serialHalf at *; omega
  by_cases h0 : h.deltas = []
  · have hs : h.serial = 0 := by unfold History.serial; rw [h0]
    have e : (h.serial + serialMod - h.deltas.length) % serialMod = h.serial := by
      rw [hs, h0]; simp [serialMod]
    rw [e, deltaSince_serial]; rfl
  · obtain ⟨x, xs, _, hres⟩ := deltaSince_base h (b.2 + 1) ch.serialsFrom hn h0
    have hpos : 0 < h.deltas.length := List.length_pos_iff.mpr h0
    have e : (h.serial + serialMod - h.deltas.length) % serialMod
        = (b.2 + 1 + (serialMod - 1)) % serialMod := by
      rw [ch.serial, ch.serials.last b rfl ch.base_lt, ← hlen]
      have := ch.base_lt
      unfold serialMod serialHalf at *; omega
    rw [e, hres]; rfl

/-- **Window**, spelled out in serial arithmetic: each of the `n + 1` serials
`S, S−1, …, S−n` (modulo 2^32; `S` the current serial, `n` the number of retained deltas)
is answered. By `C14_retained_count`, `n = min (#changes) (max keep 1)`: in early history
(`#changes < max keep 1`) these are all serials issued so far, later they include the last
`max keep 1` serials. -/
theorem C13_window_last (h : History) (hw : h.Wf) (cur : Snapshot) (hcur : h.current = some cur)
    (i : Nat) (hi : i ≤ h.deltas.length) :
    (h.deltaSince ((h.serial + serialMod - i) % serialMod)).isSome = true := by
  by_cases hi' : i = h.deltas.length
  · rw [hi']; exact C13_window_base h hw cur hcur
  have hi : i < h.deltas.length := by omega
  have hw' := hw
  obtain ⟨hk, hw⟩ := hw
  rw [hcur] at hw
  obtain ⟨b, vs, ch⟩ := hw
  have hlen := ch.length
  have hn : h.deltas.length < serialHalf := by
    have := ch.bound; rw [hlen]; unfold serialHalf at *; omega
  have hmem : h.deltas[i] ∈ h.deltas := List.getElem_mem hi
  have hwin := C13_window h hw' cur hcur _ hmem
  have hs : (h.deltas[i]).serial = (h.serial + serialMod - i) % serialMod := by
    have hj : h.deltas.length - 1 - i < h.deltas.reverse.length := by simp; omega
    have h1 := ch.serialsFrom (h.deltas.length - 1 - i) hj
    rw [List.getElem_reverse] at h1
    have e : h.deltas.length - 1 - (h.deltas.length - 1 - i) = i := by omega
    simp only [e] at h1
    rw [h1, ch.serial, ch.serials.last b rfl ch.base_lt, ← hlen]
    unfold serialMod serialHalf at *; omega
  rw [← hs]; exact hwin

/-- **Answered exactly for the reconstructible versions.** A client serial gets a change set
iff it is the serial of one of the newest `deltas.length + 1` logged versions. -/
theorem C13_answered_iff (h : History) (hw : h.Wf) (cur : Snapshot) (hcur : h.current = some cur)
    (c : Nat) (hc : c < serialMod) :
    (h.deltaSince c).isSome = true ↔ ∃ v ∈ h.log.take (h.deltas.length + 1), v.2 = c := by
  constructor
  · intro hs
    cases hd : h.deltaSince c with
    | none => rw [hd] at hs; simp at hs
    | some d =>
      obtain ⟨v, hv, hvc, _⟩ := C13_exact h hw cur hcur c hc d hd
      exact ⟨v, hv, hvc⟩
  · rintro ⟨v, hv, hvc⟩
    have hw' := hw
    obtain ⟨hk, hw⟩ := hw
    rw [hcur] at hw
    obtain ⟨b, vs, ch⟩ := hw
    have hlen := ch.length
    have hlast := ch.serials.last b rfl ch.base_lt
    have hbl := ch.base_lt
    have hn : vs.length < serialHalf := by
      have := ch.bound; unfold serialHalf at *; omega
    obtain ⟨older, hl⟩ := ch.log
    rw [hl, hlen, List.take_append_of_le_length (by simp),
      List.take_of_length_le (by simp)] at hv
    simp at hv
    rcases hv with hv | hv
    · -- one of the versions the retained deltas lead to
      obtain ⟨k, hk', hvk⟩ := List.getElem_of_mem hv
      have hser := ch.serials.getElem k hk'
      rw [hvk] at hser
      have := C13_window_last h hw' cur hcur (vs.length - 1 - k) (by rw [hlen]; omega)
      have e : (h.serial + serialMod - (vs.length - 1 - k)) % serialMod = c := by
        rw [← hvc, hser, ch.serial, hlast]
        unfold serialMod serialHalf at *; omega
      rw [e] at this; exact this
    · -- the version the oldest retained delta starts from
      have := C13_window_base h hw' cur hcur
      have e : (h.serial + serialMod - h.deltas.length) % serialMod = c := by
        rw [← hvc, hv, ch.serial, hlast, hlen]
        unfold serialMod serialHalf at *; omega
      rw [e] at this; exact this

/-- **Refusal.** A serial that is neither the serial a retained delta leads to nor the
serial of the version the oldest retained delta starts from — i.e. not the serial of one of
the newest `deltas.length + 1` logged versions: future, never issued, too old, at distance
2^31, on the other side of a wrap-around — is refused. With `C13_answered_iff` this is tight. -/
theorem C13_refuse (h : History) (hw : h.Wf) (cur : Snapshot) (hcur : h.current = some cur)
    (c : Nat) (hc : c < serialMod)
    (hno : ∀ v ∈ h.log.take (h.deltas.length + 1), v.2 ≠ c) : h.deltaSince c = none := by
  cases hd : h.deltaSince c with
  | none => rfl
  | some d =>
    obtain ⟨v, hv, hvc, _⟩ := C13_exact h hw cur hcur c hc d hd
    exact absurd hvc (hno v hv)

/-- A serial up to 2^31 steps ahead of the current one (the future, including the
incomparable distance 2^31 itself) is refused. -/
theorem C13_refuse_future (h : History) (hw : h.Wf) (cur : Snapshot) (hcur : h.current = some cur)
    (k : Nat) (hk1 : 1 ≤ k) (hk2 : k ≤ serialHalf) :
    h.deltaSince ((h.serial + k) % serialMod) = none := by
  obtain ⟨hk, hw'⟩ := hw
  rw [hcur] at hw'
  obtain ⟨b, vs, ch⟩ := hw'
  have hlen := ch.length
  have hn : h.deltas.length < serialHalf := by
    have := ch.bound; rw [hlen]; unfold serialHalf at *; omega
  by_cases h0 : h.deltas = []
  · have hs : h.serial = 0 := by unfold History.serial; rw [h0]
    unfold History.deltaSince History.deltaSinceWith
    rw [h0, hs]
    have : k % serialMod ≠ 0 := by unfold serialMod serialHalf at *; omega
    simp [this]
  · have hpos : 0 < h.deltas.length := List.length_pos_iff.mpr h0
    have e : (h.serial + k) % serialMod = (b.2 + 1 + (h.deltas.length - 1 + k)) % serialMod := by
      rw [ch.serial, ch.serials.last b rfl ch.base_lt, ← hlen]
      unfold serialMod at *; omega
    rw [e]
    exact deltaSince_refuse h (b.2 + 1) _ ch.serialsFrom hn h0 (by omega)
      (by unfold serialMod serialHalf at *; omega) (by unfold serialMod serialHalf at *; omega)

/-- A serial at distance exactly 2^31 from *any* retained delta (incomparable with it) is
refused — the case the pinned tree answers with an empty delta. -/
theorem C13_refuse_incomparable (h : History) (hw : h.Wf) (cur : Snapshot)
    (hcur : h.current = some cur) (d : PayloadDelta) (hd : d ∈ h.deltas) :
    h.deltaSince ((d.serial + serialHalf) % serialMod) = none := by
  obtain ⟨hk, hw'⟩ := hw
  rw [hcur] at hw'
  obtain ⟨b, vs, ch⟩ := hw'
  have hlen := ch.length
  have hn : h.deltas.length < serialHalf := by
    have := ch.bound; rw [hlen]; unfold serialHalf at *; omega
  have hr : d ∈ h.deltas.reverse := by simpa using hd
  obtain ⟨j, hj, hdj⟩ := List.getElem_of_mem hr
  have hs := ch.serialsFrom j hj
  rw [hdj] at hs
  simp at hj
  have h0 : h.deltas ≠ [] := by intro e; rw [e] at hj; simp at hj
  have e : (d.serial + serialHalf) % serialMod = (b.2 + 1 + (j + serialHalf)) % serialMod := by
    rw [hs]; unfold serialMod serialHalf; omega
  rw [e]
  exact deltaSince_refuse h (b.2 + 1) _ ch.serialsFrom hn h0 (by omega)
    (by unfold serialMod serialHalf at *; omega) (by unfold serialMod serialHalf at *; omega)

/-! ### Session checks (`PayloadSource::diff`, `GET /json-delta`) -/

/-- RTR: a foreign session id is refused whatever the serial. -/
theorem C13_rtr_foreign_session (h : History) (sess c : Nat) (hs : sess ≠ h.rtrSession) :
    h.rtrDiff sess c = none := by
  unfold History.rtrDiff; simp [Ne.symm hs]

/-- RTR: an answer is `delta_since`'s delta tagged with the own session and current serial. -/
theorem C13_rtr_answer (h : History) (sess c : Nat) (r : Nat × Nat × PayloadDelta)
    (hr : h.rtrDiff sess c = some r) :
    sess = h.rtrSession ∧ r.1 = h.rtrSession ∧ r.2.1 = h.serial ∧ h.deltaSince c = some r.2.2 := by
  unfold History.rtrDiff at hr
  split at hr
  · simp at hr
  · rename_i hs
    cases hd : h.deltaSince c with
    | none => simp [hd] at hr
    | some d =>
      simp [hd] at hr
      subst hr
      simp at hs
      exact ⟨hs.symm, rfl, rfl, rfl⟩

/-- HTTP: a foreign session (compared on all 64 bits) or a refused serial gets the full
current data set tagged with the own session and current serial; a delta is only ever
served for the own session and is `delta_since`'s, tagged `fromSerial = c`, `serial = current`. -/
theorem C13_http (h : History) (cur : Snapshot) (hcur : h.current = some cur) (sess c : Nat) :
    (sess ≠ h.session → h.httpDelta (some (sess, c)) = .reset h.session h.serial cur) ∧
    (h.deltaSince c = none → h.httpDelta (some (sess, c)) = .reset h.session h.serial cur) ∧
    (∀ d, sess = h.session → h.deltaSince c = some d →
      h.httpDelta (some (sess, c)) = .delta h.session c h.serial d) := by
  unfold History.httpDelta
  rw [hcur]
  refine ⟨?_, ?_, ?_⟩
  · intro hs; simp [hs]
  · intro hd; simp only [hd]; split <;> rfl
  · intro d hs hd; simp [hs, hd]

/-! ### Negation witness: the unrepaired loop violates exactness -/

/-- On the pinned tree (`_ => continue`), the history after one change (serials 0 and 1
issued) answers the never-issued serial `1 + 2^31` with an empty delta instead of refusing;
the repaired `delta_since` refuses it. -/
theorem C13_unrepaired_violates :
    let s0 : Snapshot := ⟨[1], [], []⟩
    let s1 : Snapshot := ⟨[1, 2], [], []⟩
    let h := (((History.init 10 7).update s0).1.update s1).1
    h.serial = 1 ∧ h.log.map Prod.snd = [1, 0] ∧
    h.deltaSinceOrig 2147483649 = some (PayloadDelta.empty 2147483649) ∧
    h.deltaSince 2147483649 = none := by
  simp [History.init, History.update, History.serial, History.pushDelta, PayloadDelta.construct,
    PayloadDelta.isEmpty, stdConstruct, aspaConstruct, keyed, mergeH, consOpt, serialAdd, serialMod,
    History.deltaSinceOrig, History.deltaSince, History.deltaSinceWith, skipToOrig, skipTo,
    serialLt, serialPcmp, serialHalf, PayloadDelta.empty]

/-- Second negation witness: without the `from_oldest` test (first repair only, and the
pinned tree alike) the history after two changes with history size 10 — serials 0, 1, 2
logged, both deltas retained — refuses the client at serial 0, one of the last 10 serials;
the repaired `delta_since` answers it with the merged delta. -/
theorem C13_base_unrepaired_violates :
    let s : Nat → Snapshot := fun i => ⟨[i], [], []⟩
    let h := (History.init 10 7).run [.update (s 0), .update (s 1), .update (s 2)]
    h.serial = 2 ∧ h.deltas.length = 2 ∧ (h.log.take 3).map Prod.snd = [2, 1, 0] ∧
    h.deltaSinceNoBase 0 = none ∧ h.deltaSinceOrig 0 = none ∧
    (h.deltaSince 0).map (fun d => (d.serial, d.origins))
      = some (2, [(0, .withdraw), (2, .announce)]) := by
  simp [History.run, History.step, History.init, History.update, History.serial,
    History.pushDelta, PayloadDelta.construct, PayloadDelta.isEmpty, stdConstruct, aspaConstruct,
    keyed, mergeH, consOpt, serialAdd, serialMod, History.deltaSince, History.deltaSinceNoBase,
    History.deltaSinceOrig, History.deltaSinceWith, skipTo, skipToOrig,
    serialLt, serialPcmp, serialHalf, PayloadDelta.merge, stdMerge, stdMergeAct, aspaMerge]

/-! Non-vacuity: a reachable history with three retained deltas across the wrap-around. -/
example :
    let s : Nat → Snapshot := fun i => ⟨[i], [], []⟩
    let h := (History.init 3 7).run [.update (s 0), .seed 4294967295, .update (s 1), .update (s 2)]
    h.deltas.map (·.serial) = [1, 0, 4294967295] ∧
    (h.deltaSince 4294967295).map (·.origins) = some [(0, .withdraw), (2, .announce)] ∧
    (h.deltaSince 4294967294).isSome = true ∧ h.deltaSince 4294967293 = none := by
  simp [History.run, History.step, History.init, History.update, History.seed, History.serial,
    History.pushDelta, PayloadDelta.construct, PayloadDelta.isEmpty, stdConstruct, aspaConstruct,
    keyed, mergeH, consOpt, serialAdd, serialMod, History.deltaSince, History.deltaSinceWith, skipTo,
    serialLt, serialPcmp, serialHalf, PayloadDelta.empty, PayloadDelta.merge, stdMerge, stdMergeAct,
    aspaMerge]

end RoutinatorModel
