import RoutinatorModel.Model.Server
/-!
# C33 — A failed run never changes the served data

`processOnce` models `Server::process_once`. A run that fails (retryably or fatally) leaves
everything clients can observe — data set, serial, session (hence the ETag), `created`
(`Last-Modified`), retained deltas, metrics object, notifications sent — exactly as it was;
only `last_update_start` moves. Lifted to whole histories: the served state after any history
of runs equals the served state after the same history with the failed runs erased.
-/
namespace RoutinatorModel

/-- Two histories that differ at most in `last_update_start`. -/
def Hist.sameButStart (a b : Hist) : Prop :=
  ∃ t, b = { a with lastUpdateStart := t }

theorem Hist.sameButStart_refl (a : Hist) : a.sameButStart a := ⟨a.lastUpdateStart, rfl⟩

theorem Hist.sameButStart_trans {a b c : Hist} (hab : a.sameButStart b) (hbc : b.sameButStart c) :
    a.sameButStart c := by
  obtain ⟨t, rfl⟩ := hab
  obtain ⟨u, rfl⟩ := hbc
  exact ⟨u, rfl⟩

theorem Hist.sameButStart_served {a b : Hist} (h : a.sameButStart b) : a.served = b.served := by
  obtain ⟨t, rfl⟩ := h
  rfl

/-- The frame property: a failed run changes nothing but `last_update_start`, and the step
reports the failure. -/
theorem C33_failed_run_changes_nothing (h : Hist) (oc : Outcome) (new : List Nat) (now : Time)
    (hoc : oc ≠ .ok) :
    (processOnce h oc new now).1 = { h with lastUpdateStart := now } ∧
    (processOnce h oc new now).2 = false := by
  cases oc <;> simp [processOnce, Hist.markUpdateStart] at hoc ⊢

/-- Served data set, serial, session, `created`, retained deltas, metrics and the number of
notifications sent are exactly as before the failed run. -/
theorem C33_failed_run_served_unchanged (h : Hist) (oc : Outcome) (new : List Nat) (now : Time)
    (hoc : oc ≠ .ok) :
    (processOnce h oc new now).1.served = h.served := by
  rw [(C33_failed_run_changes_nothing h oc new now hoc).1]
  rfl

/-- Spelled out per component. -/
theorem C33_failed_run_components (h : Hist) (oc : Outcome) (new : List Nat) (now : Time)
    (hoc : oc ≠ .ok) :
    let h' := (processOnce h oc new now).1
    h'.current = h.current ∧ h'.serial = h.serial ∧ h'.session = h.session ∧
      h'.created = h.created ∧ h'.deltas = h.deltas ∧ h'.notified = h.notified ∧
      h'.metricsGen = h.metricsGen ∧ h'.lastUpdateDone = h.lastUpdateDone := by
  rw [(C33_failed_run_changes_nothing h oc new now hoc).1]
  simp [Hist.serial]

/-- A step does not look at `last_update_start`: histories that differ only there are mapped to
histories that differ only there (for a successful run even to equal histories, since the
run overwrites it). -/
theorem processOnce_sameButStart {a b : Hist} (hab : a.sameButStart b) (oc : Outcome)
    (new : List Nat) (now : Time) :
    (processOnce a oc new now).1.sameButStart (processOnce b oc new now).1 := by
  obtain ⟨t, rfl⟩ := hab
  cases oc <;> exact ⟨_, rfl⟩

theorem runAll_sameButStart {a b : Hist} (hab : a.sameButStart b) (steps : List RunStep) :
    (runAll a steps).sameButStart (runAll b steps) := by
  induction steps generalizing a b with
  | nil => exact hab
  | cons s rest ih => exact ih (processOnce_sameButStart hab s.outcome s.data s.now)

/-- Failed runs are invisible in the long run as well: after any history of runs, the served
state is the one reached by the successful runs alone. -/
theorem C33_failed_runs_erasable (h : Hist) (steps : List RunStep) :
    (runAll h steps).served = (runAll h (steps.filter (fun s => s.outcome = .ok))).served := by
  apply Hist.sameButStart_served
  induction steps generalizing h with
  | nil => exact Hist.sameButStart_refl _
  | cons s rest ih =>
    by_cases hs : s.outcome = .ok
    · simp only [List.filter_cons, hs, decide_true, if_true, runAll]
      exact ih _
    · simp only [List.filter_cons, hs, decide_false, runAll]
      have h1 := (C33_failed_run_changes_nothing h s.outcome s.data s.now hs).1
      have h2 : (processOnce h s.outcome s.data s.now).1.sameButStart h := by
        rw [h1]; exact ⟨h.lastUpdateStart, rfl⟩
      exact Hist.sameButStart_trans (runAll_sameButStart h2 rest) (ih h)

/-- Conversely the frame is tight: a successful run is allowed to (and does) change the served
state — first data set: notification, `created` set. -/
theorem C33_successful_first_run_serves (h : Hist) (new : List Nat) (now : Time)
    (hc : h.current = none) :
    let h' := (processOnce h .ok new now).1
    h'.current = some new ∧ h'.notified = h.notified + 1 ∧ h'.created ≠ none := by
  simp only [processOnce, Hist.markUpdateStart, Hist.update, hc, Hist.markUpdateDone,
    Hist.notify]
  refine ⟨rfl, rfl, ?_⟩
  unfold bumpCreated
  cases h.created <;> simp
  split <;> simp

/-! Non-vacuity: a successful run, then a failed run with different data at a later time. -/
example :
    let h0 := Hist.new 10 ⟨100, 0⟩
    let h1 := (processOnce h0 .ok [1, 2] ⟨100, 5⟩).1
    let h2 := (processOnce h1 .ok [1, 3] ⟨107, 0⟩).1
    let h3 := (processOnce h2 .retry [4] ⟨109, 0⟩).1
    h2.served = ⟨some [1, 3], 1, 100, some ⟨107, 0⟩, [1], 2, some ⟨107, 0⟩, 2⟩
      ∧ h3.served = h2.served ∧ h3 ≠ h2 := by decide

end RoutinatorModel
