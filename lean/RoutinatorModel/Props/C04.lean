import RoutinatorModel.Proofs.Store
/-!
# C04 — The store holds only complete, verified publication points

Model: `RoutinatorModel.StoreFile` (`Model/Store.lean`): the file of a stored publication
point (`absent`, unreadable, `LastAttempt t`, `Success t` + stored version) under
`processPointFile` = `PubPoint::process` with `StoredPoint::open` / `reject` / `update`;
`processCaF` … `runManyF` = whole validation runs over the store directory.

* `C04_refines_engine`: the file-level step is the shared engine model's `processPointWith`
  on the stored version the file holds (result and stored version afterwards).
* `C04_point_step`: after one visit of a publication point — for every configuration, clock,
  collector offer, file content and processing order — its file is
  (a) `Success now` + the fetched version, and then the fetched manifest validated
      (signature/validity attributes, not premature, stale policy, CRL listed once with
      matching hash, signed, not stale, not revoking the manifest), is newer than the stored
      one (or the stored copy was internally inconsistent), and **every** listed file was
      present with its listed hash; the stored objects are exactly the listed files; or
  (b) the file as it was, except for the `LastAttempt` header touch (`PointFile.touch`; a
      `Success` file is untouched), and the result is exactly that of the stored version; or
  (c) a bare `LastAttempt now` header replacing an internally inconsistent stored copy
      (`reject`), which only happens when a validated manifest was fetched.
* `C04_failed_fetch_keeps`: without an acceptable fetched version a consistent stored copy is
  left byte-identical and is what the run uses.
* `C04_stored_version_usable`: right after an update, a collector-less visit of the point
  reproduces the very same result from the stored file and leaves the file alone.
* `C04_step_good`, `C04_run_good`, `C04_history_good`: invariant over all histories of runs
  (arbitrary servers, clocks, faults, cleanups): every `Success` file in the store holds a
  complete version (cached values = the manifest's; stored objects = exactly the listed
  files with the listed hashes) whose manifest and CRL validated.
-/
namespace RoutinatorModel
open Engine StoreFile

/-- The fetched version may replace the stored one. -/
structure StoreFile.Acceptable (cfg : Cfg) (now : Int) (f : Fetched) (st : Option Stored)
    (ca : CaCtx) (mf : MftFile) (vm : ValidMft) (crl : Content) : Prop where
  /-- a manifest was fetched -/
  mft : f.mft = some mf
  /-- it is not the stored one -/
  differs : sameManifest st mf ca = false
  /-- it validates, and so does its CRL -/
  valid : validateCollected cfg now f mf = some (vm, crl)
  /-- it is newer than the stored one (or the stored copy is inconsistent) -/
  newer : (collectedIsNewer vm.mft st).1 = true
  /-- every listed file is present with the listed hash -/
  complete : ∀ e ∈ vm.mft.entries, e.loads f.files = true

theorem StoreFile.collectedIsNewer_false {m : Mft} {st st' : Option Stored}
    (h : collectedIsNewer m st = (false, st')) : st' = st := by
  unfold collectedIsNewer at h
  cases st with
  | none => simp at h
  | some s =>
    simp only at h
    split at h
    · simp at h
    · split at h
      · split at h
        · simp only [Prod.mk.injEq, true_and] at h; exact h.symm
        · simp at h
      · simp at h

theorem StoreFile.processStored_stored (cfg : Cfg) (now : Int) (ca : CaCtx) (st : Option Stored) :
    (processStored cfg now ca st []).stored = st := by
  simp only [processStored]; split <;> (try split) <;> rfl

/-- The file after `reject` (if it was called) holds what `check_collected_is_newer` left. -/
theorem StoreFile.rejected_stored (now : Int) (file : PointFile) (st' : Option Stored)
    (h : st' = file.stored ∨ st' = none) :
    (if (file.open now).1.stored.isSome && st'.isNone then PointFile.attempt now
      else (file.open now).1).stored = st' := by
  rcases h with h | h <;> subst h <;> cases file <;>
    simp [PointFile.open, PointFile.stored]

/-- **C04, refinement.** -/
theorem C04_refines_engine (cfg : Cfg) (now : Int) (coll : Option Offer) (file : PointFile)
    (ca : CaCtx) (reorder : List Entry → List Entry) :
    (processPointFile cfg now coll file ca reorder).1
        = processPointWith true cfg now coll file.stored ca reorder
    ∧ (processPointFile cfg now coll file ca reorder).2.stored
        = (processPointWith true cfg now coll file.stored ca reorder).stored := by
  cases coll with
  | none =>
    simp only [processPointFile, processPointWith, open_stored, processStored_stored, and_self]
  | some offer =>
    simp only [processPointFile, processPointWith, processCollectedWith]
    cases hm : (offer.get ca.info.mft).mft with
    | none => simp only [↓reduceIte, open_stored, processStored_stored, and_self]
    | some mf =>
      simp only [open_stored]
      by_cases hs : sameManifest file.stored mf ca = true
      · simp only [hs, ↓reduceIte, open_stored, processStored_stored, and_self]
      · simp only [hs, Bool.false_eq_true, ↓reduceIte]
        cases hv : validateCollected cfg now (offer.get ca.info.mft) mf with
        | none => simp only [↓reduceIte, open_stored, processStored_stored, and_self]
        | some p =>
          obtain ⟨vm, crl⟩ := p
          simp only
          have hsnd := collectedIsNewer_snd vm.mft file.stored
          cases hn : collectedIsNewer vm.mft file.stored with
          | mk b st' =>
            rw [hn] at hsnd
            cases b with
            | false =>
              have := collectedIsNewer_false hn
              subst this
              simp only [↓reduceIte, open_stored, processStored_stored, and_self]
            | true =>
              simp only
              cases hr : runEntries cfg now ca vm (offer.get ca.info.mft).files
                  (reorder vm.mft.entries) [] [] [] with
              | complete acc kids objs => simp only [PointFile.stored, and_self]
              | aborted acc =>
                have hf1 := rejected_stored now file st' hsnd
                simp only [open_stored] at hf1
                simp only [↓reduceIte, hf1, processStored_stored, and_self]

/-- **C04, one visit of a publication point.** -/
theorem C04_point_step (cfg : Cfg) (now : Int) (coll : Option Offer) (file : PointFile)
    (ca : CaCtx) (reorder : List Entry → List Entry) (hperm : ∀ l, (reorder l).Perm l) :
    let out := processPointFile cfg now coll file ca reorder
    (∃ offer mf vm crl objs, coll = some offer
        ∧ Acceptable cfg now (offer.get ca.info.mft) file.stored ca mf vm crl
        ∧ objs.Perm (fetchedObjs vm (offer.get ca.info.mft).files)
        ∧ out.2 = .success now
            ⟨mf, vm.mft.number, vm.mft.thisUpdate, vm.mft.ee.notAfter, ca.info.repo, crl, objs⟩
        ∧ out.1.stored = out.2.stored ∧ out.1.accepted = true)
    ∨ (out.2 = file.touch now ∧ out.1 = storedResult cfg now ca file.stored)
    ∨ (∃ t s offer mf vm crl, file = .success t s ∧ ¬ s.consistent ∧ coll = some offer
        ∧ (offer.get ca.info.mft).mft = some mf
        ∧ validateCollected cfg now (offer.get ca.info.mft) mf = some (vm, crl)
        ∧ out.2 = .attempt now ∧ out.1 = storedResult cfg now ca none
        ∧ (∃ e ∈ vm.mft.entries, e.loads (offer.get ca.info.mft).files = false)) := by
  intro out
  have hkeep : (file.open now).1 = file.touch now := rfl
  cases coll with
  | none =>
    right; left
    simp only [out, processPointFile, open_stored, touch_stored, storedResult, hkeep, and_self]
  | some offer =>
    cases hm : (offer.get ca.info.mft).mft with
    | none =>
      right; left
      simp only [out, processPointFile, hm, open_stored, touch_stored, storedResult, hkeep, and_self]
    | some mf =>
      by_cases hs : sameManifest file.stored mf ca = true
      · right; left
        simp only [out, processPointFile, hm, open_stored, touch_stored, hs, ↓reduceIte, storedResult, hkeep,
          and_self]
      · have hs' : sameManifest file.stored mf ca = false := by simpa using hs
        cases hv : validateCollected cfg now (offer.get ca.info.mft) mf with
        | none =>
          right; left
          simp only [out, processPointFile, hm, open_stored, touch_stored, hs', Bool.false_eq_true, ↓reduceIte,
            hv, storedResult, hkeep, and_self]
        | some p =>
          obtain ⟨vm, crl⟩ := p
          cases hn : collectedIsNewer vm.mft file.stored with
          | mk b st' =>
            cases b with
            | false =>
              right; left
              simp only [out, processPointFile, hm, open_stored, touch_stored, hs', Bool.false_eq_true,
                ↓reduceIte, hv, hn, storedResult, hkeep, and_self]
            | true =>
              rcases runEntries_perm cfg now ca vm (offer.get ca.info.mft).files reorder hperm
                with ⟨hall, acc, kids, objs, hr, _, _, hobjs⟩ | ⟨hall, acc, hr⟩
              · left
                refine ⟨offer, mf, vm, crl, objs, rfl,
                  ⟨hm, hs', hv, by simp [hn], List.all_eq_true.mp hall⟩, ?_, ?_, ?_, ?_⟩
                · rw [hobjs]
                  exact (hperm vm.mft.entries).flatMap_right _
                · simp only [out, processPointFile, hm, open_stored, touch_stored, hs', Bool.false_eq_true,
                    ↓reduceIte, hv, hn, hr]
                · simp only [out, processPointFile, hm, open_stored, touch_stored, hs', Bool.false_eq_true,
                    ↓reduceIte, hv, hn, hr]
                  rfl
                · simp only [out, processPointFile, hm, open_stored, touch_stored, hs', Bool.false_eq_true,
                    ↓reduceIte, hv, hn, hr]
              · have hsnd := collectedIsNewer_snd vm.mft file.stored
                rw [hn] at hsnd
                simp only at hsnd
                cases hfs : file.stored with
                | none =>
                  right; left
                  have : st' = none := by rcases hsnd with h | h <;> simp [h, hfs]
                  subst this
                  rw [hfs] at hs' hn
                  simp only [out, processPointFile, hm, open_stored, touch_stored, hs', Bool.false_eq_true,
                    ↓reduceIte, hv, hn, hr, hfs, Option.isSome_none, Bool.false_and, storedResult,
                    hkeep, and_self]
                | some s =>
                  rcases hsnd with h | h
                  · right; left
                    have : st' = some s := by rw [h, hfs]
                    subst this
                    rw [hfs] at hs' hn
                    simp only [out, processPointFile, hm, open_stored, touch_stored, hs', Bool.false_eq_true,
                      ↓reduceIte, hv, hn, hr, hfs, Option.isNone_some, Bool.and_false,
                      storedResult, hkeep, and_self]
                  · right; right
                    subst h
                    obtain ⟨t, hfile⟩ := stored_eq_some hfs
                    rw [hfs] at hs' hn
                    have hbad : ∃ e ∈ vm.mft.entries,
                        e.loads (offer.get ca.info.mft).files = false := by
                      have : ¬ (vm.mft.entries.all
                          (fun e => e.loads (offer.get ca.info.mft).files) = true) := by
                        rw [hall]; simp
                      simpa [List.all_eq_true] using this
                    refine ⟨t, s, offer, mf, vm, crl, hfile, ?_, rfl, hm, hv, ?_, ?_, hbad⟩
                    · intro hc
                      rw [collectedIsNewer_consistent hc] at hn
                      simp at hn
                    · simp only [out, processPointFile, hm, open_stored, touch_stored, hs', Bool.false_eq_true,
                        ↓reduceIte, hv, hn, hr, hfs, Option.isSome_some, Option.isNone_none,
                        Bool.and_self]
                    · simp only [out, processPointFile, hm, open_stored, touch_stored, hs', Bool.false_eq_true,
                        ↓reduceIte, hv, hn, hr, hfs, Option.isSome_some, Option.isNone_none,
                        Bool.and_self, storedResult]
                      rfl

/-- **C04, failed or partial fetch.** If what the collector offers is not an acceptable
version — no manifest, the stored manifest again, a manifest that does not validate
(signature, validity, premature, stale policy, CRL), one that is not newer, or one with a
listed file missing or with the wrong hash — then a consistent stored copy stays exactly as
it is (`touch` leaves a `Success` file byte-identical and only refreshes a `LastAttempt`
header) and the run's result for the point is the stored version's. -/
theorem C04_failed_fetch_keeps (cfg : Cfg) (now : Int) (coll : Option Offer) (file : PointFile)
    (ca : CaCtx) (reorder : List Entry → List Entry) (hperm : ∀ l, (reorder l).Perm l)
    (hcons : ∀ s, file.stored = some s → s.consistent)
    (hbad : ∀ offer mf vm crl, coll = some offer →
      ¬ Acceptable cfg now (offer.get ca.info.mft) file.stored ca mf vm crl) :
    let out := processPointFile cfg now coll file ca reorder
    out.2 = file.touch now ∧ out.1 = storedResult cfg now ca file.stored
      ∧ (∀ t s, file = .success t s → out.2 = file) := by
  intro out
  have hstep := C04_point_step cfg now coll file ca reorder hperm
  have key : out.2 = file.touch now ∧ out.1 = storedResult cfg now ca file.stored := by
    rcases hstep with ⟨offer, mf, vm, crl, objs, hc, hacc, _⟩ | h | ⟨t, s, _, _, _, _, hf, hnc, _⟩
    · exact absurd hacc (hbad offer mf vm crl hc)
    · exact h
    · exact absurd (hcons s (by rw [hf]; rfl)) hnc
  refine ⟨key.1, key.2, ?_⟩
  intro t s hf
  rw [key.1, hf]
  rfl

/-- **C04, the stored version is usable.** Right after the store took over a fetched version,
a visit of the point without collector (`Engine::new(config, false)`) yields exactly the same
result — payload, child CAs, acceptance — from the stored file, and does not change it. -/
theorem C04_stored_version_usable (cfg : Cfg) (now : Int) (offer : Offer) (file : PointFile)
    (ca : CaCtx) (reorder reorder' : List Entry → List Entry) (hperm : ∀ l, (reorder l).Perm l)
    {mf : MftFile} {vm : ValidMft} {crl : Content}
    (hacc : Acceptable cfg now (offer.get ca.info.mft) file.stored ca mf vm crl) :
    let out := processPointFile cfg now (some offer) file ca reorder
    let off := processPointFile cfg now none out.2 ca reorder'
    off.1 = out.1 ∧ off.2 = out.2 ∧ out.1.accepted = true := by
  intro out off
  obtain ⟨hm, hs, hv, hn, hall⟩ := hacc
  have hall' : vm.mft.entries.all (fun e => e.loads (offer.get ca.info.mft).files) = true :=
    List.all_eq_true.mpr hall
  rcases runEntries_perm cfg now ca vm (offer.get ca.info.mft).files reorder hperm
    with ⟨_, acc, kids, objs, hr, hacc', hkids, hobjs⟩ | ⟨hbad, _⟩
  · cases hnn : collectedIsNewer vm.mft file.stored with
    | mk b st' =>
      rw [hnn] at hn
      simp only at hn
      subst hn
      have hout : out = (⟨acc, kids, true,
          some ⟨mf, vm.mft.number, vm.mft.thisUpdate, vm.mft.ee.notAfter, ca.info.repo, crl, objs⟩⟩,
          .success now
            ⟨mf, vm.mft.number, vm.mft.thisUpdate, vm.mft.ee.notAfter, ca.info.repo, crl, objs⟩) := by
        simp only [out, processPointFile, hm, open_stored, hs, Bool.false_eq_true, ↓reduceIte, hv,
          hnn, hr]
      have hvs := validateStored_of_collected hv vm.mft.number vm.mft.thisUpdate
        vm.mft.ee.notAfter ca.info.repo objs
      refine ⟨?_, ?_, by rw [hout]⟩
      · simp only [off, hout, processPointFile, PointFile.open, PointFile.stored, processStored,
          hvs, runStoredObjects_eq, List.nil_append]
        rw [hobjs, flatMap_entryObj_items, flatMap_entryObj_kids, ← hacc', ← hkids]
      · simp only [off, hout, processPointFile, PointFile.open]
  · rw [hall'] at hbad
    cases hbad

/-! ## The invariant: what the store holds is complete and verified -/

/-- The stored version is complete: the cached values are the manifest's own and the stored
objects are exactly the files the manifest lists, each with the listed hash. -/
def StoreFile.Complete (s : Stored) : Prop :=
  ∃ m, s.mft.parsed = some m ∧ s.number = m.number ∧ s.thisUpdate = m.thisUpdate
    ∧ s.notAfter = m.ee.notAfter
    ∧ (s.objects.map (fun o => (o.name, o.ext, o.file.hash))).Perm
        (m.entries.map (fun e => (e.name, e.ext, e.hash)))

/-- The stored manifest and CRL validated (at some time, under some policy). -/
def StoreFile.Verified (s : Stored) : Prop :=
  ∃ cfg now vm, validateStored cfg now s = some vm

def StoreFile.GoodFile : PointFile → Prop
  | .success _ s => Complete s ∧ Verified s
  | _ => True

def StoreFile.AllGood (s : FStore) : Prop := ∀ p ∈ s.files, GoodFile p.2

theorem StoreFile.goodFile_touch {now : Int} {file : PointFile} (h : GoodFile file) :
    GoodFile (file.touch now) := by
  cases file <;> simp_all [PointFile.touch, PointFile.open, GoodFile]

/-- **C04, invariant, one visit.** -/
theorem C04_step_good (cfg : Cfg) (now : Int) (coll : Option Offer) (file : PointFile)
    (ca : CaCtx) (reorder : List Entry → List Entry) (hperm : ∀ l, (reorder l).Perm l)
    (h : GoodFile file) : GoodFile (processPointFile cfg now coll file ca reorder).2 := by
  rcases C04_point_step cfg now coll file ca reorder hperm with
    ⟨offer, mf, vm, crl, objs, _, hacc, hobjs, hout, _⟩ | ⟨hout, _⟩ | ⟨_, _, _, _, _, _, _, _, _, _, _, hout, _⟩
  · rw [hout]
    refine ⟨⟨vm.mft, validateCollected_mft hacc.valid, rfl, rfl, rfl, ?_⟩,
      ⟨cfg, now, vm, validateStored_of_collected hacc.valid _ _ _ _ _⟩⟩
    have := (hobjs.map (fun o => (o.name, o.ext, o.file.hash)))
    rw [fetchedObjs, entryObj_keys _ _ hacc.complete] at this
    exact this
  · rw [hout]; exact goodFile_touch h
  · rw [hout]; trivial

theorem StoreFile.goodFile_file {s : FStore} (h : AllGood s) (u : Uri) : GoodFile (s.file u) := by
  unfold FStore.file
  cases hl : lookup u s.files with
  | none => trivial
  | some f => exact h (u, f) (lookup_mem hl)

theorem StoreFile.allGood_setFile {s : FStore} (h : AllGood s) (u : Uri) {f : PointFile}
    (hf : GoodFile f) : AllGood (s.setFile u f) := by
  intro p hp
  rcases mem_setKey hp with rfl | hp
  · exact hf
  · exact h p hp

theorem StoreFile.processCaF_good (cfg : Cfg) (now : Int) (coll : Option Offer) :
    ∀ (fuel : Nat) (store : FStore) (ca : CaCtx), AllGood store →
      AllGood (processCaF cfg now coll fuel store ca).2 := by
  intro fuel
  induction fuel with
  | zero => intro store ca h; exact h
  | succ fuel ih =>
    intro store ca h
    unfold processCaF
    simp only
    generalize hr : processPointFile cfg now coll (store.file ca.info.mft) ca _ = r
    have hgood : GoodFile r.2 := by
      rw [← hr]
      exact C04_step_good cfg now coll _ ca _ (applyOrder_perm _) (goodFile_file h _)
    have hstore := allGood_setFile h ca.info.mft hgood
    generalize store.setFile ca.info.mft r.2 = store' at hstore
    generalize r.1.items = items
    induction r.1.kids generalizing store' items with
    | nil => exact hstore
    | cons kid rest ihk =>
      simp only [List.foldl_cons]
      exact ihk _ (ih store' kid hstore) _

theorem StoreFile.runOnceF_good (cfg : Cfg) (now : Int) (view : Option View) (tals : List Tal)
    (store : FStore) (h : AllGood store) : AllGood (runOnceF cfg now view tals store).2 := by
  unfold runOnceF
  generalize ([] : List Item) = items
  induction tals generalizing store items with
  | nil => exact h
  | cons tal rest ih =>
    simp only [List.foldl_cons]
    apply ih
    unfold processTalF
    split
    · exact h
    · exact processCaF_good cfg now _ _ _ _ h

/-- **C04, invariant, one complete run** (validation and cleanup). -/
theorem C04_run_good (cfg : Cfg) (tals : List Tal) (r : Run) (store : FStore)
    (h : AllGood store) : AllGood (runFullF cfg tals r store).2 := by
  unfold runFullF
  have h1 := runOnceF_good cfg r.now r.view tals store h
  simp only
  split
  · intro p hp
    simp only [FStore.cleanup, List.mem_filter] at hp
    exact h1 p hp.1
  · exact h1

/-- **C04, invariant, all histories.** Starting from a store whose `Success` files are
complete and verified (e.g. the empty store), after every run of every history of servers,
clocks, faults and cleanups every `Success` file in the store holds a complete version —
exactly the files its manifest lists, each with the listed hash — whose manifest and CRL
validated. -/
theorem C04_history_good (cfg : Cfg) (tals : List Tal) (runs : List Run) (store : FStore)
    (h : AllGood store) : ∀ out ∈ runManyF cfg tals runs store, AllGood out.2 := by
  induction runs generalizing store with
  | nil => intro out hout; simp [runManyF] at hout
  | cons r rest ih =>
    intro out hout
    simp only [runManyF, List.mem_cons] at hout
    have hr := C04_run_good cfg tals r store h
    rcases hout with rfl | hout
    · exact hr
    · exact ih _ hr out hout

/-! ## Non-vacuity -/

open C03Example in
/-- The complete newer version of the C03 example replaces the stored file; the broken one
(third listed file missing) leaves the `Success` file exactly as it was; an offline visit
afterwards reproduces the result. -/
example :
    (processPointFile cfg 100 (some offerComplete) (.success 50 stored1) ca id).2
        = .success 100 ⟨mft2, 2, 20, 1000, 9, crlFile.content,
            [⟨0, .crl, crlFile⟩, ⟨2, .roa, roaB⟩, ⟨3, .roa, roaC⟩]⟩
    ∧ (processPointFile cfg 100 (some offerBroken) (.success 50 stored1) ca id).2
        = .success 50 stored1
    ∧ (processPointFile cfg 100 (some offerBroken) (.attempt 50) ca id).2 = .attempt 100
    ∧ (processPointFile cfg 100 (some offerBroken) (.success 50 { stored1 with number := 7 }) ca id).2
        = .attempt 100
    ∧ (processPointFile cfg 100 none
        (processPointFile cfg 100 (some offerComplete) (.success 50 stored1) ca id).2 ca id).1.items
        = [64497, 64498] := by
  decide

open C03Example in
/-- `Acceptable` is satisfiable (complete offer) and refutable (broken offer). -/
example : Acceptable cfg 100 (offerComplete.get ca.info.mft) (some stored1) ca mft2
    ⟨m2, 7, []⟩ crlFile.content :=
  ⟨by decide, by decide, by decide, by decide, by decide⟩

open C03Example in
example : GoodFile (.success 50 stored1) := by
  refine ⟨⟨_, rfl, rfl, rfl, rfl, by decide⟩, cfg, 100, ?_⟩
  cases h : validateStored cfg 100 stored1 with
  | none => exact absurd h (by decide)
  | some vm => exact ⟨vm, rfl⟩

end RoutinatorModel
