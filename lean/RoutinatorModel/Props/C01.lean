import RoutinatorModel.Proofs.Engine2Checks
/-!
# C01 — Only validated payload reaches routers

Model: the shared engine model (`Model/Engine.lean`, repaired code `fix = true`), through the
walk with bookkeeping of `Model/Engine2.lean` (`runOnceX_erase`: same payload, same store).
SLURM assertions are added after validation (`SnapshotBuilder::insert_assertions`) and are
not part of the engine model: every item of `runOnce` is validation output.

* `Justified` — what the statement asks of a served item: a chain from a configured TAL
  (`Trusted`: TA certificate available for a URI of the TAL, carrying the TAL's key, valid
  as a trust anchor; every further CA certificate an object of a usable version of its
  issuer's publication point, accepted by `Issues`: no loop, valid, CRL named and not
  revoked, depth) to an object of a usable version (`ValidVersion`) of the last CA that
  `Yields` the item (certificate valid, CRL named and not revoked, type enabled).
* `C01_only_validated_payload` — every item of a run is `Justified` (invariant of
  `processCa`: `runOnceX_rule` instantiated with `Trusted` / `StoreWf` / "all items justified").
* `C01_version_checked`, `C01_yields_checked`, `C01_issues_checked`, `C01_ta_checked` —
  `Justified` unfolded into the individual checks of the statement.
* `C01_store_wf`, `C01_history` — the store invariant (`StoreWf`: every stored object is
  listed on the stored manifest with its hash) holds for the empty store and is preserved
  by runs and cleanup, so the theorem applies to every run of every history.
* `C01_invalid_contributes_nothing` — an object failing a check contributes nothing.
-/
namespace RoutinatorModel
open Engine

namespace Engine

/-- `ca` is reached from a configured TAL along an unbroken chain of accepted certificates. -/
inductive Trusted (cfg : Cfg) (now : Int) (view : Option View) (store₀ : Store) (tals : List Tal) :
    CaCtx → Prop
  | root (tal : Tal) (uri : Uri) (c : TaCert) (htal : tal ∈ tals) (huri : uri ∈ tal.uris)
      (hav : TaAvail view store₀ uri c) (hkey : c.key = tal.key) (hvalid : c.valid now = true) :
      Trusted cfg now view store₀ tals (CaCtx.root c.info)
  | issued (p : CaCtx) (vm : ValidMft) (crl : Content) (objs : List StoredObj) (o : StoredObj)
      (c : CertAttr) (info : CaInfo)
      (hp : Trusted cfg now view store₀ tals p)
      (hver : ValidVersion cfg now (view.map (·.points)) p vm crl objs) (ho : o ∈ objs)
      (hiss : Issues cfg now p vm o.ext o.file.content c info) :
      Trusted cfg now view store₀ tals (p.child info)

/-- The item has a justification in the run `(cfg, now, view, tals)` started with `store₀`. -/
def Justified (cfg : Cfg) (now : Int) (view : Option View) (store₀ : Store) (tals : List Tal)
    (i : Item) : Prop :=
  ∃ ca vm crl objs o, Trusted cfg now view store₀ tals ca
    ∧ ValidVersion cfg now (view.map (·.points)) ca vm crl objs ∧ o ∈ objs
    ∧ Yields cfg now vm o.ext o.file.content i

/-- One publication point preserves the invariants. -/
theorem point_justified (cfg : Cfg) (now : Int) (view : Option View) (store₀ : Store)
    (tals : List Tal) (ca : CaX) (store : Store)
    (hP : Trusted cfg now view store₀ tals ca.ctx) (hS : StoreWf store) :
    StoreWf (store.setPoint ca.ctx.info.mft
        (processPointX cfg now (view.map (·.points)) (store.point ca.ctx.info.mft) ca).stored)
    ∧ (∀ k ∈ (processPointX cfg now (view.map (·.points)) (store.point ca.ctx.info.mft) ca).kids,
        Trusted cfg now view store₀ tals k.ctx)
    ∧ ∀ i ∈ (processPointX cfg now (view.map (·.points)) (store.point ca.ctx.info.mft) ca).items,
        Justified cfg now view store₀ tals i := by
  have pf := processPointX_from cfg now (view.map (·.points)) (store.point ca.ctx.info.mft) ca
    (fun s hs => hS.point hs)
  generalize processPointX cfg now (view.map (·.points)) (store.point ca.ctx.info.mft) ca = r at pf
  cases pf with
  | none stored hstored =>
    exact ⟨hS.setPoint _ _ hstored, by simp, by simp⟩
  | used vm crl objs stored used hver hstored =>
    refine ⟨hS.setPoint _ _ hstored, ?_, ?_⟩
    · intro k hk
      rcases runStoredObjectsX_kids _ _ _ _ _ _ _ _ hk with hk | ⟨o, ho, c, info, r, hiss, rfl⟩
      · simp at hk
      · exact .issued ca.ctx vm crl objs o c info hP hver ho hiss
    · intro i hi
      rcases runStoredObjectsX_items _ _ _ _ _ _ _ _ hi with hi | ⟨o, ho, hy⟩
      · simp at hi
      · exact ⟨ca.ctx, vm, crl, objs, o, hP, hver, ho, hy⟩

theorem runOnceX_justified (cfg : Cfg) (now : Int) (view : Option View) (tals : List Tal)
    (store : Store) (hwf : StoreWf store) :
    StoreWf (runOnceX cfg now view tals store).2
    ∧ ∀ v ∈ (runOnceX cfg now view tals store).1, ∀ i ∈ v.point.items,
        Justified cfg now view store tals i := by
  apply runOnceX_rule cfg now view tals store
    (P := fun ca => Trusted cfg now view store tals ca.ctx) (S := StoreWf)
    (Q := fun v => ∀ i ∈ v.point.items, Justified cfg now view store tals i)
  · intro s s' he h p hp
    exact h p (he ▸ hp)
  · intro tal htal uri huri c hav hkey hvalid
    exact .root tal uri c htal huri hav hkey hvalid
  · intro ca st hP hS
    exact point_justified cfg now view store tals ca st hP hS
  · exact hwf

end Engine

/-- **C01.** Every payload item of a validation run is justified: it is carried by an object
that validates along an unbroken chain to a configured TAL, every object on the chain listed
with its hash on a manifest version that is valid now. -/
theorem C01_only_validated_payload (cfg : Cfg) (now : Int) (view : Option View)
    (tals : List Tal) (store : Store) (hwf : StoreWf store) :
    ∀ i ∈ (runOnce true cfg now view tals store).1, Justified cfg now view store tals i := by
  intro i hi
  rw [runOnceX_erase] at hi
  simp only [payloadOf, List.mem_flatMap] at hi
  obtain ⟨v, hv, hiv⟩ := hi
  exact (runOnceX_justified cfg now view tals store hwf).2 v hv i hiv

/-- **C01, the store invariant.** Holds initially and is preserved by runs and by cleanup. -/
theorem C01_store_wf (cfg : Cfg) (tals : List Tal) (r : Run) (store : Store)
    (hwf : StoreWf store) :
    StoreWf ⟨[], []⟩ ∧ StoreWf (runOnce true cfg r.now r.view tals store).2
      ∧ StoreWf (runFull true cfg tals r store).2 := by
  have h1 : StoreWf (runOnce true cfg r.now r.view tals store).2 := by
    rw [runOnceX_erase]
    exact (runOnceX_justified cfg r.now r.view tals store hwf).1
  refine ⟨StoreWf.empty, h1, ?_⟩
  unfold runFull
  simp only []
  split
  · intro p hp
    simp only [Store.cleanup, List.mem_filter] at hp
    exact h1 p hp.1
  · exact h1

/-- Every run of a history is justified with respect to the store it started from. -/
def Engine.AllJustified (cfg : Cfg) (tals : List Tal) : List Run → Store → Prop
  | [], _ => True
  | r :: rest, store =>
    (∀ i ∈ (runFull true cfg tals r store).1, Justified cfg r.now r.view store tals i)
    ∧ AllJustified cfg tals rest (runFull true cfg tals r store).2

/-- **C01 over histories.** Starting from the empty store (or any well-formed one), every
run of every sequence of runs serves only justified payload. -/
theorem C01_history (cfg : Cfg) (tals : List Tal) (runs : List Run) (store : Store)
    (hwf : StoreWf store) : AllJustified cfg tals runs store := by
  induction runs generalizing store with
  | nil => trivial
  | cons r rest ih =>
    refine ⟨?_, ih _ (C01_store_wf cfg tals r store hwf).2.2⟩
    intro i hi
    exact C01_only_validated_payload cfg r.now r.view tals store hwf i (by simpa [runFull] using hi)

/-! ## `Justified` unfolded into the checks of the statement -/

/-- A usable version: manifest EE certificate valid now, manifest current (unless the
stale policy says otherwise), CRL named by the EE certificate, signed, current, not revoking
the EE certificate; every object listed on the manifest under its name with its hash. -/
theorem C01_version_checked {cfg : Cfg} {now : Int} {coll : Option Offer} {ca : CaCtx}
    {vm : ValidMft} {crl : Content} {objs : List StoredObj}
    (h : ValidVersion cfg now coll ca vm crl objs) :
    (vm.mft.ee.ok = true ∧ vm.mft.ee.notBefore ≤ now ∧ now ≤ vm.mft.ee.notAfter)
    ∧ (vm.mft.nextUpdate < now → cfg.stale ≠ .reject)
    ∧ vm.mft.ee.crlUri = some vm.crlUri
    ∧ (∃ next, crl = .crl true next vm.revoked ∧ (next < now → cfg.stale ≠ .reject))
    ∧ vm.mft.ee.serial ∉ vm.revoked
    ∧ ∀ o ∈ objs, ∃ e ∈ vm.mft.entries, e.name = o.name ∧ e.ext = o.ext ∧ e.hash = o.file.hash := by
  obtain ⟨hc, hl⟩ := h.checks
  obtain ⟨next, hn1, hn2⟩ := hc.crlSigned
  refine ⟨(CertAttr.valid_iff _ _).mp hc.eeValid, ?_, hc.crlUri, ⟨next, hn1, ?_⟩,
    hc.eeNotRevoked, hl⟩
  · intro hlt; exact hc.mftCurrent (by simp [isStale, hlt])
  · intro hlt; exact hn2 (by simp [isStale, hlt])

/-- A version offered by the collector is, in addition, not premature, and its CRL is the
file listed on the manifest, retrieved with the listed hash. -/
theorem C01_fetched_checked {cfg : Cfg} {now : Int} {f : Fetched} {mf : MftFile}
    {vm : ValidMft} {crl : Content} (h : validateCollected cfg now f mf = some (vm, crl)) :
    mf.parsed = some vm.mft ∧ vm.mft.thisUpdate ≤ now
    ∧ ∃ name file, vm.mft.crlName = some name ∧ lookup name f.files = some file
        ∧ file.content = crl ∧ (∃ e ∈ vm.mft.entries, e.name = name)
        ∧ ∀ e ∈ vm.mft.entries, e.name = name → e.hash = file.hash := by
  obtain ⟨h1, _, h3⟩ := validateCollected_checks h
  exact ⟨h1, h3.notPremature, h3.crlListed⟩

/-- The object that carries the item: its certificate has the crate's verdict `ok`
(signature, issuer, resources contained), is within its validity period, names the CRL of
the manifest and is not on it; ASPA / router keys only if enabled. -/
theorem C01_yields_checked {cfg : Cfg} {now : Int} {vm : ValidMft} {ext : Ext}
    {content : Content} {i : Item} (h : Yields cfg now vm ext content i) :
    ∃ c items, i ∈ items
      ∧ (c.ok = true ∧ c.notBefore ≤ now ∧ now ≤ c.notAfter)
      ∧ c.crlUri = some vm.crlUri ∧ c.serial ∉ vm.revoked
      ∧ ((ext = .roa ∧ content = .roa c items)
        ∨ (ext = .asa ∧ content = .asa c items ∧ cfg.aspa = true)
        ∨ (ext = .cer ∧ content = .router c items ∧ cfg.bgpsec = true)) := by
  cases h with
  | roa c items hext hc hvalid hcrl hi =>
    exact ⟨c, items, hi, (CertAttr.valid_iff _ _).mp hvalid,
      ((ValidMft.checkCrl_iff _ _).mp hcrl).1, ((ValidMft.checkCrl_iff _ _).mp hcrl).2,
      Or.inl ⟨hext, hc⟩⟩
  | asa c items hext hc hvalid hcrl hon hi =>
    exact ⟨c, items, hi, (CertAttr.valid_iff _ _).mp hvalid,
      ((ValidMft.checkCrl_iff _ _).mp hcrl).1, ((ValidMft.checkCrl_iff _ _).mp hcrl).2,
      Or.inr (Or.inl ⟨hext, hc, hon⟩)⟩
  | router c items hext hc hvalid hcrl hon hi =>
    exact ⟨c, items, hi, (CertAttr.valid_iff _ _).mp hvalid,
      ((ValidMft.checkCrl_iff _ _).mp hcrl).1, ((ValidMft.checkCrl_iff _ _).mp hcrl).2,
      Or.inr (Or.inr ⟨hext, hc, hon⟩)⟩

/-- Every link of the chain: the CA certificate has the crate's verdict `ok`, is within
its validity period, names the issuer's manifest CRL and is not on it, is not for a key
already on the chain, and the chain stays within the depth limit. -/
theorem C01_issues_checked {cfg : Cfg} {now : Int} {ca : CaCtx} {vm : ValidMft} {ext : Ext}
    {content : Content} {c : CertAttr} {info : CaInfo}
    (h : Issues cfg now ca vm ext content c info) :
    ext = .cer ∧ content = .ca c info
    ∧ (c.ok = true ∧ c.notBefore ≤ now ∧ now ≤ c.notAfter)
    ∧ c.crlUri = some vm.crlUri ∧ c.serial ∉ vm.revoked
    ∧ info.key ∉ ca.chain ∧ ca.chainLen + 1 ≤ cfg.maxDepth := by
  refine ⟨h.hext, h.hc, (CertAttr.valid_iff _ _).mp h.valid,
    ((ValidMft.checkCrl_iff _ _).mp h.crl).1, ((ValidMft.checkCrl_iff _ _).mp h.crl).2, ?_, h.depth⟩
  simpa using h.noLoop

/-- The root of the chain: a certificate downloaded in this run from a URI of the TAL or
held by the store for it, carrying the TAL's key, valid as a trust anchor now. -/
theorem C01_ta_checked {cfg : Cfg} {now : Int} {view : Option View} {store₀ : Store}
    {tals : List Tal} {ca : CaCtx} (h : Trusted cfg now view store₀ tals ca) :
    ∃ tal ∈ tals, ∃ uri ∈ tal.uris, ∃ c : TaCert,
      ((∃ file, download view uri = some file ∧ file.cert = some c)
        ∨ (∃ file, store₀.ta uri = some file ∧ file.cert = some c))
      ∧ c.key = tal.key ∧ c.ok = true ∧ c.notBefore ≤ now ∧ now ≤ c.notAfter
      ∧ ca.chain.getLast? = some c.info.key := by
  induction h with
  | root tal uri c htal huri hav hkey hvalid =>
    refine ⟨tal, htal, uri, huri, c, hav, hkey, ?_⟩
    simp only [TaCert.valid, Bool.and_eq_true, decide_eq_true_eq] at hvalid
    exact ⟨hvalid.1.1, hvalid.1.2, hvalid.2, by simp [CaCtx.root]⟩
  | issued p vm crl objs o c info hp hver ho hiss ih =>
    obtain ⟨tal, htal, uri, huri, c', hav, hkey, hok, hnb, hna, hlast⟩ := ih
    refine ⟨tal, htal, uri, huri, c', hav, hkey, hok, hnb, hna, ?_⟩
    simp only [CaCtx.child]
    cases hch : p.chain with
    | nil => simp [hch] at hlast
    | cons a l => rw [hch] at hlast; simpa [List.getLast?_cons_cons] using hlast

/-- **C01, objects failing a check contribute nothing**: an expired or not yet valid, badly
signed / overclaiming (`ok = false`), revoked or wrong-CRL certificate yields no payload and
no child CA, whatever else the object says. -/
theorem C01_invalid_contributes_nothing (cfg : Cfg) (now : Int) (ca : CaCtx) (vm : ValidMft)
    (ext : Ext) (content : Content) (acc : List Item) (kids : List CaCtx)
    (hbad : ∀ c, (content = .roa c [] ∨ (∃ items, content = .roa c items)
        ∨ (∃ items, content = .asa c items) ∨ (∃ items, content = .router c items)
        ∨ (∃ info, content = .ca c info)) → (c.valid now && vm.checkCrl c) = false) :
    processObject cfg now ca vm ext content acc kids = (acc, kids) := by
  unfold processObject
  cases ext <;> cases content <;> simp only []
  case cer.ca c info =>
    have := hbad c (Or.inr (Or.inr (Or.inr (Or.inr ⟨info, rfl⟩))))
    repeat' split
    all_goals first | rfl | (simp_all)
  case cer.router c items =>
    have := hbad c (Or.inr (Or.inr (Or.inr (Or.inl ⟨items, rfl⟩))))
    split
    · simp_all
    · rfl
  case roa.roa c items =>
    have := hbad c (Or.inr (Or.inl ⟨items, rfl⟩))
    split
    · simp_all
    · rfl
  case asa.asa c items =>
    have := hbad c (Or.inr (Or.inr (Or.inl ⟨items, rfl⟩)))
    split
    · simp_all
    · rfl

/-! ## Non-vacuity -/

namespace C01Example
def cfg : Cfg := ⟨.reject, 32, true, true⟩
def ee (serial : Nat) : CertAttr := ⟨true, serial, 0, 1000, some 7⟩
def crlFile : File := ⟨50, .crl true 1000 [13]⟩
def roaGood : File := ⟨51, .roa (ee 10) [64496]⟩
/-- revoked: serial 13 is on the CRL -/
def roaRevoked : File := ⟨52, .roa (ee 13) [64497]⟩
/-- expired -/
def roaExpired : File := ⟨53, .roa ⟨true, 14, 0, 50, some 7⟩ [64498]⟩
def mft : MftFile := ⟨1, some ⟨ee 1, some 0, 1, 10, 1000,
  [⟨0, .crl, 50, true⟩, ⟨1, .roa, 51, true⟩, ⟨2, .roa, 52, true⟩, ⟨3, .roa, 53, true⟩]⟩⟩
def ta : TaFile := ⟨90, some ⟨0, true, 0, 2000, ⟨0, 9, 8⟩⟩⟩
def view : View := ⟨[(5, ta)],
  [(8, ⟨some mft, [(0, crlFile), (1, roaGood), (2, roaRevoked), (3, roaExpired)], []⟩)]⟩
def tals : List Tal := [⟨0, [5]⟩]
end C01Example

open C01Example in
/-- Only the valid ROA's item is served; the revoked and the expired one contribute nothing. -/
example : (runOnce true cfg 100 (some view) tals ⟨[], []⟩).1 = [64496] := by decide

end RoutinatorModel
