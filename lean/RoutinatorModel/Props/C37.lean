import RoutinatorModel.Proofs.Once
/-!
# C37 — each repository is fetched at most once per run; users wait for that fetch

Model: `Model/Once.lean` (`Once.sys v`: all interleavings of any number of threads calling
`load(k)` for any keys any number of times; labels are the atomic steps between the hook points
`rsync.*` / `rrdp.*` in `collector/rsync.rs` / `collector/rrdp/base.rs`, refined by the
intermediate positions `fetching`, `hit`, `ret2`).

* `Once.rrdp` is `load_repository` as found;
* `Once.rsyncFixed` is `load_module` after fixes/C37-rsync-order.patch (insert into `updated`,
  then remove from `running`);
* `Once.rsyncOld` is `load_module` as found at the pinned commit (remove, then insert): the
  property FAILS for it (`C37_rsync_old_order_refuted`).

Not modelled: the `RunFailed` exits of `load_repository` (`?` on a fatal/retry error inside the
update; the whole validation run is abandoned then), and rsync with `command = None`.
-/
namespace RoutinatorModel
open Once

/-- At most one fetch of every key is ever started, in every reachable state of every
interleaving, for every variant that inserts into `updated` before removing from `running`. -/
theorem C37_fetch_at_most_once (v : Variant) (hv : v.insertFirst = true) {s : St}
    (h : Reach (sys v) s) (k : Key) : s.started k ≤ 1 :=
  (inv_reach v hv s h).cnt k

/-- Fetches finish at most as often as they start (so also at most one fetch of `k` finishes). -/
theorem C37_completed_le_started (v : Variant) (hv : v.insertFirst = true) {s : St}
    (h : Reach (sys v) s) (k : Key) : s.completed k ≤ s.started k :=
  (inv_reach v hv s h).comp k

/-- A thread returns from `load(k)` only when a fetch of `k` has finished (and `k` is recorded
as updated): whatever step takes a thread that is inside a call for `k` back to `idle` is taken
in a state with `completed k ≥ 1`. Together with `C37_fetch_at_most_once` it is *the* fetch. -/
theorem C37_return_after_fetch (v : Variant) (hv : v.insertFirst = true) {s s' : St} {t : Tid}
    {k : Key} (h : Reach (sys v) s) (hk : (s.pc t).key = some k)
    (hs : step v s (t, .step) = some s') (hret : s'.pc t = .idle) :
    1 ≤ s.completed k ∧ s.updated k = true := by
  have hi := inv_reach v hv s h
  suffices hu : s.updated k = true from ⟨hi.compW k hu, hu⟩
  simp only [step, hv] at hs
  split at hs
  · simp at hs
  · rename_i k' hpc
    rw [hpc] at hk; simp [Pc.key] at hk; subst hk
    split at hs
    · assumption
    · injection hs with hs; subst hs; simp at hret
  · split at hs <;> (injection hs with hs; subst hs; simp at hret)
  · split at hs
    · injection hs with hs; subst hs; simp at hret
    · simp at hs
  · split at hs
    · split at hs <;> (injection hs with hs; subst hs; simp at hret)
    · injection hs with hs; subst hs; simp at hret
  · injection hs with hs; subst hs; simp at hret
  · rename_i k' m hpc
    rw [hpc] at hk; simp [Pc.key] at hk; subst hk
    exact hi.post t k' (by rw [hpc]; rfl)
  · injection hs with hs; subst hs; simp at hret
  · injection hs with hs; subst hs; simp at hret
  · simp only [if_true] at hs; injection hs with hs; subst hs; simp at hret
  · simp only [if_true] at hs; injection hs with hs; subst hs; simp at hret
  · rename_i k' m hpc
    rw [hpc] at hk; simp [Pc.key] at hk; subst hk
    exact hi.post t k' (by rw [hpc]; rfl)

/-- While the (single) fetch of `k` is in progress, no user of `k` returns. -/
theorem C37_no_return_during_fetch (v : Variant) (hv : v.insertFirst = true) {s s' : St}
    {t w : Tid} {k : Key} {m : Mx} (h : Reach (sys v) s) (hw : s.pc w = .fetching k m)
    (hk : (s.pc t).key = some k) (hs : step v s (t, .step) = some s') : s'.pc t ≠ .idle := by
  intro hret
  have hi := inv_reach v hv s h
  have h1 := (C37_return_after_fetch v hv h hk hs hret).1
  have h2 := hi.busyC w k m hw
  have h3 := hi.cnt k
  omega

/-- Mutual exclusion on the fetch section: two threads between the failed re-check and the
first map update for the same key are the same thread. -/
theorem C37_fetch_section_exclusive (v : Variant) (hv : v.insertFirst = true) {s : St}
    {t t' : Tid} {k : Key} (h : Reach (sys v) s) (h1 : (s.pc t).inFetch = some k)
    (h2 : (s.pc t').inFetch = some k) : t' = t :=
  ((inv_reach v hv s h).inFetch_facts h1).2 t' h2

/-- The statement for the two code paths of the (repaired) tree. -/
theorem C37_rsync_repaired {s : St} (h : Reach (sys rsyncFixed) s) (k : Key) :
    s.started k ≤ 1 ∧ s.completed k ≤ s.started k :=
  ⟨C37_fetch_at_most_once _ rfl h k, C37_completed_le_started _ rfl h k⟩

theorem C37_rrdp {s : St} (h : Reach (sys rrdp) s) (k : Key) :
    s.started k ≤ 1 ∧ s.completed k ≤ s.started k :=
  ⟨C37_fetch_at_most_once _ rfl h k, C37_completed_le_started _ rfl h k⟩

/-! ### The replayed segments are runs of the model -/

theorem reach_settle (v : Variant) (t : Tid) (n : Nat) {s s' : St} (h : Reach (sys v) s)
    (hs : settle v t n s = some s') : Reach (sys v) s' := by
  induction n generalizing s with
  | zero => simp [settle] at hs; exact hs ▸ h
  | succ n ih =>
    simp only [settle] at hs
    split at hs
    · injection hs with hs; exact hs ▸ h
    · split at hs
      · simp at hs
      · rename_i s1 h1
        exact ih (Reach.step (S := sys v) (l := (t, Act.step)) h h1) hs

/-- A macro step (one real segment between two hook points) stays inside `Reach`. -/
theorem C37_macro_reach (v : Variant) {s s' : St} {l : Label} (h : Reach (sys v) s)
    (hs : macroStep v s l = some s') : Reach (sys v) s' := by
  simp only [macroStep] at hs
  split at hs
  · simp at hs
  · rename_i s1 h1
    exact reach_settle v l.1 3 (Reach.step (S := sys v) (l := l) h h1) hs

/-! ### The unrepaired rsync order violates the property -/

/-- Thread 0 fetches key 0 and removes it from `running`; before it inserts it into `updated`,
thread 1 runs through check, get-or-create (a fresh mutex), lock, re-check and starts a second
fetch. -/
def refutingSchedule : List Label :=
  [(0, .call 0), (0, .step), (0, .step), (0, .step), (0, .step), (0, .step), (0, .step), (0, .step),
   (1, .call 0), (1, .step), (1, .step), (1, .step), (1, .step), (1, .step)]

theorem C37_rsync_old_order_refuted :
    ∃ s, Reach (sys rsyncOld) s ∧ s.started 0 = 2 := by
  refine ⟨((sys rsyncOld).run (sys rsyncOld).init refutingSchedule).getD St.init, ?_, ?_⟩
  · exact reach_of_run_init (S := sys rsyncOld) refutingSchedule (by rfl)
  · rfl

/-- Hence the at-most-once statement is false for the order found at the pinned commit. -/
theorem C37_rsync_old_order_not_once :
    ¬ ∀ s, Reach (sys rsyncOld) s → ∀ k, s.started k ≤ 1 := by
  intro hall
  obtain ⟨s, hr, h2⟩ := C37_rsync_old_order_refuted
  have := hall s hr 0
  omega

/-! ### Non-vacuity -/

/-- In the repaired model two threads using the same key both return after exactly one fetch. -/
def bothReturnSchedule : List Label :=
  [(0, .call 0), (1, .call 0), (0, .step), (1, .step), (0, .step), (1, .step), (0, .step),
   (0, .step), (0, .step), (0, .step), (0, .step), (0, .step), (0, .step),
   (1, .step), (1, .step), (1, .step)]

example : ∃ s, Reach (sys rsyncFixed) s ∧ s.started 0 = 1 ∧ s.completed 0 = 1 ∧
    s.pc 0 = .idle ∧ s.pc 1 = .idle ∧ s.updated 0 = true := by
  refine ⟨((sys rsyncFixed).run (sys rsyncFixed).init bothReturnSchedule).getD St.init, ?_, ?_⟩
  · exact reach_of_run_init (S := sys rsyncFixed) bothReturnSchedule (by rfl)
  · exact ⟨rfl, rfl, rfl, rfl, rfl⟩

/-- After the repair the window is closed: thread 1 passes its first check early; when it
looks up the mutex between thread 0's two map updates it still finds the old mutex, and its
`lock` step is not enabled while thread 0 holds it. (Arriving later, its first check already
sees `updated`.) -/
def blockedPrefix : List Label :=
  [(0, .call 0), (1, .call 0), (1, .step),
   (0, .step), (0, .step), (0, .step), (0, .step), (0, .step), (0, .step), (0, .step),
   (1, .step)]

example : ((sys rsyncFixed).run (sys rsyncFixed).init blockedPrefix).isSome = true ∧
    ((sys rsyncFixed).run (sys rsyncFixed).init (blockedPrefix ++ [(1, .step)])).isNone = true :=
  ⟨rfl, rfl⟩

end RoutinatorModel
