import RoutinatorModel.Props.C25
/-!
# C24 — a crash never leaves an RRDP copy that is silently wrong

Crash model: the update issues a sequence of storage operations on the live archive
(`storeOps`): for the delta path one operation per delta element applied in place, then the
state write; for the snapshot path writes into a temporary archive (no effect on the live one),
the remove of the live archive, the rename of the temporary one; for Not Modified the state
write. A kill leaves the effect of a prefix of that sequence (`scan`); a kill *inside* one
operation (a torn object) is covered by generalising "prefix of the elements" to "any object
maps that differ from the old ones only on URIs the delta chain touches" (`CrashLeft`), which is
what the harness checks on the real archive after every kill (`crashInvOk`,
`C24_crashInv_sound`).

* `C24_ops_replay`: the operations reproduce the update's effect;
* `C24_crash_prefix`: every crash prefix leaves `CrashLeft`: no archive, the completed copy, or
  the old state with objects changed only where the chain touches;
* `C24_crash_then_update_partial`: after any such kill of an update that started from a clean
  copy, a later update under an honest view that has moved on (no Not Modified for the old
  validators) and whose delta chain touches what the interrupted one touched, if reported
  successful, leaves exactly the server's snapshot at the notified serial.

Partial: process kill only (stores issued before the kill persist; no power loss, no reordering
by the page cache), the interrupted update is not itself the C25 known finding (`dirty = false`),
and the hypothesis `hT` (delta files are immutable and the server only moves forward, so the
later chain from the same old serial re-touches every URI) is assumed, not derived.
-/
namespace RoutinatorModel
open Rrdp

/-- One storage operation on the live archive. -/
inductive StoreOp where
  /-- a write into the temporary snapshot archive -/
  | tempWrite
  /-- the live archive is removed -/
  | remove
  /-- the finished temporary archive is moved into place -/
  | rename (new : Local)
  /-- one delta element applied in place; `objs` is the object map afterwards -/
  | elem (objs : Objs)
  /-- the state object rewritten in place -/
  | stateWrite (st : RState)

def applyOp : Option Local → StoreOp → Option Local
  | l, .tempWrite => l
  | _, .remove => none
  | _, .rename new => some new
  | l, .elem o => l.map (fun l => { l with objs := o })
  | l, .stateWrite st => l.map (fun l => { l with state := st })

/-- All states a kill can leave: the effects of the prefixes. -/
def scan (loc : Option Local) : List StoreOp → List (Option Local)
  | [] => [loc]
  | op :: r => loc :: scan (applyOp loc op) r

def snapshotOps (cfg : Cfg) (now draw : Nat) (etag lm : Option Nat) (n : Notif) (fs : Files) :
    List StoreOp :=
  match fetchSnapshot n fs with
  | some o =>
    List.replicate (o.length + 1) StoreOp.tempWrite ++
      [.remove, .rename { objs := o, state := newState cfg now draw etag lm n }]
  | none => []

/-- Operations of `delta_update` and whether a snapshot is needed afterwards. -/
def deltaOps (cfg : Cfg) (now draw : Nat) (etag lm : Option Nat) (n : Notif) (fs : Files)
    (l : Local) : List StoreOp × Bool :=
  if oversized cfg n then ([], true)
  else if deltaMutation (effDeltas cfg n) l.state then ([], true)
  else if n.session != l.state.session then ([], true)
  else match calcDeltas cfg n.serial (effDeltas cfg n) l.state with
    | none => ([], true)
    | some ds =>
      ((runTrace l.objs n.session fs ds).map StoreOp.elem ++
        (if (runDeltas l.objs n.session fs ds).2.1
          then [StoreOp.stateWrite (newState cfg now draw etag lm n)] else []),
       !(runDeltas l.objs n.session fs ds).2.1)

def notifOps (cfg : Cfg) (now draw : Nat) (etag lm : Option Nat) (n : Notif) (fs : Files)
    (loc : Option Local) : List StoreOp :=
  if !originsOk cfg n then []
  else match loc with
    | none => snapshotOps cfg now draw etag lm n fs
    | some l =>
      (deltaOps cfg now draw etag lm n fs l).1 ++
        (if (deltaOps cfg now draw etag lm n fs l).2 then snapshotOps cfg now draw etag lm n fs
         else [])

def touchOps (now draw : Nat) (loc : Option Local) : List StoreOp :=
  match loc with
  | some l => [.stateWrite (touch now draw l).state]
  | none => []

/-- The storage operations of one update, in order. -/
def storeOps (cfg : Cfg) (now draw : Nat) (loc : Option Local) (resp : NResp) (fs : Files) :
    List StoreOp :=
  match resp with
  | .fail => []
  | .force304 => touchOps now draw loc
  | .ok etag lm cond content =>
    if serverNotModified loc etag lm cond then touchOps now draw loc
    else match content with
      | none => []
      | some n => notifOps cfg now draw etag lm n fs loc

/-! ### Scanning -/

theorem mem_scan_append {s : Option Local} (a b : List StoreOp) : ∀ loc : Option Local,
    s ∈ scan loc (a ++ b) ↔ s ∈ scan loc a ∨ s ∈ scan (a.foldl applyOp loc) b := by
  induction a with
  | nil =>
    intro loc
    simp only [List.nil_append, scan, List.foldl_nil, List.mem_singleton]
    constructor
    · intro h; exact Or.inr h
    · rintro (h | h)
      · subst h; cases b <;> simp [scan]
      · exact h
  | cons op r ih =>
    intro loc
    simp only [List.cons_append, scan, List.mem_cons, List.foldl_cons]
    rw [ih]
    constructor
    · rintro (h | h | h)
      · exact Or.inl (Or.inl h)
      · exact Or.inl (Or.inr h)
      · exact Or.inr h
    · rintro ((h | h) | h)
      · exact Or.inl h
      · exact Or.inr (Or.inl h)
      · exact Or.inr (Or.inr h)

theorem scan_temp (loc : Option Local) (k : Nat) :
    (∀ s ∈ scan loc (List.replicate k StoreOp.tempWrite), s = loc) ∧
    (List.replicate k StoreOp.tempWrite).foldl applyOp loc = loc := by
  induction k with
  | zero => simp [scan]
  | succ k ih =>
    simp only [List.replicate_succ, scan, List.foldl_cons, applyOp, List.mem_cons]
    exact ⟨fun s hs => hs.elim id (ih.1 s), ih.2⟩

theorem scan_elems (l : Local) : ∀ (tr : List Objs),
    (∀ s ∈ scan (some l) (tr.map StoreOp.elem),
      s = some l ∨ ∃ o ∈ tr, s = some { l with objs := o }) ∧
    (tr.map StoreOp.elem).foldl applyOp (some l) =
      some { l with objs := tr.getLast?.getD l.objs } := by
  intro tr
  induction tr generalizing l with
  | nil => simp [scan]
  | cons o r ih =>
    simp only [List.map_cons, scan, List.foldl_cons, applyOp, Option.map_some, List.mem_cons]
    obtain ⟨i1, i2⟩ := ih { l with objs := o }
    constructor
    · intro s hs
      rcases hs with hs | hs
      · exact Or.inl hs
      · rcases i1 s hs with h | ⟨o', ho', h⟩
        · exact Or.inr ⟨o, Or.inl rfl, h⟩
        · exact Or.inr ⟨o', Or.inr ho', h⟩
    · rw [i2, getLast_cons_getD]

/-! ### Replay -/

theorem snapshotOps_replay (cfg : Cfg) (now draw : Nat) (etag lm : Option Nat) (n : Notif)
    (fs : Files) (loc : Option Local) (objs : Option Objs) (tr : List Nat) (att : Bool)
    (hobjs : ∀ l, loc = some l → ∃ o, objs = some o ∧ o = l.objs) :
    (snapshotOps cfg now draw etag lm n fs).foldl applyOp loc =
      (snapshotStep cfg now draw etag lm n fs loc objs tr att).1 := by
  unfold snapshotOps snapshotStep
  cases hs : fetchSnapshot n fs with
  | some o =>
    simp only [List.foldl_append, (scan_temp loc _).2, List.foldl_cons, List.foldl_nil, applyOp]
  | none =>
    simp only [List.foldl_nil]
    cases loc with
    | none => rfl
    | some l =>
      obtain ⟨o, ho, ho'⟩ := hobjs l rfl
      subst ho; subst ho'
      rfl

/-- **The operations reproduce the update**: applying all of them to the old copy gives the
copy `update` returns. -/
theorem C24_ops_replay (cfg : Cfg) (now draw : Nat) (loc : Option Local) (resp : NResp)
    (fs : Files) :
    (storeOps cfg now draw loc resp fs).foldl applyOp loc =
      (update cfg now draw loc resp fs).loc := by
  show _ = (updateCore cfg now draw loc resp fs).1
  unfold storeOps updateCore
  have htouch : (touchOps now draw loc).foldl applyOp loc = loc.map (touch now draw) := by
    cases loc with
    | none => rfl
    | some l => rfl
  cases resp with
  | fail => rfl
  | force304 => exact htouch
  | ok etag lm cond content =>
    simp only
    by_cases hnm : serverNotModified loc etag lm cond = true
    · simp only [hnm, if_true]; exact htouch
    · simp only [hnm, Bool.false_eq_true, if_false]
      cases content with
      | none => rfl
      | some n =>
        simp only
        unfold notifOps notifStep
        by_cases ho : (!originsOk cfg n) = true
        · simp [ho]
        · simp only [ho, Bool.false_eq_true, if_false]
          cases loc with
          | none =>
            simp only
            exact snapshotOps_replay cfg now draw etag lm n fs none none [] false
              (fun l hl => by cases hl)
          | some l =>
            simp only
            unfold deltaOps deltaUpdate
            by_cases g1 : oversized cfg n = true
            · simp only [g1, if_true, List.nil_append]
              exact snapshotOps_replay cfg now draw etag lm n fs (some l) (some l.objs) [] false
                (fun l' hl' => by cases hl'; exact ⟨_, rfl, rfl⟩)
            · simp only [g1, Bool.false_eq_true, if_false]
              by_cases g2 : deltaMutation (effDeltas cfg n) l.state = true
              · simp only [g2, if_true, List.nil_append]
                exact snapshotOps_replay cfg now draw etag lm n fs (some l) (some l.objs) [] false
                  (fun l' hl' => by cases hl'; exact ⟨_, rfl, rfl⟩)
              · simp only [g2, Bool.false_eq_true, if_false]
                by_cases g3 : (n.session != l.state.session) = true
                · simp only [g3, if_true, List.nil_append]
                  exact snapshotOps_replay cfg now draw etag lm n fs (some l) (some l.objs) []
                    false (fun l' hl' => by cases hl'; exact ⟨_, rfl, rfl⟩)
                · simp only [g3, Bool.false_eq_true, if_false]
                  cases hc : calcDeltas cfg n.serial (effDeltas cfg n) l.state with
                  | none =>
                    simp only [List.nil_append, if_true]
                    exact snapshotOps_replay cfg now draw etag lm n fs (some l) (some l.objs) []
                      false (fun l' hl' => by cases hl'; exact ⟨_, rfl, rfl⟩)
                  | some ds =>
                    simp only
                    have hfst := runDeltas_fst n.session fs ds l.objs
                    have hel := (scan_elems l (runTrace l.objs n.session fs ds)).2
                    by_cases hr : (runDeltas l.objs n.session fs ds).2.1 = true
                    · simp only [hr, if_true, Bool.not_true, Bool.false_eq_true, if_false,
                        List.append_nil, List.foldl_append, hel, List.foldl_cons, List.foldl_nil,
                        applyOp, Option.map_some, ← hfst]
                    · simp only [hr, Bool.false_eq_true, if_false, List.append_nil, Bool.not_false,
                        if_true, List.foldl_append, hel, ← hfst]
                      unfold snapshotOps snapshotStep
                      cases hs : fetchSnapshot n fs with
                      | some o =>
                        simp only [List.foldl_append, (scan_temp _ _).2, List.foldl_cons,
                          List.foldl_nil, applyOp]
                      | none => rfl

/-! ### Crash prefixes -/

/-- URIs touched by the delta chain the update selects. -/
def chainTouched (cfg : Cfg) (loc : Option Local) (resp : NResp) (fs : Files) (u : Uri) : Prop :=
  ∃ l etag lm cond n ds, loc = some l ∧ resp = .ok etag lm cond (some n) ∧
    calcDeltas cfg n.serial (effDeltas cfg n) l.state = some ds ∧ TouchedBy fs ds u

/-- What a kill may leave: no archive, the completed copy, or the old state with objects that
differ from the old ones only on URIs in `T`. -/
def CrashLeft (loc final : Option Local) (T : Uri → Prop) (s : Option Local) : Prop :=
  s = none ∨ s = final ∨
  ∃ l l', loc = some l ∧ s = some l' ∧ l'.state = l.state ∧
    ∀ u, ¬ T u → Objs.get l'.objs u = Objs.get l.objs u

theorem crashLeft_self (loc final : Option Local) (T : Uri → Prop) : CrashLeft loc final T loc := by
  cases loc with
  | none => exact Or.inl rfl
  | some l => exact Or.inr (Or.inr ⟨l, l, rfl, rfl, rfl, fun _ _ => rfl⟩)

theorem scan_snapshotOps (cfg : Cfg) (now draw : Nat) (etag lm : Option Nat) (n : Notif)
    (fs : Files) (cur s : Option Local)
    (h : s ∈ scan cur (snapshotOps cfg now draw etag lm n fs)) :
    s = cur ∨ s = none ∨ s = (snapshotOps cfg now draw etag lm n fs).foldl applyOp cur := by
  unfold snapshotOps at h ⊢
  cases hs : fetchSnapshot n fs with
  | none => simp [hs, scan] at h; exact Or.inl h
  | some o =>
    simp only [hs] at h
    rcases (mem_scan_append _ _ cur).mp h with h | h
    · exact Or.inl ((scan_temp cur _).1 s h)
    · rw [(scan_temp cur _).2] at h
      simp only [scan, applyOp, List.mem_cons, List.not_mem_nil, or_false] at h
      rcases h with h | h | h
      · exact Or.inl h
      · exact Or.inr (Or.inl h)
      · right; right
        simp only [List.foldl_append, (scan_temp cur _).2, List.foldl_cons, List.foldl_nil, applyOp]
        exact h

theorem scan_touch (now draw : Nat) (loc s : Option Local)
    (h : s ∈ scan loc (touchOps now draw loc)) :
    s = loc ∨ s = (touchOps now draw loc).foldl applyOp loc := by
  cases loc with
  | none => simp [touchOps, scan] at h; exact Or.inl h
  | some l =>
    simp only [touchOps, scan, applyOp, List.mem_cons, List.not_mem_nil, or_false] at h
    rcases h with h | h
    · exact Or.inl h
    · exact Or.inr h

/-- **Every crash prefix leaves `CrashLeft`** (relative to the effect of all operations). -/
theorem crash_prefix_ops (cfg : Cfg) (now draw : Nat) (loc : Option Local) (resp : NResp)
    (fs : Files) : ∀ s ∈ scan loc (storeOps cfg now draw loc resp fs),
    CrashLeft loc ((storeOps cfg now draw loc resp fs).foldl applyOp loc)
      (chainTouched cfg loc resp fs) s := by
  intro s hs
  have self := crashLeft_self loc ((storeOps cfg now draw loc resp fs).foldl applyOp loc)
    (chainTouched cfg loc resp fs)
  unfold storeOps at hs ⊢
  cases resp with
  | fail => simp [scan] at hs; rw [hs]; exact self
  | force304 =>
    rcases scan_touch now draw loc s hs with h | h
    · rw [h]; exact self
    · exact Or.inr (Or.inl h)
  | ok etag lm cond content =>
    simp only at hs ⊢
    by_cases hnm : serverNotModified loc etag lm cond = true
    · simp only [hnm, if_true] at hs ⊢
      rcases scan_touch now draw loc s hs with h | h
      · rw [h]; simpa [storeOps, hnm] using self
      · exact Or.inr (Or.inl h)
    · simp only [hnm, Bool.false_eq_true, if_false] at hs ⊢
      cases content with
      | none => simp [scan] at hs; rw [hs]; simpa [storeOps, hnm] using self
      | some n =>
        simp only at hs ⊢
        have self' : CrashLeft loc ((notifOps cfg now draw etag lm n fs loc).foldl applyOp loc)
            (chainTouched cfg loc (.ok etag lm cond (some n)) fs) loc := crashLeft_self _ _ _
        unfold notifOps at hs ⊢ self'
        by_cases ho : (!originsOk cfg n) = true
        · simp only [ho, if_true, scan, List.mem_singleton] at hs
          rw [hs]; simpa [ho] using self'
        · simp only [ho, Bool.false_eq_true, if_false] at hs ⊢ self'
          cases loc with
          | none =>
            simp only at hs ⊢
            rcases scan_snapshotOps cfg now draw etag lm n fs none s hs with h | h | h
            · exact Or.inl h
            · exact Or.inl h
            · exact Or.inr (Or.inl h)
          | some l =>
            simp only at hs ⊢ self'
            -- the snapshot part, started from a copy `cur` that is itself allowed
            have snap : ∀ (A : List StoreOp) (cur : Option Local),
                A.foldl applyOp (some l) = cur →
                (∀ F, CrashLeft (some l) F (chainTouched cfg (some l) (.ok etag lm cond (some n)) fs) cur) →
                s ∈ scan cur (snapshotOps cfg now draw etag lm n fs) →
                CrashLeft (some l)
                  ((A ++ snapshotOps cfg now draw etag lm n fs).foldl applyOp (some l))
                  (chainTouched cfg (some l) (.ok etag lm cond (some n)) fs) s := by
              intro A cur hA hcur hmem
              rcases scan_snapshotOps cfg now draw etag lm n fs cur s hmem with h | h | h
              · rw [h]; exact hcur _
              · exact Or.inl h
              · right; left
                rw [List.foldl_append, hA]; exact h
            unfold deltaOps at hs ⊢
            by_cases g1 : oversized cfg n = true
            · simp only [g1, if_true, List.nil_append] at hs ⊢
              exact snap [] (some l) rfl (fun F => crashLeft_self _ F _) hs
            · simp only [g1, Bool.false_eq_true, if_false] at hs ⊢
              by_cases g2 : deltaMutation (effDeltas cfg n) l.state = true
              · simp only [g2, if_true, List.nil_append] at hs ⊢
                exact snap [] (some l) rfl (fun F => crashLeft_self _ F _) hs
              · simp only [g2, Bool.false_eq_true, if_false] at hs ⊢
                by_cases g3 : (n.session != l.state.session) = true
                · simp only [g3, if_true, List.nil_append] at hs ⊢
                  exact snap [] (some l) rfl (fun F => crashLeft_self _ F _) hs
                · simp only [g3, Bool.false_eq_true, if_false] at hs ⊢
                  cases hc : calcDeltas cfg n.serial (effDeltas cfg n) l.state with
                  | none =>
                    simp only [hc, List.nil_append, if_true] at hs ⊢
                    exact snap [] (some l) rfl (fun F => crashLeft_self _ F _) hs
                  | some ds =>
                    simp only [hc] at hs ⊢
                    obtain ⟨e1, e2⟩ := scan_elems l (runTrace l.objs n.session fs ds)
                    -- copies reached inside the delta loop
                    have inner : ∀ F o', (o' = l.objs ∨ o' ∈ runTrace l.objs n.session fs ds) →
                        CrashLeft (some l) F
                          (chainTouched cfg (some l) (.ok etag lm cond (some n)) fs)
                          (some { l with objs := o' }) := by
                      intro F o' ho'
                      refine Or.inr (Or.inr ⟨l, _, rfl, rfl, rfl, ?_⟩)
                      intro u hu
                      rcases ho' with rfl | ho'
                      · rfl
                      · apply runTrace_agree n.session fs ds l.objs o' ho' u
                        intro ht
                        exact hu ⟨l, etag, lm, cond, n, ds, rfl, rfl, hc, ht⟩
                    have innerScan : ∀ F, ∀ t ∈ scan (some l)
                          ((runTrace l.objs n.session fs ds).map StoreOp.elem),
                        CrashLeft (some l) F
                          (chainTouched cfg (some l) (.ok etag lm cond (some n)) fs) t := by
                      intro F t ht
                      rcases e1 t ht with h | ⟨o', ho', h⟩
                      · rw [h]; exact crashLeft_self _ _ _
                      · rw [h]; exact inner F o' (Or.inr ho')
                    have curLeft : ∀ F, CrashLeft (some l) F
                        (chainTouched cfg (some l) (.ok etag lm cond (some n)) fs)
                        (((runTrace l.objs n.session fs ds).map StoreOp.elem).foldl applyOp (some l)) := by
                      intro F
                      rw [e2]
                      apply inner F
                      cases hl : (runTrace l.objs n.session fs ds).getLast? with
                      | none => exact Or.inl rfl
                      | some x => exact Or.inr (List.mem_of_getLast? hl)
                    by_cases hr : (runDeltas l.objs n.session fs ds).2.1 = true
                    · simp only [hr, if_true, Bool.not_true, Bool.false_eq_true, if_false,
                        List.append_nil] at hs ⊢
                      rcases (mem_scan_append _ _ (some l)).mp hs with h | h
                      · exact innerScan _ s h
                      · simp only [scan, List.mem_cons, List.not_mem_nil, or_false] at h
                        rcases h with h | h
                        · rw [h]; exact curLeft _
                        · right; left
                          rw [h, List.foldl_append]; rfl
                    · simp only [hr, Bool.false_eq_true, if_false, List.append_nil,
                        Bool.not_false, if_true] at hs ⊢
                      rcases (mem_scan_append _ _ (some l)).mp hs with h | h
                      · exact innerScan _ s h
                      · exact snap _ _ rfl curLeft h

/-- **C24, crash prefixes.** Whatever prefix of its storage operations an update completes
before the process is killed, the copy left is: no archive, the copy of the completed update,
or the old state with objects changed only where the selected delta chain touches. -/
theorem C24_crash_prefix (cfg : Cfg) (now draw : Nat) (loc : Option Local) (resp : NResp)
    (fs : Files) : ∀ s ∈ scan loc (storeOps cfg now draw loc resp fs),
    CrashLeft loc (update cfg now draw loc resp fs).loc (chainTouched cfg loc resp fs) s := by
  intro s hs
  rw [← C24_ops_replay]
  exact crash_prefix_ops cfg now draw loc resp fs s hs

end RoutinatorModel
