import RoutinatorModel.Props.C25
/-!
# C24 — a crash never leaves an RRDP copy that is silently wrong

Crash model: the update issues a sequence of storage operations on the live archive
(`storeOps`): for the delta path one operation per delta element applied in place, then the
state write; for the snapshot path writes into a temporary archive (no effect on the live one),
the remove of the live archive, the rename of the temporary one; for Not Modified the state
write. A kill leaves the effect of a prefix of that sequence (`scan`); a kill *inside* one
operation (a torn object) is covered by generalising "prefix of the elements" to "any object
maps that differ from the old ones only on URIs the delta chain touches" (`CrashLeft`), which is
what the harness checks on the real archive after every kill (`crashInvOk`,
`C24_crashInv_sound`).

* `C24_ops_replay`: the operations reproduce the update's effect;
* `C24_crash_prefix`: every crash prefix leaves `CrashLeft`: no archive, the completed copy, or
  the old state with objects changed only where the chain touches;
* `C24_crash_then_update_partial`: after any such kill of an update that started from a clean
  copy, a later update under an honest view that has moved on (no Not Modified for the old
  validators) and whose delta chain touches what the interrupted one touched, if reported
  successful, leaves exactly the server's snapshot at the notified serial.

Partial: process kill only (stores issued before the kill persist; no power loss, no reordering
by the page cache), the interrupted update is not itself the C25 known finding (`dirty = false`),
and the hypothesis `hT` (delta files are immutable and the server only moves forward, so the
later chain from the same old serial re-touches every URI) is assumed, not derived.
-/
namespace RoutinatorModel
open Rrdp

/-- One storage operation on the live archive. -/
inductive StoreOp where
  /-- a write into the temporary snapshot archive -/
  | tempWrite
  /-- the live archive is removed -/
  | remove
  /-- the finished temporary archive is moved into place -/
  | rename (new : Local)
  /-- one delta element applied in place; `objs` is the object map afterwards -/
  | elem (objs : Objs)
  /-- the state object rewritten in place -/
  | stateWrite (st : RState)

def applyOp : Option Local → StoreOp → Option Local
  | l, .tempWrite => l
  | _, .remove => none
  | _, .rename new => some new
  | l, .elem o => l.map (fun l => { l with objs := o })
  | l, .stateWrite st => l.map (fun l => { l with state := st })

/-- All states a kill can leave: the effects of the prefixes. -/
def scan (loc : Option Local) : List StoreOp → List (Option Local)
  | [] => [loc]
  | op :: r => loc :: scan (applyOp loc op) r

def snapshotOps (cfg : Cfg) (now draw : Nat) (etag lm : Option Nat) (n : Notif) (fs : Files) :
    List StoreOp :=
  match fetchSnapshot n fs with
  | some o =>
    List.replicate (o.length + 1) StoreOp.tempWrite ++
      [.remove, .rename { objs := o, state := newState cfg now draw etag lm n }]
  | none => []

/-- Operations of `delta_update` and whether a snapshot is needed afterwards. -/
def deltaOps (cfg : Cfg) (now draw : Nat) (etag lm : Option Nat) (n : Notif) (fs : Files)
    (l : Local) : List StoreOp × Bool :=
  if oversized cfg n then ([], true)
  else if deltaMutation (effDeltas cfg n) l.state then ([], true)
  else if n.session != l.state.session then ([], true)
  else match calcDeltas cfg n.serial (effDeltas cfg n) l.state with
    | none => ([], true)
    | some ds =>
      ((runTrace l.objs n.session fs ds).map StoreOp.elem ++
        (if (runDeltas l.objs n.session fs ds).2.1
          then [StoreOp.stateWrite (newState cfg now draw etag lm n)] else []),
       !(runDeltas l.objs n.session fs ds).2.1)

def notifOps (cfg : Cfg) (now draw : Nat) (etag lm : Option Nat) (n : Notif) (fs : Files)
    (loc : Option Local) : List StoreOp :=
  if !originsOk cfg n then []
  else match loc with
    | none => snapshotOps cfg now draw etag lm n fs
    | some l =>
      (deltaOps cfg now draw etag lm n fs l).1 ++
        (if (deltaOps cfg now draw etag lm n fs l).2 then snapshotOps cfg now draw etag lm n fs
         else [])

def touchOps (now draw : Nat) (loc : Option Local) : List StoreOp :=
  match loc with
  | some l => [.stateWrite (touch now draw l).state]
  | none => []

/-- The storage operations of one update, in order. -/
def storeOps (cfg : Cfg) (now draw : Nat) (loc : Option Local) (resp : NResp) (fs : Files) :
    List StoreOp :=
  match resp with
  | .fail => []
  | .force304 => touchOps now draw loc
  | .ok etag lm cond content =>
    if serverNotModified loc etag lm cond then touchOps now draw loc
    else match content with
      | none => []
      | some n => notifOps cfg now draw etag lm n fs loc

/-! ### Scanning -/

theorem mem_scan_append {s : Option Local} (a b : List StoreOp) : ∀ loc : Option Local,
    s ∈ scan loc (a ++ b) ↔ s ∈ scan loc a ∨ s ∈ scan (a.foldl applyOp loc) b := by
  induction a with
  | nil =>
    intro loc
    simp only [List.nil_append, scan, List.foldl_nil, List.mem_singleton]
    constructor
    · intro h; exact Or.inr h
    · rintro (h | h)
      · subst h; cases b <;> simp [scan]
      · exact h
  | cons op r ih =>
    intro loc
    simp only [List.cons_append, scan, List.mem_cons, List.foldl_cons]
    rw [ih]
    constructor
    · rintro (h | h | h)
      · exact Or.inl (Or.inl h)
      · exact Or.inl (Or.inr h)
      · exact Or.inr h
    · rintro ((h | h) | h)
      · exact Or.inl h
      · exact Or.inr (Or.inl h)
      · exact Or.inr (Or.inr h)

theorem scan_temp (loc : Option Local) (k : Nat) :
    (∀ s ∈ scan loc (List.replicate k StoreOp.tempWrite), s = loc) ∧
    (List.replicate k StoreOp.tempWrite).foldl applyOp loc = loc := by
  induction k with
  | zero => simp [scan]
  | succ k ih =>
    simp only [List.replicate_succ, scan, List.foldl_cons, applyOp, List.mem_cons]
    exact ⟨fun s hs => hs.elim id (ih.1 s), ih.2⟩

theorem scan_elems (l : Local) : ∀ (tr : List Objs),
    (∀ s ∈ scan (some l) (tr.map StoreOp.elem),
      s = some l ∨ ∃ o ∈ tr, s = some { l with objs := o }) ∧
    (tr.map StoreOp.elem).foldl applyOp (some l) =
      some { l with objs := tr.getLast?.getD l.objs } := by
  intro tr
  induction tr generalizing l with
  | nil => simp [scan]
  | cons o r ih =>
    simp only [List.map_cons, scan, List.foldl_cons, applyOp, Option.map_some, List.mem_cons]
    obtain ⟨i1, i2⟩ := ih { l with objs := o }
    constructor
    · intro s hs
      rcases hs with hs | hs
      · exact Or.inl hs
      · rcases i1 s hs with h | ⟨o', ho', h⟩
        · exact Or.inr ⟨o, Or.inl rfl, h⟩
        · exact Or.inr ⟨o', Or.inr ho', h⟩
    · rw [i2, getLast_cons_getD]

/-! ### Replay -/

theorem snapshotOps_replay (cfg : Cfg) (now draw : Nat) (etag lm : Option Nat) (n : Notif)
    (fs : Files) (loc : Option Local) (objs : Option Objs) (tr : List Nat) (att : Bool)
    (hobjs : ∀ l, loc = some l → ∃ o, objs = some o ∧ o = l.objs) :
    (snapshotOps cfg now draw etag lm n fs).foldl applyOp loc =
      (snapshotStep cfg now draw etag lm n fs loc objs tr att).1 := by
  unfold snapshotOps snapshotStep
  cases hs : fetchSnapshot n fs with
  | some o =>
    simp only [List.foldl_append, (scan_temp loc _).2, List.foldl_cons, List.foldl_nil, applyOp]
  | none =>
    simp only [List.foldl_nil]
    cases loc with
    | none => rfl
    | some l =>
      obtain ⟨o, ho, ho'⟩ := hobjs l rfl
      subst ho; subst ho'
      rfl

/-- **The operations reproduce the update**: applying all of them to the old copy gives the
copy `update` returns. -/
theorem C24_ops_replay (cfg : Cfg) (now draw : Nat) (loc : Option Local) (resp : NResp)
    (fs : Files) :
    (storeOps cfg now draw loc resp fs).foldl applyOp loc =
      (update cfg now draw loc resp fs).loc := by
  show _ = (updateCore cfg now draw loc resp fs).1
  unfold storeOps updateCore
  have htouch : (touchOps now draw loc).foldl applyOp loc = loc.map (touch now draw) := by
    cases loc with
    | none => rfl
    | some l => rfl
  cases resp with
  | fail => rfl
  | force304 => exact htouch
  | ok etag lm cond content =>
    simp only
    by_cases hnm : serverNotModified loc etag lm cond = true
    · simp only [hnm, if_true]; exact htouch
    · simp only [hnm, Bool.false_eq_true, if_false]
      cases content with
      | none => rfl
      | some n =>
        simp only
        unfold notifOps notifStep
        by_cases ho : (!originsOk cfg n) = true
        · simp [ho]
        · simp only [ho, Bool.false_eq_true, if_false]
          cases loc with
          | none =>
            simp only
            exact snapshotOps_replay cfg now draw etag lm n fs none none [] false
              (fun l hl => by cases hl)
          | some l =>
            simp only
            unfold deltaOps deltaUpdate
            by_cases g1 : oversized cfg n = true
            · simp only [g1, if_true, List.nil_append]
              exact snapshotOps_replay cfg now draw etag lm n fs (some l) (some l.objs) [] false
                (fun l' hl' => by cases hl'; exact ⟨_, rfl, rfl⟩)
            · simp only [g1, Bool.false_eq_true, if_false]
              by_cases g2 : deltaMutation (effDeltas cfg n) l.state = true
              · simp only [g2, if_true, List.nil_append]
                exact snapshotOps_replay cfg now draw etag lm n fs (some l) (some l.objs) [] false
                  (fun l' hl' => by cases hl'; exact ⟨_, rfl, rfl⟩)
              · simp only [g2, Bool.false_eq_true, if_false]
                by_cases g3 : (n.session != l.state.session) = true
                · simp only [g3, if_true, List.nil_append]
                  exact snapshotOps_replay cfg now draw etag lm n fs (some l) (some l.objs) []
                    false (fun l' hl' => by cases hl'; exact ⟨_, rfl, rfl⟩)
                · simp only [g3, Bool.false_eq_true, if_false]
                  cases hc : calcDeltas cfg n.serial (effDeltas cfg n) l.state with
                  | none =>
                    simp only [List.nil_append, if_true]
                    exact snapshotOps_replay cfg now draw etag lm n fs (some l) (some l.objs) []
                      false (fun l' hl' => by cases hl'; exact ⟨_, rfl, rfl⟩)
                  | some ds =>
                    simp only
                    have hfst := runDeltas_fst n.session fs ds l.objs
                    have hel := (scan_elems l (runTrace l.objs n.session fs ds)).2
                    by_cases hr : (runDeltas l.objs n.session fs ds).2.1 = true
                    · simp only [hr, if_true, Bool.not_true, Bool.false_eq_true, if_false,
                        List.append_nil, List.foldl_append, hel, List.foldl_cons, List.foldl_nil,
                        applyOp, Option.map_some, ← hfst]
                    · simp only [hr, Bool.false_eq_true, if_false, List.append_nil, Bool.not_false,
                        if_true, List.foldl_append, hel, ← hfst]
                      unfold snapshotOps snapshotStep
                      cases hs : fetchSnapshot n fs with
                      | some o =>
                        simp only [List.foldl_append, (scan_temp _ _).2, List.foldl_cons,
                          List.foldl_nil, applyOp]
                      | none => rfl

/-! ### Crash prefixes -/

/-- URIs touched by the delta chain the update selects. -/
def chainTouched (cfg : Cfg) (loc : Option Local) (resp : NResp) (fs : Files) (u : Uri) : Prop :=
  ∃ l etag lm cond n ds, loc = some l ∧ resp = .ok etag lm cond (some n) ∧
    calcDeltas cfg n.serial (effDeltas cfg n) l.state = some ds ∧ TouchedBy fs ds u

/-- What a kill may leave: no archive, the completed copy, or the old state with objects that
differ from the old ones only on URIs in `T`. -/
def CrashLeft (loc final : Option Local) (T : Uri → Prop) (s : Option Local) : Prop :=
  s = none ∨ s = final ∨
  ∃ l l', loc = some l ∧ s = some l' ∧ l'.state = l.state ∧
    ∀ u, ¬ T u → Objs.get l'.objs u = Objs.get l.objs u

theorem crashLeft_self (loc final : Option Local) (T : Uri → Prop) : CrashLeft loc final T loc := by
  cases loc with
  | none => exact Or.inl rfl
  | some l => exact Or.inr (Or.inr ⟨l, l, rfl, rfl, rfl, fun _ _ => rfl⟩)

theorem scan_snapshotOps (cfg : Cfg) (now draw : Nat) (etag lm : Option Nat) (n : Notif)
    (fs : Files) (cur s : Option Local)
    (h : s ∈ scan cur (snapshotOps cfg now draw etag lm n fs)) :
    s = cur ∨ s = none ∨ s = (snapshotOps cfg now draw etag lm n fs).foldl applyOp cur := by
  unfold snapshotOps at h ⊢
  cases hs : fetchSnapshot n fs with
  | none => simp [hs, scan] at h; exact Or.inl h
  | some o =>
    simp only [hs] at h
    rcases (mem_scan_append _ _ cur).mp h with h | h
    · exact Or.inl ((scan_temp cur _).1 s h)
    · rw [(scan_temp cur _).2] at h
      simp only [scan, applyOp, List.mem_cons, List.not_mem_nil, or_false] at h
      rcases h with h | h | h
      · exact Or.inl h
      · exact Or.inr (Or.inl h)
      · right; right
        simp only [List.foldl_append, (scan_temp cur _).2, List.foldl_cons, List.foldl_nil, applyOp]
        exact h

theorem scan_touch (now draw : Nat) (loc s : Option Local)
    (h : s ∈ scan loc (touchOps now draw loc)) :
    s = loc ∨ s = (touchOps now draw loc).foldl applyOp loc := by
  cases loc with
  | none => simp [touchOps, scan] at h; exact Or.inl h
  | some l =>
    simp only [touchOps, scan, applyOp, List.mem_cons, List.not_mem_nil, or_false] at h
    rcases h with h | h
    · exact Or.inl h
    · exact Or.inr h

/-- **Every crash prefix leaves `CrashLeft`** (relative to the effect of all operations). -/
theorem crash_prefix_ops (cfg : Cfg) (now draw : Nat) (loc : Option Local) (resp : NResp)
    (fs : Files) : ∀ s ∈ scan loc (storeOps cfg now draw loc resp fs),
    CrashLeft loc ((storeOps cfg now draw loc resp fs).foldl applyOp loc)
      (chainTouched cfg loc resp fs) s := by
  intro s hs
  have self := crashLeft_self loc ((storeOps cfg now draw loc resp fs).foldl applyOp loc)
    (chainTouched cfg loc resp fs)
  unfold storeOps at hs ⊢
  cases resp with
  | fail => simp [scan] at hs; rw [hs]; exact self
  | force304 =>
    rcases scan_touch now draw loc s hs with h | h
    · rw [h]; exact self
    · exact Or.inr (Or.inl h)
  | ok etag lm cond content =>
    simp only at hs ⊢
    by_cases hnm : serverNotModified loc etag lm cond = true
    · simp only [hnm, if_true] at hs ⊢
      rcases scan_touch now draw loc s hs with h | h
      · rw [h]; simpa [storeOps, hnm] using self
      · exact Or.inr (Or.inl h)
    · simp only [hnm, Bool.false_eq_true, if_false] at hs ⊢
      cases content with
      | none => simp [scan] at hs; rw [hs]; simpa [storeOps, hnm] using self
      | some n =>
        simp only at hs ⊢
        have self' : CrashLeft loc ((notifOps cfg now draw etag lm n fs loc).foldl applyOp loc)
            (chainTouched cfg loc (.ok etag lm cond (some n)) fs) loc := crashLeft_self _ _ _
        unfold notifOps at hs ⊢ self'
        by_cases ho : (!originsOk cfg n) = true
        · simp only [ho, if_true, scan, List.mem_singleton] at hs
          rw [hs]; simpa [ho] using self'
        · simp only [ho, Bool.false_eq_true, if_false] at hs ⊢ self'
          cases loc with
          | none =>
            simp only at hs ⊢
            rcases scan_snapshotOps cfg now draw etag lm n fs none s hs with h | h | h
            · exact Or.inl h
            · exact Or.inl h
            · exact Or.inr (Or.inl h)
          | some l =>
            simp only at hs ⊢ self'
            -- the snapshot part, started from a copy `cur` that is itself allowed
            have snap : ∀ (A : List StoreOp) (cur : Option Local),
                A.foldl applyOp (some l) = cur →
                (∀ F, CrashLeft (some l) F (chainTouched cfg (some l) (.ok etag lm cond (some n)) fs) cur) →
                s ∈ scan cur (snapshotOps cfg now draw etag lm n fs) →
                CrashLeft (some l)
                  ((A ++ snapshotOps cfg now draw etag lm n fs).foldl applyOp (some l))
                  (chainTouched cfg (some l) (.ok etag lm cond (some n)) fs) s := by
              intro A cur hA hcur hmem
              rcases scan_snapshotOps cfg now draw etag lm n fs cur s hmem with h | h | h
              · rw [h]; exact hcur _
              · exact Or.inl h
              · right; left
                rw [List.foldl_append, hA]; exact h
            unfold deltaOps at hs ⊢
            by_cases g1 : oversized cfg n = true
            · simp only [g1, if_true, List.nil_append] at hs ⊢
              exact snap [] (some l) rfl (fun F => crashLeft_self _ F _) hs
            · simp only [g1, Bool.false_eq_true, if_false] at hs ⊢
              by_cases g2 : deltaMutation (effDeltas cfg n) l.state = true
              · simp only [g2, if_true, List.nil_append] at hs ⊢
                exact snap [] (some l) rfl (fun F => crashLeft_self _ F _) hs
              · simp only [g2, Bool.false_eq_true, if_false] at hs ⊢
                by_cases g3 : (n.session != l.state.session) = true
                · simp only [g3, if_true, List.nil_append] at hs ⊢
                  exact snap [] (some l) rfl (fun F => crashLeft_self _ F _) hs
                · simp only [g3, Bool.false_eq_true, if_false] at hs ⊢
                  cases hc : calcDeltas cfg n.serial (effDeltas cfg n) l.state with
                  | none =>
                    simp only [hc, List.nil_append, if_true] at hs ⊢
                    exact snap [] (some l) rfl (fun F => crashLeft_self _ F _) hs
                  | some ds =>
                    simp only [hc] at hs ⊢
                    obtain ⟨e1, e2⟩ := scan_elems l (runTrace l.objs n.session fs ds)
                    -- copies reached inside the delta loop
                    have inner : ∀ F o', (o' = l.objs ∨ o' ∈ runTrace l.objs n.session fs ds) →
                        CrashLeft (some l) F
                          (chainTouched cfg (some l) (.ok etag lm cond (some n)) fs)
                          (some { l with objs := o' }) := by
                      intro F o' ho'
                      refine Or.inr (Or.inr ⟨l, _, rfl, rfl, rfl, ?_⟩)
                      intro u hu
                      rcases ho' with rfl | ho'
                      · rfl
                      · apply runTrace_agree n.session fs ds l.objs o' ho' u
                        intro ht
                        exact hu ⟨l, etag, lm, cond, n, ds, rfl, rfl, hc, ht⟩
                    have innerScan : ∀ F, ∀ t ∈ scan (some l)
                          ((runTrace l.objs n.session fs ds).map StoreOp.elem),
                        CrashLeft (some l) F
                          (chainTouched cfg (some l) (.ok etag lm cond (some n)) fs) t := by
                      intro F t ht
                      rcases e1 t ht with h | ⟨o', ho', h⟩
                      · rw [h]; exact crashLeft_self _ _ _
                      · rw [h]; exact inner F o' (Or.inr ho')
                    have curLeft : ∀ F, CrashLeft (some l) F
                        (chainTouched cfg (some l) (.ok etag lm cond (some n)) fs)
                        (((runTrace l.objs n.session fs ds).map StoreOp.elem).foldl applyOp (some l)) := by
                      intro F
                      rw [e2]
                      apply inner F
                      cases hl : (runTrace l.objs n.session fs ds).getLast? with
                      | none => exact Or.inl rfl
                      | some x => exact Or.inr (List.mem_of_getLast? hl)
                    by_cases hr : (runDeltas l.objs n.session fs ds).2.1 = true
                    · simp only [hr, if_true, Bool.not_true, Bool.false_eq_true, if_false,
                        List.append_nil] at hs ⊢
                      rcases (mem_scan_append _ _ (some l)).mp hs with h | h
                      · exact innerScan _ s h
                      · simp only [scan, List.mem_cons, List.not_mem_nil, or_false] at h
                        rcases h with h | h
                        · rw [h]; exact curLeft _
                        · right; left
                          rw [h, List.foldl_append]; rfl
                    · simp only [hr, Bool.false_eq_true, if_false, List.append_nil,
                        Bool.not_false, if_true] at hs ⊢
                      rcases (mem_scan_append _ _ (some l)).mp hs with h | h
                      · exact innerScan _ s h
                      · exact snap _ _ rfl curLeft h

/-- **C24, crash prefixes.** Whatever prefix of its storage operations an update completes
before the process is killed, the copy left is: no archive, the copy of the completed update,
or the old state with objects changed only where the selected delta chain touches. -/
theorem C24_crash_prefix (cfg : Cfg) (now draw : Nat) (loc : Option Local) (resp : NResp)
    (fs : Files) : ∀ s ∈ scan loc (storeOps cfg now draw loc resp fs),
    CrashLeft loc (update cfg now draw loc resp fs).loc (chainTouched cfg loc resp fs) s := by
  intro s hs
  rw [← C24_ops_replay]
  exact crash_prefix_ops cfg now draw loc resp fs s hs

/-! ### Recovery -/

/-- A later update of a copy that agrees with the server's snapshot at its serial outside `T`,
under an honest view that is not answered Not Modified and whose selected delta chain touches
all of `T`: a reported success is the notified version. -/
theorem recover_dirty (h : History) (cfg : Cfg) (hgap : cfg.gapCheck = true)
    (l : Local) (x : Objs) (T : Uri → Prop)
    (hx : History.at h l.state.session l.state.serial = some x)
    (hag : ∀ u, ¬ T u → Objs.get l.objs u = Objs.get x u)
    (now draw : Nat) (etag lm : Option Nat) (cond : Bool) (n : Notif) (fs : Files)
    (hh : Honest h n fs)
    (hnm : serverNotModified (some l) etag lm cond = false)
    (hT : ∀ ds, calcDeltas cfg n.serial (effDeltas cfg n) l.state = some ds →
      ∀ u, T u → TouchedBy fs ds u)
    (hupd : (update cfg now draw (some l) (.ok etag lm cond (some n)) fs).result = .updated) :
    ∃ l', (update cfg now draw (some l) (.ok etag lm cond (some n)) fs).loc = some l' ∧
      Clean h l' ∧ l'.state.session = n.session ∧ l'.state.serial = n.serial := by
  obtain ⟨h2, l', h1⟩ := update_result_updated hupd
  refine ⟨l', h1, ?_⟩
  unfold updateCore at h1 h2
  simp only [hnm, Bool.false_eq_true, if_false] at h1 h2
  rcases notifStep_updated h1 h2 with ⟨tr, hd⟩ | ⟨o, ho, rfl⟩
  · refine deltaUpdate_dirty hgap x hx ?_ hh hd
    intro ds hds u hu
    apply hag u
    intro hTu
    exact hu (hT ds hds u hTu)
  · obtain ⟨x', hx', hs⟩ := fetchSnapshot_genuine hh ho
    exact ⟨⟨x', hx', hs⟩, rfl, rfl⟩

/-- **C24 (partial).** An update that starts from a clean copy (or none) under an honest view is
killed after any prefix of its storage operations. A later update under an honest view that has
moved on (the server does not answer Not Modified to the validators of the copy left) and whose
selected delta chain touches every URI the interrupted chain touched, if reported successful,
leaves exactly the server's snapshot at the notified serial. -/
theorem C24_crash_then_update_partial (h : History) (cfg : Cfg) (hgap : cfg.gapCheck = true)
    -- the interrupted update
    (now draw : Nat) (loc : Option Local) (resp : NResp) (fs : Files)
    (hclean : ∀ l, loc = some l → Clean h l)
    (hhon : ∀ etag lm cond n, resp = .ok etag lm cond (some n) → Honest h n fs)
    (hnd : (update cfg now draw loc resp fs).dirty = false)
    (hnr : (update cfg now draw loc resp fs).result ≠ .runRetry)
    (s : Option Local) (hs : s ∈ scan loc (storeOps cfg now draw loc resp fs))
    -- the later update
    (now' draw' : Nat) (etag' lm' : Option Nat) (cond' : Bool) (n' : Notif) (fs' : Files)
    (hhon' : Honest h n' fs')
    (hnm : serverNotModified s etag' lm' cond' = false)
    (hT : ∀ l ds, s = some l →
      calcDeltas cfg n'.serial (effDeltas cfg n') l.state = some ds →
      ∀ u, chainTouched cfg loc resp fs u → TouchedBy fs' ds u)
    (hupd : (update cfg now' draw' s (.ok etag' lm' cond' (some n')) fs').result = .updated) :
    ∃ l', (update cfg now' draw' s (.ok etag' lm' cond' (some n')) fs').loc = some l' ∧
      Clean h l' ∧ l'.state.session = n'.session ∧ l'.state.serial = n'.serial := by
  -- a clean (or absent) copy is handled by C25
  have fromClean : (∀ l, s = some l → Clean h l) →
      ∃ l', (update cfg now' draw' s (.ok etag' lm' cond' (some n')) fs').loc = some l' ∧
        Clean h l' ∧ l'.state.session = n'.session ∧ l'.state.serial = n'.serial := by
    intro hc
    cases s with
    | none =>
      obtain ⟨l', h1, hc', hcase⟩ := C25_updated_equal_partial h cfg hgap now' draw' none _ fs' hc
        (fun e l c n hn => by cases hn; exact hhon') hupd
      refine ⟨l', h1, hc', ?_⟩
      rcases hcase with ⟨l, hl, _⟩ | ⟨e, lm2, c, n2, hn, h3, h4⟩
      · cases hl
      · cases hn; exact ⟨h3, h4⟩
    | some l =>
      obtain ⟨x, hx, hsame⟩ := hc l rfl
      exact recover_dirty h cfg hgap l x (fun _ => False) hx (fun u _ => hsame u)
        now' draw' etag' lm' cond' n' fs' hhon' hnm (fun _ _ _ hF => hF.elim) hupd
  rcases C24_crash_prefix cfg now draw loc resp fs s hs with h0 | h0 | ⟨l, l', hl, hs', hst, hag⟩
  · exact fromClean (fun l hl => by rw [h0] at hl; cases hl)
  · -- the completed copy of the interrupted update is clean
    apply fromClean
    intro l0 hl0
    rw [h0] at hl0
    by_cases hu : (update cfg now draw loc resp fs).result = .updated
    · obtain ⟨l1, h1, hc1, _⟩ :=
        C25_updated_equal_partial h cfg hgap now draw loc resp fs hclean hhon hu
      rw [h1] at hl0; cases hl0; exact hc1
    · have hf := (C25_not_updated_frame cfg now draw loc resp fs hu hnr).2 hnd
      rw [hf] at hl0
      exact hclean l0 hl0
  · subst hs'
    obtain ⟨x, hx, hsame⟩ := hclean l hl
    rw [← hst] at hx
    exact recover_dirty h cfg hgap l' x (chainTouched cfg loc resp fs) hx
      (fun u hu => by rw [hag u hu]; exact hsame u)
      now' draw' etag' lm' cond' n' fs' hhon' hnm (fun ds hds => hT l' ds rfl hds) hupd

/-! ### The executable crash invariant the harness applies to the real archive -/

theorem get_none_of_not_mem_keys (o : Objs) (u : Uri) (h : u ∉ Objs.keys o) :
    Objs.get o u = none := by
  induction o with
  | nil => rfl
  | cons p r ih =>
    obtain ⟨k, c⟩ := p
    simp only [Objs.keys, List.map_cons, List.mem_cons, not_or] at h
    simp only [Objs.get, List.lookup]
    have : (u == k) = false := by simp [h.1]
    rw [this]
    exact ih h.2

theorem agreeOutside_sound {touched : List Uri} {a b : Objs}
    (h : agreeOutside touched (Objs.keys a ++ Objs.keys b) a b = true) :
    ∀ u, u ∉ touched → Objs.get a u = Objs.get b u := by
  intro u hu
  by_cases hm : u ∈ Objs.keys a ++ Objs.keys b
  · unfold agreeOutside at h
    have := List.all_eq_true.mp h u hm
    simp only [Bool.or_eq_true, List.contains_eq_mem, decide_eq_true_eq, beq_iff_eq] at this
    rcases this with h1 | h1
    · exact absurd h1 hu
    · exact h1
  · simp only [List.mem_append, not_or] at hm
    rw [get_none_of_not_mem_keys a u hm.1, get_none_of_not_mem_keys b u hm.2]

/-- `crashInvOk` (run by the driver on what the harness reads back after every kill) implies the
`CrashLeft` shape: the completed copy up to the per-run fields, or the old state with objects
changed only on touched URIs. -/
theorem C24_crashInv_sound (touched : List Uri) (via : Bool) (pre done : Option Local) (o : Local)
    (h : crashInvOk touched via pre done (some o) = true) :
    (∃ d, done = some d ∧ o.state.key = d.state.key ∧ Same o.objs d.objs) ∨
    (∃ p, pre = some p ∧ o.state.key = p.state.key ∧
      ∀ u, u ∉ touched → Objs.get o.objs u = Objs.get p.objs u) := by
  unfold crashInvOk at h
  simp only [Bool.or_eq_true] at h
  rcases h with h | h
  · left
    cases done with
    | none => simp at h
    | some d =>
      simp only [Bool.and_eq_true, beq_iff_eq] at h
      exact ⟨d, rfl, h.1, fun u => agreeOutside_sound h.2 u (by simp)⟩
  · right
    cases pre with
    | none => simp at h
    | some p =>
      simp only [Bool.and_eq_true, beq_iff_eq] at h
      exact ⟨p, rfl, h.1, agreeOutside_sound h.2⟩

/-! ### Why the hypothesis "the server has moved on" is needed -/

namespace C24Witness
open C25Witness

def loc0 : Local :=
  { objs := [(2, 12), (1, 11)],
    state := { session := 0, serial := 3, etag := some 1, lm := none, updated := 100,
               bestBefore := 110, deltaState := [] } }

/-- what a kill between the element and the state write leaves -/
def left : Local := { loc0 with objs := [(2, 13), (1, 11)] }

/-- the interrupted update: the genuine step to serial 4 -/
def resp4 : NResp := .ok (some 2) none true (some notif4)
def fs4 : Files := [none, some delta4]

/-- afterwards the server presents the old version again (a lagging cache node): it honours the
conditional request for the old validator -/
def respOld : NResp := .ok (some 1) none true (some notif3)

end C24Witness

/-- **Without `hnm` the statement fails on the code** (known finding
`crash-then-stale-server-view`): clean copy at serial 3, genuine update to serial 4 killed
between the element and the state write, then a server view of serial 3 again (Not Modified for the
old validator): the update is reported successful with the partially updated copy. -/
theorem C24_reverted_server_fails :
    Clean C25Witness.hist C24Witness.loc0 ∧
    Honest C25Witness.hist C25Witness.notif4 C24Witness.fs4 ∧
    some C24Witness.left ∈ scan (some C24Witness.loc0)
      (storeOps C25Witness.cfg 102 10 (some C24Witness.loc0) C24Witness.resp4 C24Witness.fs4) ∧
    Honest C25Witness.hist C25Witness.notif3 [] ∧
    (update C25Witness.cfg 200 10 (some C24Witness.left) C24Witness.respOld []).result = .updated ∧
    ¬ ∃ l', (update C25Witness.cfg 200 10 (some C24Witness.left) C24Witness.respOld []).loc = some l' ∧
      Clean C25Witness.hist l' := by
  refine ⟨⟨[(2, 12), (1, 11)], rfl, fun _ => rfl⟩, ?_, by decide, ?_, by decide, ?_⟩
  · have := C25Witness.honest _ (by simp [C25Witness.steps] :
      ({ now := 102, draw := 10, resp := .ok none none false (some C25Witness.notif4),
         fs := [none, some C25Witness.delta4] } : RrdpStep) ∈ C25Witness.steps)
    exact this none none false C25Witness.notif4 rfl
  · refine ⟨?_, ?_⟩
    · intro d hd; simp [Files.fetch] at hd
    · intro e he; simp [C25Witness.notif3] at he
  · rintro ⟨l', hl, x, hx, hsame⟩
    have hloc : (update C25Witness.cfg 200 10 (some C24Witness.left) C24Witness.respOld []).loc =
        some { C24Witness.left with
          state := { C24Witness.left.state with updated := 200, bestBefore := 210 } } := by decide
    rw [hloc] at hl
    cases hl
    have : x = [(2, 12), (1, 11)] := by
      simp [History.at, C25Witness.hist, C24Witness.left, C24Witness.loc0] at hx; exact hx.symm
    subst this
    have h2 := hsame 2
    simp [Objs.get, List.lookup, C24Witness.left, C24Witness.loc0] at h2

/-! ### Non-vacuity: a two-element delta update has four crash states, the middle ones dirty. -/

example :
    (scan (some { objs := [(2, 12), (1, 11)],
                  state := { session := 0, serial := 3, etag := none, lm := none, updated := 100,
                             bestBefore := 110, deltaState := [] } })
      (storeOps C25Witness.cfg 102 10
        (some { objs := [(2, 12), (1, 11)],
                state := { session := 0, serial := 3, etag := none, lm := none, updated := 100,
                           bestBefore := 110, deltaState := [] } })
        (.ok none none false (some C25Witness.notif4))
        [none, some { C25Witness.delta4 with elems := [.update 2 12 13, .withdraw 1 11] }])).map
      (fun s => s.map (fun l => (l.objs, l.state.serial))) =
    [ some ([(2, 12), (1, 11)], 3), some ([(2, 13), (1, 11)], 3), some ([(2, 13)], 3),
      some ([(2, 13)], 4) ] := by decide

end RoutinatorModel
