import RoutinatorModel.Proofs.Engine
/-!
# C10 — Trust anchors are bound to their TAL key

Model: `selectTa` (the URI loop of `process_tal_task`), `loadTa` (`load_ta`), `processTal`.

* `C10_used_key_valid`: a certificate is chosen only if its key equals the TAL's key and it
  validates as a trust anchor (the crate's verdict and the validity period at `now`).
* `C10_first_usable`: with distinct URIs, the chosen certificate is exactly the first usable
  *candidate* in TAL order, where the candidate at a URI is the download if it decodes and
  otherwise the copy stored before the run.
* `C10_undecodable_download_keeps_store`, `C10_failed_download_uses_stored`,
  `C10_store_changes_only_by_decodable_download`: the store's copy is replaced only by a
  download that decodes; an undecodable or failed download leaves it alone and the stored copy
  is what is tried.
* `C10_no_trust_anchor_no_payload`: if no URI yields a usable certificate the TAL contributes
  nothing and no publication point in the store is touched.
-/
namespace RoutinatorModel
open Engine

/-- **C10.** Only a certificate with the TAL's key that validates as trust anchor is used. -/
theorem C10_used_key_valid {now : Int} {view : Option View} {tal : Tal} {uris : List Uri}
    {store store' : Store} {c : TaCert}
    (h : selectTa now view tal uris store = (some c, store')) :
    c.key = tal.key ∧ c.valid now = true := by
  induction uris generalizing store with
  | nil => simp [selectTa] at h
  | cons uri rest ih =>
    unfold selectTa at h
    split at h
    · exact ih h
    · rename_i c' st' _
      by_cases hk : c'.key = tal.key
      · by_cases hv : c'.valid now = true
        · simp only [hk, bne_self_eq_false, Bool.false_eq_true, ↓reduceIte, hv, Bool.not_true,
            Prod.mk.injEq, Option.some.injEq] at h
          obtain ⟨rfl, _⟩ := h
          exact ⟨hk, hv⟩
        · simp only [hk, bne_self_eq_false, Bool.false_eq_true, ↓reduceIte, hv, Bool.not_false] at h
          exact ih h
      · have : (c'.key != tal.key) = true := by simpa using hk
        simp only [this, ↓reduceIte] at h
        exact ih h

/-- An undecodable download never replaces the stored copy; the stored copy is tried. -/
theorem C10_undecodable_download_keeps_store (view : Option View) (store : Store) (uri : Uri)
    {file : TaFile} (hdl : download view uri = some file) (hbad : file.cert = none) :
    loadTa view store uri = (storedTaCert store uri, store) := by
  rw [loadTa_eq, hdl]
  simp [hbad]

/-- A failed download (nothing at the URI, or no collector) falls back to the stored copy. -/
theorem C10_failed_download_uses_stored (view : Option View) (store : Store) (uri : Uri)
    (hdl : download view uri = none) :
    loadTa view store uri = (storedTaCert store uri, store) := by
  rw [loadTa_eq, hdl]

/-- The store changes only by recording a download that decodes, under its own URI. -/
theorem C10_store_changes_only_by_decodable_download (view : Option View) (store : Store)
    (uri : Uri) :
    (loadTa view store uri).2 = store ∨
      ∃ file c, download view uri = some file ∧ file.cert = some c
        ∧ loadTa view store uri = (some c, store.setTa uri file) := by
  rw [loadTa_eq]
  cases hd : download view uri with
  | none => simp
  | some file =>
    cases hc : file.cert with
    | none => simp [hc]
    | some c => right; exact ⟨file, c, rfl, hc, by simp [hc]⟩

/-- `load_ta` never touches stored publication points, nor the stored copy of another URI. -/
theorem C10_loadTa_frame (view : Option View) (store : Store) (uri : Uri) :
    (loadTa view store uri).2.points = store.points
      ∧ ∀ uri', uri' ≠ uri → (loadTa view store uri).2.ta uri' = store.ta uri' := by
  rcases C10_store_changes_only_by_decodable_download view store uri with h | ⟨file, c, _, _, h⟩
  · rw [h]; exact ⟨rfl, fun _ _ => rfl⟩
  · rw [h]
    exact ⟨rfl, fun uri' hne => by simp [Store.ta, Store.setTa, lookup_setKey_other _ _ _ _ hne]⟩

theorem C10_selectTa_points (now : Int) (view : Option View) (tal : Tal) (uris : List Uri)
    (store : Store) : (selectTa now view tal uris store).2.points = store.points := by
  induction uris generalizing store with
  | nil => rfl
  | cons uri rest ih =>
    have hf := (C10_loadTa_frame view store uri).1
    unfold selectTa
    split
    · rename_i st' heq
      rw [ih]; simpa [heq] using hf
    · rename_i c st' heq
      have hst : st'.points = store.points := by simpa [heq] using hf
      split
      · rw [ih]; exact hst
      · split
        · rw [ih]; exact hst
        · exact hst

/-- TALs whose every URI fails contribute nothing. -/
theorem C10_no_trust_anchor_no_payload (fix : Bool) (cfg : Cfg) (now : Int) (view : Option View)
    (tal : Tal) (store : Store) (h : (selectTa now view tal tal.uris store).1 = none) :
    (processTal fix cfg now view tal store).1 = []
      ∧ (processTal fix cfg now view tal store).2.points = store.points := by
  have hp := C10_selectTa_points now view tal tal.uris store
  unfold processTal
  cases hs : selectTa now view tal tal.uris store with
  | mk c st =>
    rw [hs] at h hp
    simp only at h
    subst h
    exact ⟨rfl, hp⟩

/-- Can this candidate be used for the TAL? -/
def Engine.usable (now : Int) (tal : Tal) : Option TaCert → Bool
  | some c => c.key == tal.key && c.valid now
  | none => false

/-- The first usable candidate. -/
def Engine.firstUsable (now : Int) (tal : Tal) : List (Option TaCert) → Option TaCert
  | [] => none
  | c :: rest => if usable now tal c then c else firstUsable now tal rest

theorem Engine.candidate_congr (view : Option View) (s₁ s₂ : Store) (uri : Uri)
    (h : s₁.ta uri = s₂.ta uri) : candidate view s₁ uri = candidate view s₂ uri := by
  unfold candidate
  rw [loadTa_eq, loadTa_eq]
  unfold storedTaCert
  rw [h]
  cases download view uri with
  | none => rfl
  | some file => cases hc : file.cert <;> simp [hc]

/-- **C10, selection.** With distinct URIs the certificate used is the first usable
candidate in TAL order; the candidate at a URI is the download if it decodes, otherwise the
copy stored before the run. -/
theorem C10_first_usable (now : Int) (view : Option View) (tal : Tal) (uris : List Uri)
    (store : Store) (hnd : uris.Nodup) :
    (selectTa now view tal uris store).1
      = firstUsable now tal (uris.map (candidate view store)) := by
  induction uris generalizing store with
  | nil => rfl
  | cons uri rest ih =>
    have hnd' := (List.nodup_cons.mp hnd)
    have hframe := (C10_loadTa_frame view store uri).2
    have hrest : rest.map (candidate view (loadTa view store uri).2)
        = rest.map (candidate view store) := by
      apply List.map_congr_left
      intro uri' hmem
      apply candidate_congr
      apply hframe
      intro heq
      exact hnd'.1 (heq ▸ hmem)
    simp only [List.map_cons, firstUsable]
    unfold selectTa
    have hc : candidate view store uri = (loadTa view store uri).1 := rfl
    cases hl : loadTa view store uri with
    | mk c st =>
      rw [hl] at hrest
      simp only at hrest
      rw [hc, hl]
      cases c with
      | none =>
        simp only [usable, Bool.false_eq_true, ↓reduceIte]
        rw [ih st hnd'.2, hrest]
      | some c =>
        simp only [usable]
        by_cases hk : c.key = tal.key
        · by_cases hv : c.valid now = true
          · simp [hk, hv]
          · simp only [hk, bne_self_eq_false, Bool.false_eq_true, ↓reduceIte, hv, Bool.not_false,
              beq_self_eq_true, Bool.true_and]
            rw [ih st hnd'.2, hrest]
        · have h1 : (c.key != tal.key) = true := by simpa using hk
          have h2 : (c.key == tal.key) = false := by simpa using hk
          simp only [h1, ↓reduceIte, h2, Bool.false_and, Bool.false_eq_true]
          rw [ih st hnd'.2, hrest]

/-! ## Non-vacuity -/

namespace C10Example
def good : TaCert := ⟨0, true, 0, 1000, ⟨0, 9, 8⟩⟩
def wrongKey : TaCert := ⟨5, true, 0, 1000, ⟨5, 19, 18⟩⟩
def expired : TaCert := ⟨0, true, 0, 50, ⟨0, 29, 28⟩⟩
def tal : Tal := ⟨0, [1, 2, 3]⟩
/-- URI 1 serves a certificate with the wrong key, URI 2 garbage, URI 3 nothing; the store
holds an expired copy for URI 1 and a good one for URI 2. -/
def view : View := ⟨[(1, ⟨100, some wrongKey⟩), (2, ⟨101, none⟩)], []⟩
def store : Store := ⟨[], [(1, ⟨102, some expired⟩), (2, ⟨103, some good⟩)]⟩
end C10Example

open C10Example in
/-- The wrong-key download is skipped (yet recorded: it decodes), the garbage at URI 2 leaves
the stored good copy in place, which is then used. -/
example :
    (selectTa 100 (some view) tal tal.uris store).1 = some good
    ∧ (selectTa 100 (some view) tal tal.uris store).2.ta 1 = some ⟨100, some wrongKey⟩
    ∧ (selectTa 100 (some view) tal tal.uris store).2.ta 2 = some ⟨103, some good⟩ := by
  decide

open C10Example in
/-- Every URI fails: nothing is used. -/
example : (selectTa 100 (some view) ⟨7, [1, 2, 3]⟩ [1, 2, 3] store).1 = none := by decide

open C10Example in
/-- The TAL's key has changed since the copy was stored (the store is keyed by URI only): with
nothing to download, the stored certificate — valid, but for the old key — is not used. -/
example :
    (selectTa 100 (some ⟨[], []⟩) ⟨6, [2]⟩ [2] store).1 = none
    ∧ (selectTa 100 (some ⟨[], []⟩) ⟨0, [2]⟩ [2] store).1 = some good := by decide

end RoutinatorModel
