import RoutinatorModel.Props.C03
/-!
# C05 — Fetched manifests never roll back stored data

* `C05_accepts_iff`: `check_collected_is_newer` accepts the fetched manifest iff nothing is
  stored, or its number is strictly greater **and** its thisUpdate strictly later than the
  stored (cached) values, or the stored copy is internally inconsistent (cached values differ
  from the stored manifest's own, or the stored manifest does not decode).
* `C05_point_monotone`: one run of a publication point over a consistent stored copy leaves
  the stored copy untouched or replaces it by one with strictly greater number and strictly
  later thisUpdate — which is consistent again; `C05_history_monotone` lifts this to every
  history of offers (any servers, clocks, configurations, processing orders).
* `C05_replay_ignored`: whatever is offered with a manifest whose number is not greater or
  whose thisUpdate is not later than the consistent stored copy's, the store entry is
  unchanged and the result is exactly that of the stored version.
-/
namespace RoutinatorModel
open Engine

/-- The cached number / thisUpdate agree with the stored manifest's own. -/
def Engine.Stored.consistent (s : Stored) : Prop :=
  ∃ sm, s.mft.parsed = some sm ∧ sm.number = s.number ∧ sm.thisUpdate = s.thisUpdate

/-- **C05, decision.** -/
theorem C05_accepts_iff (m : Mft) (st : Option Stored) :
    (collectedIsNewer m st).1 = true ↔
      (st = none ∨ ∃ s, st = some s ∧
        ((m.number > s.number ∧ m.thisUpdate > s.thisUpdate) ∨ ¬ s.consistent)) := by
  cases st with
  | none => simp [collectedIsNewer]
  | some s =>
    simp only [collectedIsNewer, reduceCtorEq, Option.some.injEq, exists_eq_left', false_or]
    by_cases h : m.number > s.number ∧ m.thisUpdate > s.thisUpdate
    · simp [h]
    · have h' : (decide (m.number > s.number) && decide (m.thisUpdate > s.thisUpdate)) = false := by
        simpa using h
      simp only [h', Bool.false_eq_true, ↓reduceIte, h, false_or]
      cases hp : s.mft.parsed with
      | none => simp [Stored.consistent, hp]
      | some sm =>
        by_cases hc : sm.number = s.number ∧ sm.thisUpdate = s.thisUpdate
        · simp [Stored.consistent, hp, hc]
        · have hc' : (sm.number == s.number && sm.thisUpdate == s.thisUpdate) = false := by
            simpa using hc
          simp only [hc', Bool.false_eq_true, ↓reduceIte, Stored.consistent, hp,
            Option.some.injEq, exists_eq_left', true_iff]
          exact hc

/-- The stored copy after a rejected (not newer) manifest is the stored copy before. -/
theorem Engine.collectedIsNewer_consistent {m : Mft} {s : Stored} (hc : s.consistent) :
    collectedIsNewer m (some s)
      = (decide (m.number > s.number) && decide (m.thisUpdate > s.thisUpdate), some s) := by
  obtain ⟨sm, hp, hn, ht⟩ := hc
  unfold collectedIsNewer
  by_cases h : (decide (m.number > s.number) && decide (m.thisUpdate > s.thisUpdate)) = true
  · simp [h]
  · simp [h, hp, hn, ht]

/-- **C05, one run.** Over a consistent stored copy a run either leaves the store entry as
it is or replaces it by a consistent one with strictly greater manifest number and strictly
later thisUpdate. -/
theorem C05_point_monotone (cfg : Cfg) (now : Int) (coll : Option Offer) (s : Stored) (ca : CaCtx)
    (reorder : List Entry → List Entry) (hperm : ∀ l, (reorder l).Perm l)
    (hc : s.consistent) :
    let r := processPointWith true cfg now coll (some s) ca reorder
    r.stored = some s ∨
      ∃ s', r.stored = some s' ∧ s'.consistent ∧ s'.number > s.number
        ∧ s'.thisUpdate > s.thisUpdate := by
  intro r
  cases coll with
  | none => left; simp only [r, processPointWith, processStored]; split <;> (try split) <;> rfl
  | some offer =>
    have hd := processCollectedWith_decision cfg now ca (offer.get ca.info.mft) (some s) reorder hperm
    cases hdec : pointDecision cfg now ca (offer.get ca.info.mft) (some s) with
    | useFetched mf vm crl =>
      simp only [hdec] at hd
      obtain ⟨items, kids, objs, heq, _⟩ := hd
      obtain ⟨_, _, hv, hnew, _⟩ := pointDecision_useFetched_inv hdec
      rw [collectedIsNewer_consistent hc] at hnew
      simp only [Bool.and_eq_true, decide_eq_true_eq] at hnew
      right
      refine ⟨⟨mf, vm.mft.number, vm.mft.thisUpdate, vm.mft.ee.notAfter, ca.info.repo, crl, objs⟩,
        by simp only [r, processPointWith, heq], ?_, hnew.1, hnew.2⟩
      exact ⟨vm.mft, validateCollected_mft hv, rfl, rfl⟩
    | useStored st' =>
      simp only [hdec] at hd
      obtain ⟨acc, heq⟩ := hd
      left
      -- with a consistent stored copy every fallback hands over that copy
      have hst : st' = some s := by
        unfold pointDecision at hdec
        split at hdec
        · cases hdec; rfl
        · split at hdec
          · cases hdec; rfl
          · split at hdec
            · cases hdec; rfl
            · rename_i vm crl _
              rw [collectedIsNewer_consistent hc] at hdec
              split at hdec
              · rename_i st'' hn
                simp only [Prod.mk.injEq] at hn
                cases hdec
                exact hn.2.symm
              · rename_i st'' hn
                simp only [Prod.mk.injEq] at hn
                split at hdec
                · cases hdec
                · cases hdec
                  exact hn.2.symm
      subst hst
      simp only [r, processPointWith, heq, ↓reduceIte, processStored]
      split <;> rfl

/-- One step of a publication point's history. -/
structure Engine.Step where
  cfg : Cfg
  now : Int
  coll : Option Offer
  ca : CaCtx
  reorder : List Entry → List Entry

/-- The store entries of one publication point over a history of runs. -/
def Engine.pointHistory : List Step → Option Stored → List (Option Stored)
  | [], _ => []
  | step :: rest, st =>
    let st' := (processPointWith true step.cfg step.now step.coll st step.ca step.reorder).stored
    st' :: pointHistory rest st'

/-- `a ≤ b` on store entries: both present, consistent, and `b` not older in number or
thisUpdate. -/
def Engine.StoredLe (a b : Stored) : Prop :=
  b.consistent ∧ a.number ≤ b.number ∧ a.thisUpdate ≤ b.thisUpdate

/-- **C05, histories.** Starting from a consistent stored copy, over every history of runs
(arbitrary servers, clocks, configurations and processing orders) the stored copy stays
present and consistent, and its manifest number and thisUpdate never decrease. -/
theorem C05_history_monotone (steps : List Step) (s : Stored) (hc : s.consistent)
    (hperm : ∀ step ∈ steps, ∀ l, (step.reorder l).Perm l) :
    ∀ st' ∈ pointHistory steps (some s), ∃ s', st' = some s' ∧ StoredLe s s' := by
  induction steps generalizing s with
  | nil => simp [pointHistory]
  | cons step rest ih =>
    intro st' hmem
    simp only [pointHistory, List.mem_cons] at hmem
    have hstep := C05_point_monotone step.cfg step.now step.coll s step.ca step.reorder
      (hperm step (by simp)) hc
    have hrest : ∀ st ∈ rest, ∀ l, (st.reorder l).Perm l := fun st h => hperm st (by simp [h])
    rcases hstep with h | ⟨s1, h, hc1, hn, ht⟩
    · rw [h] at hmem
      rcases hmem with rfl | hmem
      · exact ⟨s, rfl, hc, Nat.le_refl _, Int.le_refl _⟩
      · exact ih s hc hrest st' hmem
    · rw [h] at hmem
      rcases hmem with rfl | hmem
      · exact ⟨s1, rfl, hc1, Nat.le_of_lt hn, Int.le_of_lt ht⟩
      · obtain ⟨s2, rfl, hc2, hn2, ht2⟩ := ih s1 hc1 hrest st' hmem
        exact ⟨s2, rfl, hc2, Nat.le_trans (Nat.le_of_lt hn) hn2,
          Int.le_trans (Int.le_of_lt ht) ht2⟩

/-- **C05, replay.** If the offered manifest's number is not greater or its thisUpdate not
later than the consistent stored copy's, then — whatever else is offered, however the
manifest validates, in whatever order entries would be processed — the store entry is
unchanged and the result is exactly that of the stored version. -/
theorem C05_replay_ignored (cfg : Cfg) (now : Int) (offer : Offer) (s : Stored) (ca : CaCtx)
    (reorder : List Entry → List Entry) (hperm : ∀ l, (reorder l).Perm l)
    (hc : s.consistent) {mf : MftFile} {m : Mft}
    (hmf : (offer.get ca.info.mft).mft = some mf) (hm : mf.parsed = some m)
    (hold : m.number ≤ s.number ∨ m.thisUpdate ≤ s.thisUpdate) :
    processPointWith true cfg now (some offer) (some s) ca reorder
      = storedResult cfg now ca (some s) := by
  have hd := processCollectedWith_decision cfg now ca (offer.get ca.info.mft) (some s) reorder hperm
  have hdec : pointDecision cfg now ca (offer.get ca.info.mft) (some s) = .useStored (some s) := by
    unfold pointDecision
    simp only [hmf]
    split
    · rfl
    · split
      · rfl
      · rename_i vm crl hv
        have hvm := validateCollected_mft hv
        rw [hm] at hvm
        cases hvm
        rw [collectedIsNewer_consistent hc]
        have : (decide (vm.mft.number > s.number) && decide (vm.mft.thisUpdate > s.thisUpdate))
            = false := by
          rcases hold with h | h
          · have : ¬ vm.mft.number > s.number := Nat.not_lt.mpr h
            simp [this]
          · have : ¬ vm.mft.thisUpdate > s.thisUpdate := Int.not_lt.mpr h
            simp [this]
        simp only [this]
  simp only [hdec] at hd
  obtain ⟨acc, heq⟩ := hd
  simp [processPointWith, heq, storedResult]

/-! ## Non-vacuity -/

open C03Example in
/-- The stored copy of the C03 example is consistent; replaying its own version or an equal
number changes nothing, the newer version 2 replaces it. -/
example : stored1.consistent := ⟨_, rfl, rfl, rfl⟩

open C03Example in
example :
    (collectedIsNewer m2 (some stored1)).1 = true
    ∧ (collectedIsNewer { m2 with number := 1 } (some stored1)).1 = false
    ∧ (collectedIsNewer { m2 with thisUpdate := 10 } (some stored1)).1 = false
    ∧ (collectedIsNewer { m2 with number := 1 } (some { stored1 with number := 5 })).1 = true := by
  decide

end RoutinatorModel
