import RoutinatorModel.Proofs.Engine2Isolate
/-!
# C41 — A broken repository affects only its own subtree

Model: the walk of `Model/Engine2.lean` (erases to the shared engine model). A repository is
a set of manifest URIs; "broken" means that what the collector offers for those URIs (and
what the store holds for them) is arbitrary. The affected region `A` is the set of manifest
URIs of the CAs published in the repository *and their descendants* — `Closed`: a
publication point in `A` only ever certifies children in `A` (in both universes).

* `C41_point_local` — the result of a publication point depends on the collector only
  through what is offered for the point's own manifest URI.
* `C41_isolated` — non-interference: two universes with the same trust anchor downloads whose
  offers agree outside `A`, started from stores that agree outside `A`: every visit outside
  `A` (task, store entry found, result — hence payload, children, refresh) is identical,
  and the stores still agree outside `A` afterwards.
* `C41_payload_isolated` — the payload contributed by CAs outside `A` is the same.
* `C41_served_isolated` — under `unsafe-vrps = reject`: an item contributed by a CA outside
  `A` is served in one universe iff it is served in the other, unless it overlaps the
  resources of a CA in `A` that was rejected in one of them.
* `C41_store_ok` — the side condition on stores (no manifest URI bound twice) holds for the
  empty store and is preserved by runs and cleanup.
-/
namespace RoutinatorModel
open Engine

/-- **C41, locality of a publication point.** -/
theorem C41_point_local (cfg : Cfg) (now : Int) (offer offer' : Offer) (st : Option Stored)
    (ca : CaX) (h : offer.get ca.ctx.info.mft = offer'.get ca.ctx.info.mft) :
    processPointX cfg now (some offer) st ca = processPointX cfg now (some offer') st ca
    ∧ processPoint true cfg now (some offer) st ca.ctx = processPoint true cfg now (some offer') st ca.ctx := by
  have := processPointX_congr cfg now offer offer' st ca h
  exact ⟨this, by rw [processPointX_erase, processPointX_erase, this]⟩

/-- **C41, non-interference.** -/
theorem C41_isolated (cfg : Cfg) (now : Int) (tas : List (Uri × TaFile))
    (offer offer' : Offer) (tals : List Tal) (A : Uri → Bool)
    (hagree : ∀ u, A u = false → offer.get u = offer'.get u)
    (hclosed : Closed cfg now (some offer) A) (hclosed' : Closed cfg now (some offer') A)
    (store store' : Store) (hs : StoreOk store) (hs' : StoreOk store')
    (ha : StoresAgree A store store') :
    outside A (runOnceX cfg now (some ⟨tas, offer⟩) tals store).1
      = outside A (runOnceX cfg now (some ⟨tas, offer'⟩) tals store').1
    ∧ StoresAgree A (runOnceX cfg now (some ⟨tas, offer⟩) tals store).2
        (runOnceX cfg now (some ⟨tas, offer'⟩) tals store').2 := by
  obtain ⟨h1, h2, _, _⟩ := runOnceX_isolated cfg now tas offer offer' tals A hagree hclosed hclosed'
    store store' hs hs' ha
  exact ⟨h1, h2⟩

/-- **C41, payload.** What the CAs outside the affected region contribute is the same with
and without the fault. -/
theorem C41_payload_isolated (cfg : Cfg) (now : Int) (tas : List (Uri × TaFile))
    (offer offer' : Offer) (tals : List Tal) (A : Uri → Bool)
    (hagree : ∀ u, A u = false → offer.get u = offer'.get u)
    (hclosed : Closed cfg now (some offer) A) (hclosed' : Closed cfg now (some offer') A)
    (store store' : Store) (hs : StoreOk store) (hs' : StoreOk store')
    (ha : StoresAgree A store store') :
    payloadOf (outside A (runOnceX cfg now (some ⟨tas, offer⟩) tals store).1)
      = payloadOf (outside A (runOnceX cfg now (some ⟨tas, offer'⟩) tals store').1) := by
  rw [(C41_isolated cfg now tas offer offer' tals A hagree hclosed hclosed' store store' hs hs' ha).1]

/-- **C41, unsafe-VRP filtering.** Given that the visits outside `A` coincide, an item is
served in one universe iff in the other, unless it overlaps (`ov`) a rejected CA inside `A`. -/
theorem C41_served_isolated (ov : Item → CaX → Bool) (A : Uri → Bool) (vis vis' : List Visit)
    (heq : outside A vis = outside A vis') (i : Item)
    (hi : i ∈ payloadOf (outside A vis))
    (hno : ∀ v ∈ vis ++ vis', A v.ca.ctx.info.mft = true → v.point.accepted = false →
      ov i v.ca = false) :
    i ∈ servedItems ov vis ↔ i ∈ servedItems ov vis' := by
  have hmem : ∀ (l : List Visit), i ∈ payloadOf (outside A l) → i ∈ payloadOf l := by
    intro l h
    simp only [payloadOf, outside, List.mem_flatMap, List.mem_filter] at h ⊢
    obtain ⟨v, ⟨hv, _⟩, hiv⟩ := h
    exact ⟨v, hv, hiv⟩
  have hi' : i ∈ payloadOf (outside A vis') := heq ▸ hi
  -- a rejected CA overlapping `i` must be outside `A`, hence is rejected in both universes
  have key : ∀ (l l' : List Visit), outside A l = outside A l' →
      (∀ v ∈ l, A v.ca.ctx.info.mft = true → v.point.accepted = false → ov i v.ca = false) →
      (rejectedCas l').any (ov i) = false → (rejectedCas l).any (ov i) = false := by
    intro l l' he hno' h
    simp only [List.any_eq_false, rejectedCas, List.mem_map, List.mem_filter] at h ⊢
    rintro c ⟨v, ⟨hv, hacc⟩, rfl⟩
    by_cases hA : A v.ca.ctx.info.mft = true
    · have := hno' v hv hA (by simpa using hacc)
      simp [this]
    · have hvo : v ∈ outside A l := by
        simp only [outside, List.mem_filter]
        exact ⟨hv, by simpa using hA⟩
      rw [he] at hvo
      simp only [outside, List.mem_filter] at hvo
      exact h v.ca ⟨v, ⟨hvo.1, hacc⟩, rfl⟩
  unfold servedItems
  simp only [List.mem_filter, Bool.not_eq_true', hmem vis hi, hmem vis' hi', true_and]
  constructor
  · exact key vis' vis heq.symm (fun v hv => hno v (List.mem_append_right _ hv))
  · exact key vis vis' heq (fun v hv => hno v (List.mem_append_left _ hv))

/-- **C41, the side condition on stores.** No manifest URI is bound twice: true initially,
preserved by runs and by cleanup. -/
theorem C41_store_ok (cfg : Cfg) (tals : List Tal) (r : Run) (store : Store) (hs : StoreOk store) :
    StoreOk ⟨[], []⟩ ∧ StoreOk (runOnce true cfg r.now r.view tals store).2
      ∧ StoreOk (runFull true cfg tals r store).2 := by
  have h1 : StoreOk (runOnce true cfg r.now r.view tals store).2 := by
    rw [runOnceX_erase]
    have := runOnceX_rule cfg r.now r.view tals store
      (P := fun _ => True) (S := StoreOk) (Q := fun _ => True)
      (fun s s' he h => by unfold StoreOk at h ⊢; rw [← he]; exact h)
      (fun _ _ _ _ _ _ _ _ => trivial)
      (fun ca st _ hS => ⟨hS.setPoint _ _, fun _ _ => trivial, trivial⟩)
      hs
    exact this.1
  refine ⟨StoreOk.empty, h1, ?_⟩
  unfold runFull
  simp only []
  split
  · unfold StoreOk KeysNodup Store.cleanup at *
    simp only []
    exact List.Nodup.sublist (List.Sublist.map _ List.filter_sublist) h1
  · exact h1

/-! ## Non-vacuity -/

namespace C41Example
def cfg : Cfg := ⟨.reject, 32, false, false⟩
def ee (serial : Nat) : CertAttr := ⟨true, serial, 0, 1000, some 7⟩
def crlFile : File := ⟨50, .crl true 1000 []⟩
def roaA : File := ⟨51, .roa (ee 10) [64496]⟩
def mftGood : MftFile := ⟨1, some ⟨ee 1, some 0, 1, 10, 1000, [⟨0, .crl, 50, true⟩, ⟨1, .roa, 51, true⟩]⟩⟩
/-- the other repository's point: manifest URI 18; broken in the second universe -/
def kidCert : File := ⟨60, .ca (ee 20) ⟨1, 19, 18⟩⟩
def mftRoot : MftFile := ⟨3, some ⟨ee 3, some 0, 1, 10, 1000,
  [⟨0, .crl, 50, true⟩, ⟨1, .roa, 51, true⟩, ⟨2, .cer, 60, true⟩]⟩⟩
def kidCrl : File := ⟨70, .crl true 1000 []⟩
def kidRoa : File := ⟨71, .roa ⟨true, 30, 0, 1000, some 17⟩ [64999]⟩
def mftKid : MftFile := ⟨4, some ⟨⟨true, 31, 0, 1000, some 17⟩, some 0, 1, 10, 1000,
  [⟨0, .crl, 70, true⟩, ⟨1, .roa, 71, true⟩]⟩⟩
def ta : TaFile := ⟨90, some ⟨0, true, 0, 2000, ⟨0, 9, 8⟩⟩⟩
def rootPoint : Uri × Fetched :=
  (8, ⟨some mftRoot, [(0, crlFile), (1, roaA), (2, kidCert)], []⟩)
def offer : Offer := [rootPoint, (18, ⟨some mftKid, [(0, kidCrl), (1, kidRoa)], []⟩)]
/-- the child's repository delivers nothing -/
def offerBroken : Offer := [rootPoint]
def tals : List Tal := [⟨0, [5]⟩]
def A (u : Uri) : Bool := u == 18
end C41Example

open C41Example in
/-- The child's repository breaks: the child's payload (64999) goes away, the payload of the
CA outside the affected region stays. -/
example :
    payloadOf (runOnceX cfg 100 (some ⟨[(5, ta)], offer⟩) tals ⟨[], []⟩).1 = [64496, 64999]
    ∧ payloadOf (runOnceX cfg 100 (some ⟨[(5, ta)], offerBroken⟩) tals ⟨[], []⟩).1 = [64496]
    ∧ payloadOf (outside A (runOnceX cfg 100 (some ⟨[(5, ta)], offer⟩) tals ⟨[], []⟩).1) = [64496]
    ∧ ∀ u, A u = false → offer.get u = offerBroken.get u := by
  refine ⟨by decide, by decide, by decide, ?_⟩
  intro u hu
  simp only [A, beq_eq_false_iff_ne] at hu
  simp only [Offer.get, offer, offerBroken, rootPoint, lookup]
  by_cases h8 : (8 : Nat) = u
  · simp [h8]
  · have h18 : ¬ ((18 : Nat) = u) := fun h => hu h.symm
    simp [h8, h18]

end RoutinatorModel
