import RoutinatorModel.Proofs.Stream
import RoutinatorModel.Generated.Templates
/-!
# C18 — JSON delta and snapshot streams are well-formed and exact

`DeltaStream` / `SnapshotStream` (src/http/delta.rs) produce the `/json-delta` body in
chunks. For every chunk size the concatenated chunks are the document (`C18_*_flatten`),
the document is a JSON text whatever the number of items, including none
(`C18_*_json`), and its `announced` / `withdrawn` arrays consist of exactly the delta's
announced / withdrawn items (the data set's items for a reset), one object per item, in
delta order, between the header carrying the given session and serials and the footer
(`C18_*_items`).
-/
namespace RoutinatorModel
open RoutinatorModel.Json RoutinatorModel.Stream

/-- Chunking never changes the byte stream of a delta response: for **every** chunk size. -/
theorem C18_delta_flatten (τ : Nat) (d : Delta) : (deltaChunks τ d).flatten = deltaDoc d := by
  simp [deltaChunks, deltaDoc, annLoop_flat]

/-- The same for a reset response, for every chunk size that is at least the length of the
header (for smaller ones `SnapshotStream` writes a comma before the first item, see
`C18_snapshot_tiny_chunk`). -/
theorem C18_snapshot_flatten (τ : Nat) (s : Snapshot) (h : s.header.length ≤ τ) :
    (snapshotChunks τ s).flatten = snapshotDoc s := by
  have : ¬ (s.header.length > τ) := by omega
  simp [snapshotChunks, snapshotDoc, snapLoop_flat, this]

/-- The header is 106 characters plus its four fields, far below the 64 000 of the source. -/
theorem C18_snapshot_header_length (s : Snapshot) :
    s.header.length = 106 + s.session.length + s.toSerial.length + s.generated.length +
      s.generatedTime.length := by
  simp only [Snapshot.header, snapshotHeader, fillFrom, List.length_append, List.length_cons,
    List.length_nil]
  omega

/-- With the chunk size of the source, for session, serial and time stamps of any realistic
length. -/
theorem C18_snapshot_flatten_64000 (s : Snapshot)
    (h : s.session.length + s.toSerial.length + s.generated.length + s.generatedTime.length ≤ 63000) :
    (snapshotChunks threshold s).flatten = snapshotDoc s := by
  apply C18_snapshot_flatten
  rw [C18_snapshot_header_length]
  simp only [threshold]
  omega

/-- A delta response is a single JSON text: any number of announced and withdrawn items of
the three payload types, including none. -/
theorem C18_delta_json (d : Delta) (h : d.okB = true) : IsJson (deltaDoc d) := by
  simp only [Delta.okB, Bool.and_eq_true] at h
  rw [deltaDoc_fill]
  exact fill_json deltaDoc_ok ⟨isInt_of_intB h.1.1.1.1.1, isInt_of_intB h.1.1.1.1.2,
    isInt_of_intB h.1.1.1.2, isNumberB_sound h.1.1.2, isChars_of_plainB h.1.2,
    items_holeOk (all_filter_map h.2), items_holeOk (all_filter_map h.2), trivial⟩

/-- A reset response is a single JSON text. -/
theorem C18_snapshot_json (s : Snapshot) (h : s.okB = true) : IsJson (snapshotDoc s) := by
  simp only [Snapshot.okB, Bool.and_eq_true] at h
  rw [snapshotDoc_fill]
  exact fill_json snapshotDoc_ok ⟨isInt_of_intB h.1.1.1.1, isInt_of_intB h.1.1.1.2,
    isNumberB_sound h.1.1.2, isChars_of_plainB h.1.2, items_holeOk h.2, trivial⟩

/-- The `announced` array holds exactly the announced items of the delta, the `withdrawn`
array exactly the withdrawn ones: one element per item, in delta order, nothing else. -/
theorem C18_delta_items (d : Delta) :
    deltaDoc d = d.header ++ (joinComma (d.announced.map itemText) ++ (deltaSeparator ++
      (joinComma (d.withdrawn.map itemText) ++ deltaFooter))) ∧
    d.announced = (d.actions.filter (·.2)).map (·.1) ∧
    d.withdrawn = (d.actions.filter (!·.2)).map (·.1) ∧
    (d.okB = true → ∀ it ∈ d.announced ++ d.withdrawn, J .element (itemText it)) := by
  refine ⟨by simp [deltaDoc, itemsText_true], rfl, rfl, ?_⟩
  intro h it hit
  simp only [Delta.okB, Bool.and_eq_true] at h
  rcases List.mem_append.mp hit with hm | hm
  · exact item_element (List.all_eq_true.mp (all_filter_map h.2) it hm)
  · exact item_element (List.all_eq_true.mp (all_filter_map h.2) it hm)

/-- The `announced` array of a reset holds exactly the items of the data set. -/
theorem C18_snapshot_items (s : Snapshot) :
    snapshotDoc s = s.header ++ (joinComma (s.items.map itemText) ++ deltaFooter) ∧
    (s.okB = true → ∀ it ∈ s.items, J .element (itemText it)) := by
  refine ⟨by simp [snapshotDoc, itemsText_true], ?_⟩
  intro h it hit
  simp only [Snapshot.okB, Bool.and_eq_true] at h
  exact item_element (List.all_eq_true.mp h.2 it hit)

/-- The format strings, the comma rule and the chunk size tests extracted from
`src/http/delta.rs` on every run are the ones the model uses. -/
theorem C18_templates_current :
    Generated.deltaTemplates = Stream.deltaTemplates ∧
    Generated.streamThresholds = Stream.streamThresholds := by
  decide +kernel

/-! ## A quirk outside the source's parameters

With a chunk size below the header length `SnapshotStream` starts its second call with
`first = false` although no item has been written yet: the first item gets a comma. -/
def tinySnapshot : Snapshot :=
  { session := cp!"1", toSerial := cp!"2", generated := cp!"3", generatedTime := cp!"t",
    items := [.origin (cp!"AS1") (cp!"10.0.0.0") (cp!"8") (cp!"8")] }

example : (snapshotChunks 5 tinySnapshot).flatten ≠ snapshotDoc tinySnapshot := by decide +kernel

/-! ## Non-vacuity -/

def sampleDelta : Delta :=
  { session := cp!"18446744073709551615", toSerial := cp!"4294967295", fromSerial := cp!"0",
    generated := cp!"-1", generatedTime := cp!"1969-12-31T23:59:59Z",
    actions := [
      (.origin (cp!"AS64496") (cp!"192.0.2.0") (cp!"24") (cp!"24"), true),
      (.origin (cp!"AS0") (cp!"2001:db8::") (cp!"32") (cp!"128"), false),
      (.routerKey (cp!"0123456789abcdef0123456789abcdef01234567") (cp!"AS64497") (cp!"AAEC+/8="), true),
      (.aspa (cp!"AS64498") [], false),
      (.aspa (cp!"AS64499") [cp!"AS1", cp!"AS2", cp!"AS3"], true)] }

example : sampleDelta.okB = true := by decide +kernel
example : recognise (deltaDoc sampleDelta) = true := by decide +kernel
example : (deltaChunks 200 sampleDelta).map List.length = [305, 319, 259, 7] := by decide +kernel
def emptyDelta : Delta :=
  { session := cp!"1", toSerial := cp!"2", fromSerial := cp!"1", generated := cp!"0",
    generatedTime := cp!"1970-01-01T00:00:00Z", actions := [] }

def emptySnapshot : Snapshot :=
  { session := cp!"7", toSerial := cp!"0", generated := cp!"0",
    generatedTime := cp!"1970-01-01T00:00:00Z", items := [] }

example : recognise (deltaDoc emptyDelta) = true := by decide +kernel
example : recognise (snapshotDoc emptySnapshot) = true := by decide +kernel

end RoutinatorModel
