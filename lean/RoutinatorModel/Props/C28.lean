import RoutinatorModel.Proofs.Records
import RoutinatorModel.Generated.RecordLayouts
/-!
# C28 — Every persisted record reads back as written

Model: `Model/Binio.lean` (Compose/Parse primitives of `src/utils/binio.rs`, the two hand-written
sum encodings of `src/store.rs`), `Model/Records.lean` (record layouts, the stored-point file),
`Generated/RecordLayouts.lean` (field order, field types, version constants, option markers and
enum tags — extracted from the Rust source on every run, separately for the writing and the
reading side).

Shape of the argument: the round trip is proved **once**, for every parameter set with
`paramsOk` and every layout with `layoutOk` (both decidable); the per-run obligation is
`C28_generated_ok`, a closed decidable statement about the extracted tables. Reordering fields on
both sides, adding a field with a supported type or bumping a version re-verifies by itself; a
field moved on one side only, or a marker changed on one side only, makes the decidable check
false.

Well-formedness (`wfv`) is explicit and decidable: lengths that fit the length prefix
(`< 2^32` for URIs, `< 2^64` for byte strings and maps), values the Rust types can hold
(valid URIs, 16/32/20-byte arrays, serial numbers with a clear top bit, timestamps in chrono's
range, distinct map keys) and whole-second times. The last one is the only condition real values
violate — see `C28_subsecond_truncated`.
-/
namespace RoutinatorModel
open Codec

/-- Field level: every `Compose`/`Parse` pair. For a well-formed value, composing succeeds and
parsing the result followed by arbitrary further bytes returns the value and exactly those
further bytes. -/
theorem C28_field_roundtrip (P : Params) (hP : paramsOk P = true) (ty : FT) (v : Val)
    (h : wfv P ty v = true) :
    ∃ bs, enc P ty v = some bs ∧ ∀ rest, (dec P ty (bs ++ rest)).res = .ok (v, rest) :=
  field_roundtrip P hP ty v h

/-- Record level, for *any* layout whose two sides agree. -/
theorem C28_record_roundtrip (P : Params) (hP : paramsOk P = true) (L : RecLayout)
    (hL : layoutOk L = true) (r : Record) (hwf : wfRec P L r = true) :
    ∃ bs, encodeRec P L r = some bs ∧
      ∀ rest, (decodeRec P L (bs ++ rest)).res = .ok (r, rest) :=
  record_roundtrip P hP L hL r hwf

/-- The per-run obligation: the constants and layouts found in the source satisfy the side
conditions of the generic theorems; the object layout starts with a field (needed for the
EOF-means-end rule of `StoredObject::read`). -/
theorem C28_generated_ok :
    paramsOk Generated.params = true ∧
    Generated.layouts.all layoutOk = true ∧
    (match Generated.storedObject.read with | .field _ _ :: _ => true | _ => false) = true := by
  decide

/-- The five record types of the pinned source. -/
theorem C28_generated_roundtrip (L : RecLayout) (hL : L ∈ Generated.layouts) (r : Record)
    (hwf : wfRec Generated.params L r = true) :
    ∃ bs, encodeRec Generated.params L r = some bs ∧
      ∀ rest, (decodeRec Generated.params L (bs ++ rest)).res = .ok (r, rest) := by
  have hall := C28_generated_ok.2.1
  rw [List.all_eq_true] at hall
  exact record_roundtrip _ C28_generated_ok.1 L (hall L hL) r hwf

theorem C28_stored_point_header (r : Record) (hwf : wfRec Generated.params Generated.storedPointHeader r = true) :
    ∃ bs, encodeRec Generated.params Generated.storedPointHeader r = some bs ∧
      ∀ rest, (decodeRec Generated.params Generated.storedPointHeader (bs ++ rest)).res = .ok (r, rest) :=
  C28_generated_roundtrip _ (by simp [Generated.layouts]) r hwf

theorem C28_stored_manifest (r : Record) (hwf : wfRec Generated.params Generated.storedManifest r = true) :
    ∃ bs, encodeRec Generated.params Generated.storedManifest r = some bs ∧
      ∀ rest, (decodeRec Generated.params Generated.storedManifest (bs ++ rest)).res = .ok (r, rest) :=
  C28_generated_roundtrip _ (by simp [Generated.layouts]) r hwf

theorem C28_stored_status (r : Record) (hwf : wfRec Generated.params Generated.storedStatus r = true) :
    ∃ bs, encodeRec Generated.params Generated.storedStatus r = some bs ∧
      ∀ rest, (decodeRec Generated.params Generated.storedStatus (bs ++ rest)).res = .ok (r, rest) :=
  C28_generated_roundtrip _ (by simp [Generated.layouts]) r hwf

theorem C28_repository_state (r : Record) (hwf : wfRec Generated.params Generated.repositoryState r = true) :
    ∃ bs, encodeRec Generated.params Generated.repositoryState r = some bs ∧
      ∀ rest, (decodeRec Generated.params Generated.repositoryState (bs ++ rest)).res = .ok (r, rest) :=
  C28_generated_roundtrip _ (by simp [Generated.layouts]) r hwf

/-- `StoredObject::read` returns `Some(object)` for a written object (and leaves what follows). -/
theorem C28_stored_object (r : Record) (hwf : wfRec Generated.params Generated.storedObject r = true) :
    ∃ bs, encodeRec Generated.params Generated.storedObject r = some bs ∧
      ∀ rest, (decodeObjOpt Generated.params Generated.storedObject (bs ++ rest)).res = .ok (some r, rest) := by
  have hall := C28_generated_ok.2.1
  rw [List.all_eq_true] at hall
  obtain ⟨bs, h1, _, h2⟩ := decodeObjOpt_roundtrip Generated.params C28_generated_ok.1
    Generated.storedObject (hall _ (by simp [Generated.layouts])) "uri" .rsync _ rfl r hwf
  exact ⟨bs, h1, h2⟩

/-- The whole stored-point file: header, manifest and any number of objects written by
`StoredPoint::_update` are read back by `open` + iteration — all objects, in order, then `None`;
nothing is left over. -/
theorem C28_point_file_roundtrip (h m : Record) (objs : List Record)
    (hh : wfRec Generated.params Generated.storedPointHeader h = true)
    (hm : wfRec Generated.params Generated.storedManifest m = true)
    (ho : ∀ r ∈ objs, wfRec Generated.params Generated.storedObject r = true) :
    ∃ file, encodePointFile Generated.params Generated.pointLayouts h m objs = some file ∧
      decodePointFile Generated.params Generated.pointLayouts file = .ok (h, m, objs) := by
  have hall := C28_generated_ok.2.1
  rw [List.all_eq_true] at hall
  obtain ⟨hb, hhb, hhd⟩ := C28_stored_point_header h hh
  obtain ⟨mb, hmb, hmd⟩ := C28_stored_manifest m hm
  obtain ⟨ob, hob, hod⟩ := objects_roundtrip Generated.params C28_generated_ok.1
    Generated.storedObject (hall _ (by simp [Generated.layouts])) "uri" .rsync _ rfl objs ho
  refine ⟨hb ++ mb ++ ob, ?_, ?_⟩
  · simp only [encodePointFile, Generated.pointLayouts]
    rw [hhb, hmb, hob]; rfl
  · unfold decodePointFile
    simp only [Generated.pointLayouts]
    rw [List.append_assoc, hhd (mb ++ ob)]
    simp only
    rw [hmd ob]
    simp only
    have hlen : objs.length < ob.length + 1 := by
      -- every encoded object is non-empty, so there are at most |ob| objects
      have : ∀ (l : List Record) (bs : Bytes),
          (∀ r ∈ l, wfRec Generated.params Generated.storedObject r = true) →
          encodeObjects Generated.params Generated.storedObject l = some bs → l.length ≤ bs.length := by
        intro l
        induction l with
        | nil => intro bs _ _; exact Nat.zero_le _
        | cons r l ih =>
          intro bs hw he
          obtain ⟨b1, hb1, hne, _⟩ := decodeObjOpt_roundtrip Generated.params C28_generated_ok.1
            Generated.storedObject (hall _ (by simp [Generated.layouts])) "uri" .rsync _ rfl r
            (hw r List.mem_cons_self)
          simp only [encodeObjects, hb1] at he
          cases hl : encodeObjects Generated.params Generated.storedObject l with
          | none => rw [hl] at he; simp at he
          | some bl =>
            rw [hl] at he
            simp only [Option.pure_def, Option.bind_eq_bind, Option.bind_some, Option.some.injEq] at he
            have := ih bl (fun r' hr' => hw r' (List.mem_cons_of_mem _ hr')) hl
            have hpos : 0 < b1.length := by
              cases b1 with
              | nil => exact absurd rfl hne
              | cons _ _ => simp
            rw [← he, List.length_append, List.length_cons]
            omega
      exact Nat.lt_succ_of_le (this objs ob ho hob)
    rw [hod (ob.length + 1) hlen]

/-- Consequence of the round trip: two well-formed records with the same encoding are equal. -/
theorem C28_encode_injective (P : Params) (hP : paramsOk P = true) (L : RecLayout)
    (hL : layoutOk L = true) (r1 r2 : Record) (h1 : wfRec P L r1 = true) (h2 : wfRec P L r2 = true)
    (he : encodeRec P L r1 = encodeRec P L r2) : r1 = r2 := by
  obtain ⟨b1, e1, d1⟩ := record_roundtrip P hP L hL r1 h1
  obtain ⟨b2, e2, d2⟩ := record_roundtrip P hP L hL r2 h2
  rw [e1, e2] at he
  cases he
  have := (d1 []).symm.trans (d2 [])
  simp only [Except.ok.injEq, Prod.mk.injEq, and_true] at this
  exact this

/-- Outside well-formedness, by design: a time with a sub-second part is written as its
`timestamp()` and reads back truncated to the second (`Time`, `Option<Time>`, `UpdateStatus`).
The header's `Time::now()` fields are of this kind; the harness reports them as an observation
and compares at the format's resolution. -/
theorem C28_subsecond_truncated (P : Params) (hP : paramsOk P = true) (ty : FT) (v : Val)
    (h : wfv P ty (truncVal v) = true) :
    ∃ bs, enc P ty v = some bs ∧ ∀ rest, (dec P ty (bs ++ rest)).res = .ok (truncVal v, rest) := by
  obtain ⟨bs, hbs, hdec⟩ := field_roundtrip P hP ty (truncVal v) h
  refine ⟨bs, ?_, hdec⟩
  rw [← hbs]
  cases ty <;> cases v <;> first | rfl | (rename_i o; rcases o with _ | ⟨s, n⟩ <;> rfl)

/-! ### Non-vacuity and sensitivity -/

/-- A concrete non-trivial header satisfies the hypotheses. -/
example : wfRec Generated.params Generated.storedPointHeader
    [("manifest_uri", .b ("rsync://h/m/a.mft".toList.map c)),
     ("rpki_notify", .ob (some ("https://h/n.xml".toList.map c))),
     ("update_status", .st true 1700000000 0)] = true := by decide

/-- …and is encoded to the expected 50 octets (1 + 4+17 + 4+15 + 1+8). -/
example : (encodeRec Generated.params Generated.storedPointHeader
    [("manifest_uri", .b ("rsync://h/m/a.mft".toList.map c)),
     ("rpki_notify", .ob (some ("https://h/n.xml".toList.map c))),
     ("update_status", .st true 1700000000 0)]).map List.length = some 50 := by decide

/-- A layout whose write side has two fields swapped is rejected by `layoutOk`. -/
example : layoutOk { Generated.storedManifest with
    write := [.field "this_update" .time, .field "manifest_number" .serial, .field "not_after" .time,
              .field "ca_repository" .rsync, .field "manifest" .bytes, .field "crl_uri" .rsync,
              .field "crl" .bytes] } = false := by decide

/-- …and indeed does not round-trip: the two times come back exchanged. -/
example :
    let L : RecLayout := { name := "x", write := [.field "a" .time, .field "b" .time],
                           read := [.field "b" .time, .field "a" .time] }
    (do let bs ← encodeRec Generated.params L [("a", .t 1 0), ("b", .t 2 0)]
        pure (decodeRec Generated.params L bs).res) =
      some (.ok ([("b", .t 1 0), ("a", .t 2 0)], [])) := by decide

/-- A `None` marker changed on the writing side only is rejected by `paramsOk`, and `None` no
longer reads back (`Option<i64>`: 2 is neither tag). -/
example : paramsOk { Generated.params with optI64NoneW := 2 } = false := by decide
example : (do let bs ← enc { Generated.params with optI64NoneW := 2 } .optI64 (.oi none)
              pure (dec { Generated.params with optI64NoneW := 2 } .optI64 bs).res) =
    some (.error .format) := by decide

/-- The number of entries *read* is modelled apart from the pre-allocation: a decoder that caps
the read loop (`for _ in 0..min(len, c)`) is rejected by `paramsOk`, and indeed drops entries and
leaves their bytes unread — here with a cap of 1 on a two-entry map. -/
example : paramsOk { Generated.params with mapLoopCap := some 1 } = false := by decide
example :
    let P := { Generated.params with mapLoopCap := some 1 }
    let h : Bytes := List.replicate 32 7
    (do let bs ← enc P .mapU64Hash (.m [(5, h), (6, h)])
        pure ((dec P .mapU64Hash bs).res.toOption.map (fun p => (p.1, p.2.length)))) =
      some (some (.m [(5, h)], 40)) := by decide

end RoutinatorModel
