import RoutinatorModel.Proofs.Delta
/-!
# C11 — Deltas describe exactly the change between two data sets

Model: `Model/Delta.lean` (`stdConstruct`, `aspaConstruct`, `PayloadDelta.construct`).
All statements are for arbitrary (unbounded) strictly sorted data sets.
-/
namespace RoutinatorModel

/-- The action lists are sorted by key (the documented invariant of `StandardDelta::items`). -/
theorem C11_std_sorted {old new : List Nat} (ho : Sorted old) (hn : Sorted new) :
    KSorted (stdConstruct old new) := ksorted_stdConstruct ho hn

/-- Announced ⇔ absent from the old set and present in the new one. -/
theorem C11_std_announce_iff {old new : List Nat} (ho : Sorted old) (hn : Sorted new) (x : Nat) :
    (x, Action.announce) ∈ stdConstruct old new ↔ x ∉ old ∧ x ∈ new := by
  rw [mem_iff_lookup (ksorted_stdConstruct ho hn), lookup_stdConstruct ho hn,
      lookup_keyed, lookup_keyed]
  by_cases h1 : x ∈ old <;> by_cases h2 : x ∈ new <;> simp [h1, h2, combH, stdW, stdA, stdN]

/-- Withdrawn ⇔ present in the old set and absent from the new one. -/
theorem C11_std_withdraw_iff {old new : List Nat} (ho : Sorted old) (hn : Sorted new) (x : Nat) :
    (x, Action.withdraw) ∈ stdConstruct old new ↔ x ∈ old ∧ x ∉ new := by
  rw [mem_iff_lookup (ksorted_stdConstruct ho hn), lookup_stdConstruct ho hn,
      lookup_keyed, lookup_keyed]
  by_cases h1 : x ∈ old <;> by_cases h2 : x ∈ new <;> simp [h1, h2, combH, stdW, stdA, stdN]

/-- Applying the change set to the old set yields the new set. -/
theorem C11_std_apply {old new : List Nat} (ho : Sorted old) (hn : Sorted new) :
    stdApply old (stdConstruct old new) = new := by
  unfold stdApply
  have : mergeH some stdApplyAct (fun _ a => stdApplyAct a) (keyed old) (stdConstruct old new)
      = keyed new := by
    apply ksorted_ext _ _ (ksorted_mergeH _ _ _ _ _ (ksorted_keyed ho) (ksorted_stdConstruct ho hn))
      (ksorted_keyed hn)
    intro k
    rw [lookup_mergeH _ _ _ _ _ (ksorted_keyed ho) (ksorted_stdConstruct ho hn),
        lookup_stdConstruct ho hn, std_comb_apply]
  rw [this, keyed_map_fst]

/-- The change set is empty exactly when the sets are equal. -/
theorem C11_std_empty_iff {old new : List Nat} (ho : Sorted old) (hn : Sorted new) :
    stdConstruct old new = [] ↔ old = new := by
  constructor
  · intro h
    have := C11_std_apply ho hn
    rw [h] at this
    rw [← this]
    unfold stdApply
    have e : mergeH some stdApplyAct (fun _ a => stdApplyAct a) (keyed old) [] = keyed old := by
      apply ksorted_ext _ _ (ksorted_mergeH _ _ _ _ _ (ksorted_keyed ho) (by simp [KSorted]))
        (ksorted_keyed ho)
      intro k
      rw [lookup_mergeH _ _ _ _ _ (ksorted_keyed ho) (by simp [KSorted])]
      cases (keyed old).lookup k <;> simp [List.lookup, combH]
    rw [e, keyed_map_fst]
  · intro h
    subst h
    apply eq_nil_of_lookup_none
    intro k
    rw [lookup_stdConstruct ho ho, lookup_keyed]
    by_cases h1 : k ∈ old <;> simp [h1, combH, stdN]

/-- The counters kept by `push` equal the number of listed announce / withdraw actions. -/
theorem C11_counts {V : Type} (isAnn : V → Bool) (l : List (Nat × V)) :
    (Counted.ofItems isAnn l).items = l ∧
    (Counted.ofItems isAnn l).announceLen = (l.filter (fun x => isAnn x.2)).length ∧
    (Counted.ofItems isAnn l).withdrawLen = (l.filter (fun x => !isAnn x.2)).length := by
  have := ofItems_aux isAnn l ⟨[], 0, 0⟩
  simpa [Counted.ofItems] using this

/-! ### ASPA -/

theorem C11_aspa_sorted {old new : AspaSet} (ho : KSorted old) (hn : KSorted new) :
    KSorted (aspaConstruct old new) := ksorted_aspaConstruct ho hn

/-- An ASPA is announced (RTR action) with providers `p` ⇔ the new set maps the customer to
`p` and the old set does not (new customer, or provider set changed). -/
theorem C11_aspa_announce_iff {old new : AspaSet} (ho : KSorted old) (hn : KSorted new)
    (c : Nat) (p : List Nat) :
    (∃ a, (c, (p, a)) ∈ aspaConstruct old new ∧ a.toAction = Action.announce)
      ↔ new.lookup c = some p ∧ old.lookup c ≠ some p := by
  constructor
  · rintro ⟨a, hm, ha⟩
    rw [mem_iff_lookup (ksorted_aspaConstruct ho hn), lookup_aspaConstruct ho hn] at hm
    rcases ho' : old.lookup c with _ | q <;> rcases hn' : new.lookup c with _ | r <;>
      simp [ho', hn', combH, aspW, aspA, aspU] at hm
    all_goals (cases a <;> simp_all [AspaAction.toAction])
    grind
  · rintro ⟨h1, h2⟩
    rcases ho' : old.lookup c with _ | q
    · refine ⟨.announce, ?_, rfl⟩
      rw [mem_iff_lookup (ksorted_aspaConstruct ho hn), lookup_aspaConstruct ho hn, ho', h1]
      simp [combH, aspA]
    · refine ⟨.update q, ?_, rfl⟩
      rw [mem_iff_lookup (ksorted_aspaConstruct ho hn), lookup_aspaConstruct ho hn, ho', h1]
      have : q ≠ p := by intro h; subst h; exact h2 ho'
      simp [combH, aspU, this]

/-- An ASPA is withdrawn ⇔ the customer is in the old set and not in the new one; the
withdrawn item carries an empty provider set. -/
theorem C11_aspa_withdraw_iff {old new : AspaSet} (ho : KSorted old) (hn : KSorted new)
    (c : Nat) (p : List Nat) :
    (∃ a, (c, (p, a)) ∈ aspaConstruct old new ∧ a.toAction = Action.withdraw)
      ↔ p = [] ∧ (old.lookup c).isSome ∧ new.lookup c = none := by
  constructor
  · rintro ⟨a, hm, ha⟩
    rw [mem_iff_lookup (ksorted_aspaConstruct ho hn), lookup_aspaConstruct ho hn] at hm
    rcases ho' : old.lookup c with _ | q <;> rcases hn' : new.lookup c with _ | r <;>
      simp [ho', hn', combH, aspW, aspA, aspU] at hm
    all_goals (cases a <;> simp_all [AspaAction.toAction])
  · rintro ⟨h1, h2, h3⟩
    rcases ho' : old.lookup c with _ | q
    · simp [ho'] at h2
    · refine ⟨.withdraw q, ?_, rfl⟩
      rw [mem_iff_lookup (ksorted_aspaConstruct ho hn), lookup_aspaConstruct ho hn, ho', h3, h1]
      simp [combH, aspW]

theorem C11_aspa_apply {old new : AspaSet} (ho : KSorted old) (hn : KSorted new) :
    aspaApply old (aspaConstruct old new) = new := by
  unfold aspaApply
  apply ksorted_ext _ _ (ksorted_mergeH _ _ _ _ _ ho (ksorted_aspaConstruct ho hn)) hn
  intro k
  rw [lookup_mergeH _ _ _ _ _ ho (ksorted_aspaConstruct ho hn),
      lookup_aspaConstruct ho hn, aspa_comb_apply]

theorem C11_aspa_empty_iff {old new : AspaSet} (ho : KSorted old) (hn : KSorted new) :
    aspaConstruct old new = [] ↔ old = new := by
  constructor
  · intro h
    have := C11_aspa_apply ho hn
    rw [h] at this
    rw [← this]
    unfold aspaApply
    symm
    apply ksorted_ext _ _ (ksorted_mergeH _ _ _ _ _ ho (by simp [KSorted])) ho
    intro k
    rw [lookup_mergeH _ _ _ _ _ ho (by simp [KSorted])]
    cases old.lookup k <;> simp [List.lookup, combH]
  · intro h
    subst h
    apply eq_nil_of_lookup_none
    intro k
    rw [lookup_aspaConstruct ho ho]
    cases old.lookup k <;> simp [combH, aspU]

/-! ### The three payload types together (`PayloadDelta::construct`) -/

/-- A well-formed snapshot: what `PayloadSnapshot` guarantees for served data. -/
structure Snapshot.WF (s : Snapshot) : Prop where
  origins : Sorted s.origins
  routerKeys : Sorted s.routerKeys
  aspas : KSorted s.aspas

/-- `construct` returns `None` exactly when the two snapshots are equal. -/
theorem C11_construct_none_iff {old new : Snapshot} (ho : old.WF) (hn : new.WF) (serial : Nat) :
    PayloadDelta.construct old new serial = none ↔ old = new := by
  unfold PayloadDelta.construct PayloadDelta.isEmpty
  simp only [List.isEmpty_iff, Bool.and_eq_true]
  constructor
  · intro h
    split at h
    · rename_i hh
      obtain ⟨⟨h1, h2⟩, h3⟩ := hh
      have e1 := (C11_std_empty_iff ho.origins hn.origins).1 h1
      have e2 := (C11_std_empty_iff ho.routerKeys hn.routerKeys).1 h2
      have e3 := (C11_aspa_empty_iff ho.aspas hn.aspas).1 h3
      cases old; cases new; simp_all
    · simp at h
  · intro h
    subst h
    rw [(C11_std_empty_iff ho.origins ho.origins).2 rfl,
        (C11_std_empty_iff ho.routerKeys ho.routerKeys).2 rfl,
        (C11_aspa_empty_iff ho.aspas ho.aspas).2 rfl]
    simp

/-- A constructed delta turns the old snapshot into the new one and is tagged with the
old serial plus one (mod 2^32). -/
theorem C11_construct_apply {old new : Snapshot} (ho : old.WF) (hn : new.WF) (serial : Nat)
    (d : PayloadDelta) (h : PayloadDelta.construct old new serial = some d) :
    d.apply old = new ∧ d.serial = serialAdd serial 1 := by
  unfold PayloadDelta.construct at h
  dsimp only at h
  split at h
  · simp at h
  · simp at h
    subst h
    unfold PayloadDelta.apply
    simp only [C11_std_apply ho.origins hn.origins, C11_std_apply ho.routerKeys hn.routerKeys,
      C11_aspa_apply ho.aspas hn.aspas, and_true]

/-- The announce / withdraw counts of a payload delta are the numbers of listed actions. -/
theorem C11_payload_counts (d : PayloadDelta) :
    d.announceLen = (d.origins.filter (fun x => x.2.isAnn)).length
      + (d.routerKeys.filter (fun x => x.2.isAnn)).length
      + (d.aspas.filter (fun x => aspaIsAnn x.2)).length ∧
    d.withdrawLen = (d.origins.filter (fun x => !x.2.isAnn)).length
      + (d.routerKeys.filter (fun x => !x.2.isAnn)).length
      + (d.aspas.filter (fun x => !aspaIsAnn x.2)).length := by
  unfold PayloadDelta.announceLen PayloadDelta.withdrawLen
  simp only [(C11_counts Action.isAnn d.origins).2.1, (C11_counts Action.isAnn d.routerKeys).2.1,
    (C11_counts aspaIsAnn d.aspas).2.1, (C11_counts Action.isAnn d.origins).2.2,
    (C11_counts Action.isAnn d.routerKeys).2.2, (C11_counts aspaIsAnn d.aspas).2.2, and_self]

/-! Non-vacuity: concrete sorted data sets with a non-trivial delta. -/
example : Sorted [1, 3, 5] ∧ Sorted [1, 4, 5, 9] ∧
    stdConstruct [1, 3, 5] [1, 4, 5, 9]
      = [(3, Action.withdraw), (4, Action.announce), (9, Action.announce)] := by
  refine ⟨by simp [Sorted], by simp [Sorted], by simp [stdConstruct, keyed, mergeH, consOpt]⟩

example : KSorted ([(1, [7]), (2, [8])] : AspaSet) ∧ KSorted ([(1, [7, 9]), (3, [])] : AspaSet) ∧
    aspaConstruct [(1, [7]), (2, [8])] [(1, [7, 9]), (3, [])]
      = [(1, ([7, 9], .update [7])), (2, ([], .withdraw [8])), (3, ([], .announce))] := by
  refine ⟨by simp [KSorted], by simp [KSorted], by simp [aspaConstruct, mergeH, consOpt]⟩

end RoutinatorModel
