import RoutinatorModel.Proofs.Dubious
/-!
# C31 — no fetches to dubious hosts unless allowed

Model: `Model/Dubious.lean`. `hasDubiousAuthority` is `UriExt::has_dubious_authority` (repaired:
`localhost` is compared ignoring ASCII case); `loadModule` / `loadRepository` are
`rsync::Run::load_module` / `rrdp::Run::load_repository` reduced to what matters here: which
fetches they start, in which state.

Specification-level notions: `IsLocalhost` (the name `localhost` in any letter case), a colon in
the authority (every explicit port `host:port` and every IPv6 literal has one), `IsIpv4Literal`
(four decimal octets ≤ 255 without leading zeros, i.e. RFC 3986 `IPv4address`, which is what
`Ipv4Addr::from_str` accepts).
-/
namespace RoutinatorModel
open Paths Dubious

/-- The name `localhost` in any ASCII letter case. -/
def IsLocalhost (a : Str) : Prop := canon a = sLocalhost

/-- `host:port` with a non-empty host part or not: anything of the form `h ++ ":" ++ p`. -/
def HasPort (a : Str) : Prop := ∃ h p, a = h ++ 58 :: p

/-- The classification is exactly: `localhost` (any case), or a colon, or a dotted-quad literal. -/
theorem C31_dubious_iff (a : Str) :
    hasDubiousAuthority a = true ↔ IsLocalhost a ∨ 58 ∈ a ∨ IsIpv4Literal a := by
  unfold hasDubiousAuthority IsLocalhost
  rw [Bool.or_eq_true, Bool.or_eq_true, beq_iff_eq, contains_iff, isIpv4_iff, or_assoc]

/-- Every authority with an explicit port is dubious. -/
theorem C31_port_dubious (a : Str) (h : HasPort a) : hasDubiousAuthority a = true := by
  obtain ⟨h', p, rfl⟩ := h
  exact (C31_dubious_iff _).mpr (Or.inr (Or.inl (by simp)))

/-- Every letter-case variant of `localhost` is dubious. -/
theorem C31_localhost_dubious (a : Str) (h : IsLocalhost a) : hasDubiousAuthority a = true :=
  (C31_dubious_iff _).mpr (Or.inl h)

/-- Every dotted-quad IPv4 literal is dubious. -/
theorem C31_ipv4_dubious (o1 o2 o3 o4 : Nat) (h1 : o1 < 256) (h2 : o2 < 256) (h3 : o3 < 256)
    (h4 : o4 < 256) :
    hasDubiousAuthority (dec3 o1 ++ 46 :: (dec3 o2 ++ 46 :: (dec3 o3 ++ 46 :: dec3 o4))) = true :=
  (C31_dubious_iff _).mpr (Or.inr (Or.inr ⟨o1, o2, o3, o4, h1, h2, h3, h4, rfl⟩))

/-- The classification does not depend on letter case (so it applies equally to the lower-cased
authority that is handed to rsync). -/
theorem C31_case_insensitive (a : Str) : hasDubiousAuthority (canon a) = hasDubiousAuthority a :=
  hasDubious_canon a

/-- The rsync gate precedes the fetch: with filtering on, `load_module` starts no fetch for a
dubious authority, in any run state. -/
theorem C31_gate_rsync (hasCommand : Bool) (r : Run) (auth module : Str) :
    ∀ f ∈ (loadModule true hasCommand r auth module).1, hasDubiousAuthority f.auth = false := by
  intro f hf
  unfold loadModule at hf
  by_cases hc : hasCommand = true
  · by_cases hk : (canon auth, module) ∈ r.modules
    · simp [hc, hk] at hf
    · by_cases hd : hasDubiousAuthority auth = true
      · simp [hc, hk, hd] at hf
      · simp only [Bool.not_eq_true] at hd
        simp [hc, hk, hd] at hf
        subst hf
        simp only [Fetch.auth]
        rw [hasDubious_canon]
        exact hd
  · simp [hc] at hf

/-- The RRDP gate precedes the update: with filtering on, `load_repository` starts no update for a
dubious authority, and reports the repository as unavailable. -/
theorem C31_gate_rrdp (net : Str × Str → Load) (r : Run) (auth path : Str) :
    (∀ f ∈ (loadRepository true net r auth path).1, hasDubiousAuthority f.auth = false) ∧
    (hasDubiousAuthority auth = true → lookupRepo r.repos (canon auth, path) = none →
      (loadRepository true net r auth path).2.1 = Load.unavailable) := by
  constructor
  · intro f hf
    unfold loadRepository at hf
    simp only at hf
    split at hf
    · simp at hf
    · simp only [Bool.true_and] at hf
      split at hf
      · simp at hf
      · rename_i hd
        simp only [List.mem_singleton] at hf
        subst hf
        simpa [Fetch.auth] using hd
  · intro hd hl
    unfold loadRepository
    simp [hl, hd]

/-- Over a whole run — any sequence of module and repository requests, from any state — no fetch
is started for a dubious authority while filtering is on. -/
theorem C31_no_dubious_fetch (hasCommand : Bool) (net : Str × Str → Load) (r : Run)
    (reqs : List Req) :
    ∀ f ∈ runReqs true hasCommand net r reqs, hasDubiousAuthority f.auth = false := by
  induction reqs generalizing r with
  | nil => simp [runReqs]
  | cons q qs ih =>
    intro f hf
    simp only [runReqs, List.mem_append] at hf
    rcases hf with hf | hf
    · cases q with
      | module a m => exact C31_gate_rsync hasCommand r a m f hf
      | repository a p => exact (C31_gate_rrdp net r a p).1 f hf
    · exact ih _ f hf

/-- Non-vacuity of the gates: a first request for a harmless host, or for any host with filtering
off, does start a fetch. -/
theorem C31_fetch_happens (filter : Bool) (net : Str × Str → Load) (auth x : Str)
    (h : filter = false ∨ hasDubiousAuthority auth = false) :
    (loadModule filter true Run.empty auth x).1 = [Fetch.rsync (canon auth) x] ∧
    (loadRepository filter net Run.empty auth x).1 = [Fetch.rrdp auth x] := by
  constructor
  · unfold loadModule
    rcases h with h | h <;> simp [Run.empty, h]
  · unfold loadRepository
    rcases h with h | h <;> simp [Run.empty, lookupRepo, h]

/-! ## Non-vacuity and the negation witness for the repaired defect -/

/-- `LOCALHOST` -/
private def upperLocalhost : Str := [76,79,67,65,76,72,79,83,84]

example : IsLocalhost upperLocalhost := by unfold IsLocalhost; decide
/-- The unrepaired comparison let it through … -/
example : hasDubiousAuthorityOld upperLocalhost = false := by decide
/-- … the repaired one does not. -/
example : hasDubiousAuthority upperLocalhost = true := by decide
/-- `192.0.2.1` is a literal, `192.0.2.01`, `192.0.2` and `192.0.2.256` are not (Rust's parser). -/
example : hasDubiousAuthority [49,57,50,46,48,46,50,46,49] = true := by decide
example : hasDubiousAuthority [49,57,50,46,48,46,50,46,48,49] = false := by decide
example : hasDubiousAuthority [49,57,50,46,48,46,50] = false := by decide
example : hasDubiousAuthority [49,57,50,46,48,46,50,46,50,53,54] = false := by decide
/-- With filtering on, a run over `LOCALHOST` and `h:873` fetches nothing; with it off, both. -/
example : runReqs true true (fun _ => .unavailable) Run.empty
    [.module upperLocalhost [109], .repository [104,58,56,55,51] [47,110]] = [] := by decide
example : (runReqs false true (fun _ => .unavailable) Run.empty
    [.module upperLocalhost [109], .repository [104,58,56,55,51] [47,110]]).length = 2 := by decide

end RoutinatorModel
