import RoutinatorModel.Proofs.Engine
/-!
# C07 — Validation terminates on deep or cyclic CA hierarchies

`processCa` (`process_ca_task`) is defined by structural recursion on a fuel argument, so Lean's
termination checker has accepted it for every universe — including cyclic ones; that is the
termination half of the property. The theorems below show that the fuel is not what stops the
walk, and what is pruned:

* `C07_kids_invariant`: every child task created by a publication point sits one level deeper,
  within `max_ca_depth`, with a key not yet on its issuer's chain.
* `C07_fuel_sufficient`: with `fuel ≥ max_ca_depth + 1 - chain_len` the result does not depend
  on the fuel: the out-of-fuel branch is never taken (`processTal` starts with
  `max_ca_depth + 1`), so the model is the walk the Rust code performs, which therefore ends.
* `C07_depth_pruned`, `C07_loop_pruned`: a CA certificate beyond the depth limit, or for a key
  already on the chain (the issuer's own key, or any ancestor's), contributes nothing — no
  payload, no child task — exactly like an undecodable file, while (by `processObject_eq`)
  every other object of the publication point contributes what it would contribute anyway.
* `C07_chain_wf`: chains consist of distinct keys and have length `chain_len + 1`, so the
  depth is also bounded by the number of distinct keys.
-/
namespace RoutinatorModel
open Engine

/-- What holds of every child task of `ca`. -/
def Engine.KidOf (cfg : Cfg) (ca k : CaCtx) : Prop :=
  k.chainLen = ca.chainLen + 1 ∧ k.chainLen ≤ cfg.maxDepth
    ∧ k.chain = k.info.key :: ca.chain ∧ k.info.key ∉ ca.chain

theorem Engine.objKids_kidOf (cfg : Cfg) (now : Int) (ca : CaCtx) (vm : ValidMft) (ext : Ext)
    (content : Content) : ∀ k ∈ objKids cfg now ca vm ext content, KidOf cfg ca k := by
  intro k hk
  unfold objKids processObject at hk
  cases ext <;> cases content <;> simp at hk
  case cer.ca c info =>
    split at hk
    · simp at hk
    · rename_i hloop
      split at hk
      · simp at hk
      · split at hk
        · simp at hk
        · split at hk
          · simp at hk
          · rename_i hdepth
            simp only [List.nil_append, List.mem_singleton] at hk
            subst hk
            refine ⟨rfl, ?_, rfl, ?_⟩
            · simp only [CaCtx.child]; omega
            · simpa [CaCtx.child] using hloop
  case cer.router c items => split at hk <;> simp at hk
  all_goals (try (split at hk <;> simp at hk))

theorem Engine.runEntries_kids (cfg : Cfg) (now : Int) (ca : CaCtx) (vm : ValidMft)
    (files : List (Name × File)) (l : List Entry) (acc : List Item) (kids : List CaCtx)
    (objs : List StoredObj) {acc' : List Item} {kids' : List CaCtx} {objs' : List StoredObj}
    (h : runEntries cfg now ca vm files l acc kids objs = .complete acc' kids' objs') :
    ∀ k ∈ kids', k ∈ kids ∨ KidOf cfg ca k := by
  induction l generalizing acc kids objs with
  | nil =>
    simp only [runEntries, Walk.complete.injEq] at h
    obtain ⟨_, rfl, _⟩ := h
    exact fun k hk => Or.inl hk
  | cons e rest ih =>
    unfold runEntries at h
    split at h
    · cases h
    · split at h
      · cases h
      · rename_i file _
        split at h
        · cases h
        · rw [processObject_eq] at h
          intro k hk
          rcases ih _ _ _ h k hk with hmem | hkid
          · rcases List.mem_append.mp hmem with h1 | h2
            · exact Or.inl h1
            · exact Or.inr (objKids_kidOf _ _ _ _ _ _ k h2)
          · exact Or.inr hkid

/-- **C07, invariant of child tasks.** -/
theorem C07_kids_invariant (fix : Bool) (cfg : Cfg) (now : Int) (coll : Option Offer)
    (st : Option Stored) (ca : CaCtx) (reorder : List Entry → List Entry) :
    ∀ k ∈ (processPointWith fix cfg now coll st ca reorder).kids, KidOf cfg ca k := by
  have stored_case : ∀ (st' : Option Stored) (acc : List Item),
      ∀ k ∈ (processStored cfg now ca st' acc).kids, KidOf cfg ca k := by
    intro st' acc k hk
    unfold processStored at hk
    cases st' with
    | none => simp at hk
    | some s =>
      cases hv : validateStored cfg now s with
      | none => simp [hv] at hk
      | some vm =>
        simp only [hv, runStoredObjects_eq, List.nil_append, List.mem_flatMap] at hk
        obtain ⟨o, _, ho⟩ := hk
        exact objKids_kidOf _ _ _ _ _ _ k ho
  unfold processPointWith
  cases coll with
  | none => exact stored_case _ _
  | some offer =>
    simp only
    cases hc : processCollectedWith cfg now ca (offer.get ca.info.mft) st reorder with
    | fallback acc st' => exact stored_case _ _
    | done r =>
      simp only
      unfold processCollectedWith at hc
      split at hc
      · cases hc
      · split at hc
        · cases hc
        · split at hc
          · cases hc
          · split at hc
            · cases hc
            · split at hc
              · rename_i acc kids objs hrun
                cases hc
                intro k hk
                rcases runEntries_kids _ _ _ _ _ _ _ _ _ hrun k hk with h | h
                · simp at h
                · exact h
              · cases hc

theorem Engine.foldl_congr_mem {α β : Type} (f g : β → α → β) (l : List α) (init : β)
    (h : ∀ x ∈ l, ∀ b, f b x = g b x) : l.foldl f init = l.foldl g init := by
  induction l generalizing init with
  | nil => rfl
  | cons x rest ih =>
    simp only [List.foldl_cons]
    rw [h x (by simp), ih]
    intro y hy b
    exact h y (by simp [hy]) b

/-- **C07, termination is not an artefact of the fuel.** Any fuel of at least
`max_ca_depth + 1 - chain_len` gives the same result. -/
theorem C07_fuel_sufficient (fix : Bool) (cfg : Cfg) (now : Int) (coll : Option Offer) :
    ∀ (n : Nat) (store : Store) (ca : CaCtx), ca.chainLen ≤ cfg.maxDepth →
      cfg.maxDepth + 1 - ca.chainLen ≤ n →
      processCa fix cfg now coll n store ca
        = processCa fix cfg now coll (cfg.maxDepth + 1 - ca.chainLen) store ca := by
  intro n
  induction n with
  | zero => intro store ca h1 h2; omega
  | succ n ih =>
    intro store ca h1 h2
    obtain ⟨m, hm⟩ : ∃ m, cfg.maxDepth + 1 - ca.chainLen = m + 1 := ⟨cfg.maxDepth - ca.chainLen, by omega⟩
    rw [hm]
    simp only [processCa]
    apply foldl_congr_mem
    intro kid hkid acc
    have hk := C07_kids_invariant fix cfg now coll (store.point ca.info.mft) ca _ kid
      (by simpa [processPoint] using hkid)
    obtain ⟨hlen, hdepth, _, _⟩ := hk
    have hneed : cfg.maxDepth + 1 - kid.chainLen = m := by omega
    rw [ih acc.2 kid hdepth (by omega), hneed]

/-- The fuel `processTal` starts a trust anchor with is sufficient, and so is any larger. -/
theorem C07_root_fuel (fix : Bool) (cfg : Cfg) (now : Int) (coll : Option Offer) (store : Store)
    (info : CaInfo) (extra : Nat) :
    processCa fix cfg now coll (cfg.maxDepth + 1 + extra) store (CaCtx.root info)
      = processCa fix cfg now coll (cfg.maxDepth + 1) store (CaCtx.root info) := by
  have h := C07_fuel_sufficient fix cfg now coll (cfg.maxDepth + 1 + extra) store (CaCtx.root info)
    (by simp [CaCtx.root]) (by simp [CaCtx.root])
  simpa [CaCtx.root] using h

/-- **C07, depth.** A CA certificate that would be deeper than `max_ca_depth` contributes
nothing, whatever else is true of it. -/
theorem C07_depth_pruned (cfg : Cfg) (now : Int) (ca : CaCtx) (vm : ValidMft) (c : CertAttr)
    (info : CaInfo) (acc : List Item) (kids : List CaCtx)
    (h : ca.chainLen + 1 > cfg.maxDepth) :
    processObject cfg now ca vm .cer (.ca c info) acc kids = (acc, kids) := by
  unfold processObject
  simp only [h, ↓reduceIte]
  repeat' split
  all_goals rfl

/-- **C07, loops.** A CA certificate for a key already on the chain — the issuing CA's own
key or any ancestor's — contributes nothing. -/
theorem C07_loop_pruned (cfg : Cfg) (now : Int) (ca : CaCtx) (vm : ValidMft) (c : CertAttr)
    (info : CaInfo) (acc : List Item) (kids : List CaCtx)
    (h : info.key ∈ ca.chain) :
    processObject cfg now ca vm .cer (.ca c info) acc kids = (acc, kids) := by
  unfold processObject
  simp only [List.contains_iff_mem, h, ↓reduceIte]

/-- A pruned certificate behaves exactly like an undecodable file. -/
theorem C07_pruned_like_junk (cfg : Cfg) (now : Int) (ca : CaCtx) (vm : ValidMft) (c : CertAttr)
    (info : CaInfo) (acc : List Item) (kids : List CaCtx)
    (h : ca.chainLen + 1 > cfg.maxDepth ∨ info.key ∈ ca.chain) :
    processObject cfg now ca vm .cer (.ca c info) acc kids
      = processObject cfg now ca vm .cer .junk acc kids := by
  have hj : processObject cfg now ca vm .cer .junk acc kids = (acc, kids) := by
    simp [processObject]
  rcases h with h | h
  · rw [C07_depth_pruned _ _ _ _ _ _ _ _ h, hj]
  · rw [C07_loop_pruned _ _ _ _ _ _ _ _ h, hj]

/-- Well-formed chains: distinct keys, own key first, length `chain_len + 1`. -/
def Engine.CaCtx.WF (ca : CaCtx) : Prop :=
  ca.chain.Nodup ∧ ca.chain.length = ca.chainLen + 1 ∧ ca.chain.head? = some ca.info.key

theorem C07_chain_wf (cfg : Cfg) (ca k : CaCtx) (hca : ca.WF) (hk : KidOf cfg ca k) : k.WF := by
  obtain ⟨hlen, _, hchain, hnot⟩ := hk
  obtain ⟨hnd, hl, _⟩ := hca
  refine ⟨?_, ?_, ?_⟩
  · rw [hchain]; exact List.nodup_cons.mpr ⟨hnot, hnd⟩
  · rw [hchain]; simp [hl, hlen]
  · rw [hchain]; rfl

theorem C07_root_wf (info : CaInfo) : (CaCtx.root info).WF := by
  simp [CaCtx.WF, CaCtx.root]

/-! ## Non-vacuity: a cyclic universe -/

namespace C07Example
def cfg (depth : Nat) : Cfg := ⟨.reject, depth, false, false⟩
def ee (serial : Nat) : CertAttr := ⟨true, serial, 0, 1000, some 7⟩
def crlFile : File := ⟨50, .crl true 1000 []⟩
/-- The trust anchor (key 0, manifest URI 8) publishes a ROA, a certificate for a child
(key 1, manifest URI 18) and a certificate for its own key pointing back at itself. -/
def rootPoint : Fetched :=
  ⟨some ⟨1, some ⟨ee 1, some 0, 1, 10, 1000,
      [⟨0, .crl, 50, true⟩, ⟨1, .roa, 51, true⟩, ⟨2, .cer, 52, true⟩, ⟨3, .cer, 53, true⟩]⟩⟩,
   [(0, crlFile), (1, ⟨51, .roa (ee 10) [100]⟩), (2, ⟨52, .ca (ee 11) ⟨1, 19, 18⟩⟩),
    (3, ⟨53, .ca (ee 12) ⟨0, 9, 8⟩⟩)], []⟩
/-- The child publishes a ROA and a certificate for the trust anchor's key (a loop through
the parent) pointing at the trust anchor's publication point. -/
def kidPoint : Fetched :=
  ⟨some ⟨2, some ⟨⟨true, 2, 0, 1000, some 17⟩, some 0, 1, 10, 1000,
      [⟨0, .crl, 60, true⟩, ⟨1, .roa, 61, true⟩, ⟨2, .cer, 62, true⟩]⟩⟩,
   [(0, ⟨60, .crl true 1000 []⟩), (1, ⟨61, .roa ⟨true, 20, 0, 1000, some 17⟩ [200]⟩),
    (2, ⟨62, .ca ⟨true, 21, 0, 1000, some 17⟩ ⟨0, 9, 8⟩⟩)], []⟩
def offer : Offer := [(8, rootPoint), (18, kidPoint)]
end C07Example

open C07Example in
/-- Both loops are cut; with depth limit 0 the child is cut as well. -/
example :
    (processCa true (cfg 32) 100 (some offer) 33 ⟨[], []⟩ (CaCtx.root ⟨0, 9, 8⟩)).1 = [100, 200]
    ∧ (processCa true (cfg 1) 100 (some offer) 2 ⟨[], []⟩ (CaCtx.root ⟨0, 9, 8⟩)).1 = [100, 200]
    ∧ (processCa true (cfg 0) 100 (some offer) 1 ⟨[], []⟩ (CaCtx.root ⟨0, 9, 8⟩)).1 = [100] := by
  decide

end RoutinatorModel
