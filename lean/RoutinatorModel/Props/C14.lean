import RoutinatorModel.Proofs.History
/-!
# C14 — Serials advance once per change and retained history is bounded

Model: `History.update` / `History.pushDelta` of `Model/History.lean`, as repaired by
`fixes/C14-history-size-zero-unbounded.patch` (`len >= max(keep, 1)` instead of `len == keep`).
Statements are for every sequence of updates and **every** history size (`keep : Nat`
arbitrary — 0, 1, and also values no configuration can reach).
-/
namespace RoutinatorModel

/-- The first data set has serial 0 and is reported as a new version. -/
theorem C14_first_serial_zero (keep session : Nat) (s : Snapshot) :
    ((History.init keep session).update s).1.serial = 0 ∧
    ((History.init keep session).update s).2 = true ∧
    ((History.init keep session).update s).1.current = some s ∧
    ((History.init keep session).update s).1.log = [(s, 0)] := by
  simp [History.init, History.update, History.serial]

/-- While no data set is installed an update never moves the serial (it is the first one). -/
theorem C14_first_keeps_serial (h : History) (s : Snapshot) (hc : h.current = none) :
    (h.update s).1.serial = h.serial ∧ (h.update s).2 = true := by
  unfold History.update; rw [hc]; simp [History.serial]

/-- **Serial step.** A validation run that changes the data set increases the serial by
exactly one (modulo 2^32) and reports a new version; a run that leaves it unchanged keeps
the serial and reports nothing. -/
theorem C14_serial_step (h : History) (cur s : Snapshot) (hc : h.current = some cur)
    (hcw : cur.WF) (hs : s.WF) :
    (h.update s).1.serial = (if cur = s then h.serial else serialAdd h.serial 1) ∧
    (h.update s).2 = (if cur = s then false else true) ∧
    (h.update s).1.current = some s := by
  unfold History.update
  rw [hc]
  simp only
  cases hcon : PayloadDelta.construct cur s h.serial with
  | none =>
    have e : cur = s := (C11_construct_none_iff hcw hs h.serial).1 hcon
    simp [e, History.serial]
  | some d =>
    have ne : cur ≠ s := fun e => by
      rw [(C11_construct_none_iff hcw hs h.serial).2 e] at hcon; simp at hcon
    have hd := construct_eq_between hcon
    rw [if_neg ne, if_neg ne]
    refine ⟨?_, rfl, rfl⟩
    simp [History.serial, History.pushDelta, hd, PayloadDelta.between]

/-- Pushing a delta never exceeds the bound `max keep 1`. -/
theorem C14_push_bounded (h : History) (d : PayloadDelta) (hb : h.deltas.length ≤ max h.keep 1) :
    (h.pushDelta d).deltas.length ≤ max (h.pushDelta d).keep 1 := by
  unfold History.pushDelta
  simp only
  split
  · simp; omega
  · simp; omega

/-- The exact number of retained deltas after a push: one more, capped at `max keep 1`. -/
theorem C14_push_count (h : History) (d : PayloadDelta) (hb : h.deltas.length ≤ max h.keep 1) :
    (h.pushDelta d).deltas.length = min (h.deltas.length + 1) (max h.keep 1) := by
  unfold History.pushDelta
  simp only
  split
  · simp; omega
  · simp; omega

theorem step_bounded (h : History) (op : HistOp) (hb : h.deltas.length ≤ max h.keep 1) :
    (h.step op).deltas.length ≤ max (h.step op).keep 1 ∧ (h.step op).keep = h.keep := by
  cases op with
  | update s =>
    unfold History.step History.update
    cases h.current with
    | none => exact ⟨hb, rfl⟩
    | some cur =>
      simp only
      cases PayloadDelta.construct cur s h.serial with
      | none => exact ⟨hb, rfl⟩
      | some d => exact ⟨C14_push_bounded h d hb, rfl⟩
  | seed x =>
    unfold History.step History.seed
    cases h.current with
    | none => exact ⟨hb, rfl⟩
    | some cur =>
      simp only
      refine ⟨?_, rfl⟩
      show (({ h with deltas := [] } : History).pushDelta (PayloadDelta.empty x)).deltas.length ≤ _
      exact C14_push_bounded _ _ (by simp)

/-- **Bounded history.** After any sequence of validation results (changing or not, with
or without restarts of the numbering), for every history size, at most `max keep 1` change
sets are retained. -/
theorem C14_bounded (keep session : Nat) (ops : List HistOp) :
    ((History.init keep session).run ops).deltas.length ≤ max keep 1 := by
  have gen : ∀ (ops : List HistOp) (h : History), h.deltas.length ≤ max h.keep 1 →
      (h.run ops).deltas.length ≤ max (h.run ops).keep 1 ∧ (h.run ops).keep = h.keep := by
    intro ops
    induction ops with
    | nil => intro h hb; exact ⟨hb, rfl⟩
    | cons op ops ih =>
      intro h hb
      have h1 := step_bounded h op hb
      have h2 := ih (h.step op) h1.1
      exact ⟨h2.1, h2.2.trans h1.2⟩
  have := gen ops (History.init keep session) (by simp [History.init])
  rw [this.2] at this
  exact this.1

/-- The number of retained change sets after a changing run: `min (n + 1) (max keep 1)` —
so after at least `max keep 1` changes exactly the last `max keep 1` serials are retained
(the window of `C13_window`). -/
theorem C14_retained_count (h : History) (cur s : Snapshot) (hc : h.current = some cur)
    (hcw : cur.WF) (hs : s.WF) (hb : h.deltas.length ≤ max h.keep 1) :
    (h.update s).1.deltas.length =
      (if cur = s then h.deltas.length else min (h.deltas.length + 1) (max h.keep 1)) := by
  unfold History.update
  rw [hc]
  simp only
  cases hcon : PayloadDelta.construct cur s h.serial with
  | none =>
    have e : cur = s := (C11_construct_none_iff hcw hs h.serial).1 hcon
    simp [e]
  | some d =>
    have ne : cur ≠ s := fun e => by
      rw [(C11_construct_none_iff hcw hs h.serial).2 e] at hcon; simp at hcon
    simp only [ne, if_false]
    exact C14_push_count h d hb

/-! ### Negation witness: the unrepaired `push_delta` with history size 0 -/

/-- On the pinned tree (`len == keep`) a history size of 0 never evicts once a delta is
there: every push grows the queue. -/
theorem C14_unrepaired_grows (h : History) (d : PayloadDelta) (hk : h.keep = 0)
    (hne : h.deltas ≠ []) :
    (h.pushDeltaOrig d).deltas.length = h.deltas.length + 1 := by
  unfold History.pushDeltaOrig
  have : h.deltas.length ≠ h.keep := by
    rw [hk]; intro e; exact hne (List.eq_nil_of_length_eq_zero e)
  simp [this]

/-- …so with history size 0 the unrepaired queue holds as many deltas as were ever pushed:
unbounded, violating `C14_bounded`. -/
theorem C14_unrepaired_unbounded (session : Nat) (ds : List PayloadDelta) :
    (ds.foldl History.pushDeltaOrig (History.init 0 session)).deltas.length = ds.length := by
  have gen : ∀ (ds : List PayloadDelta) (h : History), h.keep = 0 →
      (h.deltas = [] → ds = [] ∨ True) →
      (ds.foldl History.pushDeltaOrig h).deltas.length
        = (if h.deltas = [] ∧ ds ≠ [] then ds.length else h.deltas.length + ds.length) := by
    intro ds
    induction ds with
    | nil => intro h _ _; simp
    | cons d ds ih =>
      intro h hk _
      simp only [List.foldl]
      have hk' : (h.pushDeltaOrig d).keep = 0 := by unfold History.pushDeltaOrig; exact hk
      have hne' : (h.pushDeltaOrig d).deltas ≠ [] := by unfold History.pushDeltaOrig; simp
      rw [ih (h.pushDeltaOrig d) hk' (fun e => absurd e hne')]
      simp only [hne', false_and, if_false]
      by_cases he : h.deltas = []
      · simp [he, History.pushDeltaOrig, hk]; omega
      · rw [C14_unrepaired_grows h d hk he]; simp [he]; omega
  have := gen ds (History.init 0 session) rfl (fun _ => Or.inr trivial)
  rw [this]
  simp [History.init]

/-! Non-vacuity: keep = 0, three changing runs — serials 0,1,2,3, one delta retained. -/
example :
    let s : Nat → Snapshot := fun i => ⟨[i], [], []⟩
    let h := (History.init 0 7).run [.update (s 0), .update (s 1), .update (s 1), .update (s 2), .update (s 3)]
    h.serial = 3 ∧ h.deltas.length = 1 ∧ h.log.map Prod.snd = [3, 2, 1, 0] := by
  simp [History.run, History.step, History.init, History.update, History.serial,
    History.pushDelta, PayloadDelta.construct, PayloadDelta.isEmpty, stdConstruct, aspaConstruct,
    keyed, mergeH, consOpt, serialAdd, serialMod]

/-- Number of updates of a sequence that reported a new version, with the resulting history. -/
def History.runCount (h : History) : List Snapshot → History × Nat
  | [] => (h, 0)
  | s :: ss =>
    let r := h.update s
    let rest := r.1.runCount ss
    (rest.1, (if r.2 then 1 else 0) + rest.2)

/-- **The serial counts the changes.** On a history that already has data, after any
sequence of validation runs the serial has advanced (modulo 2^32) by exactly the number of
runs that reported a new version — no change is ever skipped or counted twice. -/
theorem C14_serial_counts (ss : List Snapshot) (h : History) (cur : Snapshot)
    (hc : h.current = some cur) (hcw : cur.WF) (hs : ∀ s ∈ ss, s.WF) :
    (h.runCount ss).1.serial = serialAdd h.serial (h.runCount ss).2 ∨
      ((h.runCount ss).2 = 0 ∧ (h.runCount ss).1.serial = h.serial) := by
  induction ss generalizing h cur with
  | nil => right; simp [History.runCount]
  | cons s ss ih =>
    have hsw : s.WF := hs s (by simp)
    obtain ⟨h1, h2, h3⟩ := C14_serial_step h cur s hc hcw hsw
    have ih' := ih (h.update s).1 s h3 hsw (fun x hx => hs x (by simp [hx]))
    simp only [History.runCount]
    by_cases e : cur = s
    · rw [if_pos e] at h1 h2
      rw [h2]
      simp only [Bool.false_eq_true, if_false, Nat.zero_add]
      rw [h1] at ih'
      exact ih'
    · rw [if_neg e] at h1 h2
      rw [h2]
      left
      simp only [if_true]
      rcases ih' with ih' | ⟨z, ih'⟩
      · rw [ih', h1]; simp only [serialAdd, serialMod]; omega
      · rw [ih', h1, z]


/-- From start-up: the first data set has serial 0 and after any further runs the serial is
the number of runs that reported a new version, modulo 2^32. -/
theorem C14_serial_counts_init (keep session : Nat) (s0 : Snapshot) (ss : List Snapshot)
    (h0 : s0.WF) (hs : ∀ s ∈ ss, s.WF) :
    ((((History.init keep session).update s0).1).runCount ss).1.serial =
      ((((History.init keep session).update s0).1).runCount ss).2 % serialMod := by
  obtain ⟨z, _, hc, _⟩ := C14_first_serial_zero keep session s0
  rcases C14_serial_counts ss _ s0 hc h0 hs with h | ⟨hn, h⟩
  · rw [h, z]; simp [serialAdd]
  · rw [h, z, hn]; simp [serialMod]

/-! Non-vacuity of `C14_serial_counts_init`: five further runs, three of which change the data. -/
example :
    let s : Nat → Snapshot := fun i => ⟨[i], [], []⟩
    let r := (((History.init 2 7).update (s 0)).1).runCount [s 1, s 1, s 2, s 2, s 3]
    r.2 = 3 ∧ r.1.serial = 3 := by
  simp [History.runCount, History.init, History.update, History.serial,
    History.pushDelta, PayloadDelta.construct, PayloadDelta.isEmpty, stdConstruct, aspaConstruct,
    keyed, mergeH, consOpt, serialAdd, serialMod]

end RoutinatorModel
