import RoutinatorModel.Proofs.Retry
/-!
# C32 — Failed runs are retried at most once

For *every* outcome stream `o : Nat → Outcome` (and every behaviour `san` of
`engine.sanitize()`):

* `validate` and `update` perform exactly one run and end with an error unless it succeeded;
* `vrps` (with the repair `fixes/C32-vrps-retry.patch`) performs at most two runs, the second
  only after a retryable failure of the first, terminates (two units of fuel always suffice)
  and ends with an error unless its last run succeeded;
* the server grants at most one retry after its initial run (`can_retry` is never re-armed),
  shuts down at the latest with the second failed run after the initial run or with the first
  fatal failure, never has more than three failed runs, and no persistent failure keeps it
  looping;
* the `vrps` loop of the pinned commit violates the bound: for a persistent retryable error it
  exceeds every number of runs and never terminates (negation witness).

Reading of "the server retries at most once after its initial run": the run that follows the
initial run is the regular first full run — it is started immediately whether the initial
(no-update) run succeeded or failed retryably — and is not counted as a retry; see notes/C32.md.
-/
namespace RoutinatorModel

/-! ## `validate`, `update` -/

/-- One run; success iff that run succeeded, an error status otherwise; never loops. -/
theorem C32_oneshot_single_run (o : Nat → Outcome) :
    (oneShot o).runs = 1 ∧ (oneShot o).exit ≠ .running ∧
      ((oneShot o).exit = .success ↔ o 0 = .ok) ∧
      (o 0 ≠ .ok → (oneShot o).exit = .error) := by
  unfold oneShot
  cases o 0 <;> simp

/-! ## `vrps` (repaired) -/

/-- At most two runs, whatever the outcomes, whatever the fuel. -/
theorem C32_vrps_runs_le_two (o : Nat → Outcome) (san : Nat → Bool) (fuel : Nat) :
    (vrps o san fuel).runs ≤ 2 := by
  unfold vrps
  match fuel with
  | 0 => simp [vrpsLoop]
  | 1 =>
    rw [vrpsLoop]
    cases o 0 <;> simp
    split <;> simp [vrpsLoop]
  | n + 2 =>
    rw [vrpsLoop_fresh]
    cases o 0 <;> simp
    split <;> simp

/-- The loop terminates: two units of fuel are always enough, more fuel changes nothing. -/
theorem C32_vrps_terminates (o : Nat → Outcome) (san : Nat → Bool) (fuel : Nat)
    (h : 2 ≤ fuel) :
    (vrps o san fuel).exit ≠ .running ∧ vrps o san fuel = vrps o san 2 := by
  obtain ⟨n, rfl⟩ : ∃ n, fuel = n + 2 := ⟨fuel - 2, by omega⟩
  unfold vrps
  rw [vrpsLoop_fresh o san n 0, vrpsLoop_fresh o san 0 0]
  refine ⟨?_, rfl⟩
  cases o 0 <;> simp
  split
  · split <;> simp
  · simp

/-- Success iff the last run performed succeeded; in particular an error status whenever
every run failed. -/
theorem C32_vrps_error_unless_run_succeeded (o : Nat → Outcome) (san : Nat → Bool) (fuel : Nat)
    (h : 2 ≤ fuel) :
    ((vrps o san fuel).exit = .success ↔ o ((vrps o san fuel).runs - 1) = .ok) ∧
    ((∀ i, i < (vrps o san fuel).runs → o i ≠ .ok) → (vrps o san fuel).exit = .error) := by
  obtain ⟨n, rfl⟩ : ∃ n, fuel = n + 2 := ⟨fuel - 2, by omega⟩
  unfold vrps
  rw [vrpsLoop_fresh o san n 0]
  cases h0 : o 0
  · simp [h0]
  · by_cases hs : san 0 = true
    · by_cases h1 : o 1 = .ok
      · simp [hs, h1]
        exact ⟨1, by omega, h1⟩
      · simp [hs, h1]
    · simp [hs, h0]
  · simp [h0]

/-- A second run happens only after a retryable failure of the first run (and a successful
`sanitize()`). -/
theorem C32_vrps_second_run_only_after_retry (o : Nat → Outcome) (san : Nat → Bool)
    (fuel : Nat) (h : (vrps o san fuel).runs = 2) : o 0 = .retry ∧ san 0 = true := by
  unfold vrps at h
  match fuel with
  | 0 => simp [vrpsLoop] at h
  | 1 =>
    rw [vrpsLoop] at h
    cases h0 : o 0 <;> simp [h0] at h
    by_cases hs : san 0 = true
    · exact ⟨rfl, hs⟩
    · simp [hs] at h
  | n + 2 =>
    rw [vrpsLoop_fresh] at h
    cases h0 : o 0 <;> simp [h0] at h
    by_cases hs : san 0 = true
    · exact ⟨rfl, hs⟩
    · simp [hs] at h

/-! ## `vrps` on the pinned commit: the negation witness -/

/-- For a persistent retryable error the unrepaired loop uses up any amount of fuel and is
still running. -/
theorem C32_vrps_unrepaired_persistent (fuel : Nat) :
    vrpsOld (fun _ => .retry) (fun _ => true) fuel = ⟨fuel, .running⟩ := by
  unfold vrpsOld
  rw [vrpsLoopOld_persistent]
  simp

/-- No bound on the number of runs holds for the unrepaired loop … -/
theorem C32_vrps_unrepaired_unbounded :
    ¬ ∃ bound, ∀ (o : Nat → Outcome) (san : Nat → Bool) (fuel : Nat),
      (vrpsOld o san fuel).runs ≤ bound := by
  rintro ⟨bound, h⟩
  have := h (fun _ => .retry) (fun _ => true) (bound + 1)
  rw [C32_vrps_unrepaired_persistent] at this
  simp only at this
  omega

/-- … and it does not terminate: there is an outcome stream for which no amount of fuel
suffices. -/
theorem C32_vrps_unrepaired_diverges :
    ∃ (o : Nat → Outcome) (san : Nat → Bool), ∀ fuel, (vrpsOld o san fuel).exit = .running :=
  ⟨fun _ => .retry, fun _ => true, fun fuel => by rw [C32_vrps_unrepaired_persistent]⟩

/-- The two loops agree as long as at most one run fails retryably: the repair changes
nothing else. -/
theorem C32_vrps_repair_conservative (o : Nat → Outcome) (san : Nat → Bool) (fuel : Nat)
    (h : o 0 ≠ .retry ∨ o 1 ≠ .retry) (hf : 2 ≤ fuel) :
    vrps o san fuel = vrpsOld o san fuel := by
  obtain ⟨n, rfl⟩ : ∃ n, fuel = n + 2 := ⟨fuel - 2, by omega⟩
  unfold vrps vrpsOld
  rw [vrpsLoop_fresh, vrpsLoopOld]
  cases h0 : o 0 <;> simp [h0] at h ⊢
  by_cases hs : san 0 = true
  · simp only [hs, if_true]
    rw [vrpsLoopOld]
    cases h1 : o 1 <;> simp [h1] at h ⊢
  · simp [hs]

/-! ## `server` -/

/-- `can_retry` is never re-armed and `initial` is cleared by the first run. -/
theorem C32_server_can_retry_never_rearms {s s' : SrvState} {oc : Outcome} {b r : Bool}
    (h : srvStep s oc b = .next s' r) :
    s'.initial = false ∧ (s'.canRetry = true → s.canRetry = true) :=
  ⟨srvStep_next_initial h, srvStep_next_canRetry h⟩

/-- What counts as a retry: a re-run after a failed *non-initial* run; it needs `can_retry`
and clears it. -/
theorem C32_server_retry_consumes {s s' : SrvState} {oc : Outcome} {b : Bool}
    (h : srvStep s oc b = .next s' true) :
    s.canRetry = true ∧ s'.canRetry = false ∧ s.initial = false ∧ oc = .retry :=
  srvStep_retry_consumes h

/-- Every failed non-initial run that is followed by another run is such a retry. -/
theorem C32_server_rerun_after_failure_is_retry {s s' : SrvState} {oc : Outcome} {b r : Bool}
    (hs : s.initial = false) (hoc : oc ≠ .ok) (h : srvStep s oc b = .next s' r) :
    r = true ∧ oc = .retry := by
  unfold srvStep at h
  cases oc <;> simp [hs] at h hoc ⊢
  split at h
  · split at h
    · simp at h; exact h.2
    · simp at h
  · simp at h

/-- At most one retry over the whole life of the server, for every outcome stream. -/
theorem C32_server_retries_le_one (o : Nat → Outcome) (san : Nat → Bool) (fuel : Nat) :
    (server o san fuel).retries ≤ 1 := by
  have := srvLoop_retries_le o san fuel 0 .start
  simpa [server, SrvState.start] using this

/-- At most three failed runs ever: the initial run, one retried run, and the run that shuts
the server down. -/
theorem C32_server_failed_runs_le_three (o : Nat → Outcome) (san : Nat → Bool) (fuel : Nat) :
    (server o san fuel).failed ≤ 3 := by
  have := srvLoop_failed_le o san fuel 0 .start
  simpa [server, SrvState.start] using this

/-- A fatal failure shuts the server down at once. -/
theorem C32_server_stops_on_fatal (o : Nat → Outcome) (san : Nat → Bool) (fuel k : Nat)
    (hk : o k = .fatal) (hfuel : k < fuel) :
    (server o san fuel).stopped = true ∧ (server o san fuel).runs ≤ k + 1 :=
  srvLoop_fatal o san fuel 0 k .start hk (Nat.zero_le _) (by omega)

/-- The second failed run after the initial run shuts the server down (if it has not shut down
before): at most one retry, then shutdown. -/
theorem C32_server_stops_on_second_failure (o : Nat → Outcome) (san : Nat → Bool)
    (fuel j k : Nat) (hj1 : 1 ≤ j) (hjk : j < k) (hj : o j ≠ .ok) (hk : o k ≠ .ok)
    (hfuel : k < fuel) :
    (server o san fuel).stopped = true ∧ (server o san fuel).runs ≤ k + 1 := by
  obtain ⟨n, rfl⟩ : ∃ n, fuel = n + 1 := ⟨fuel - 1, by omega⟩
  unfold server
  cases h : srvStep .start (o 0) (san 0) with
  | stop => rw [srvLoop_stop h]; simp
  | next s' r =>
    rw [srvLoop_next h]
    exact srvLoop_two_failures o san n 1 j k s' (srvStep_next_initial h) hj hk hj1 hjk
      (by omega)

/-- No failure pattern keeps the server looping: if from run `n` on every run fails, the
server has shut down after at most `n + 3` runs. -/
theorem C32_server_no_endless_failure_loop (o : Nat → Outcome) (san : Nat → Bool)
    (fuel n : Nat) (h : ∀ k, n ≤ k → o k ≠ .ok) (hfuel : n + 3 ≤ fuel) :
    (server o san fuel).stopped = true ∧ (server o san fuel).runs ≤ n + 3 := by
  have := C32_server_stops_on_second_failure o san fuel (n + 1) (n + 2) (by omega) (by omega)
    (h _ (by omega)) (h _ (by omega)) (by omega)
  exact ⟨this.1, by omega⟩

/-- The server does not stop on its own: while runs succeed it keeps going (fuel exhausted,
not stopped). -/
theorem C32_server_keeps_running_while_ok (o : Nat → Outcome) (san : Nat → Bool) (fuel : Nat)
    (h : ∀ i, i < fuel → o i = .ok) :
    (server o san fuel).stopped = false ∧ (server o san fuel).runs = fuel := by
  have key : ∀ fuel i s, (∀ k, i ≤ k → k < i + fuel → o k = .ok) →
      (srvLoop o san fuel i s).stopped = false := by
    intro fuel
    induction fuel with
    | zero => intros; simp [srvLoop]
    | succ n ih =>
      intro i s hk
      have h0 := hk i (Nat.le_refl _) (by omega)
      have hstep : srvStep s (o i) (san i) = .next ⟨false, s.canRetry⟩ false := by
        rw [h0]; rfl
      rw [srvLoop_next hstep]
      exact ih (i + 1) _ (fun k h1 h2 => hk k (by omega) (by omega))
  have hs := key fuel 0 .start (fun k _ h2 => h k (by omega))
  refine ⟨hs, ?_⟩
  have := srvLoop_not_stopped o san fuel 0 .start hs
  simpa [server] using this

/-! ## Non-vacuity -/

/-- `vrps`: a retryable failure followed by success: two runs, success. -/
example : vrps (scriptStream [.retry, .ok]) (fun _ => true) 6 = ⟨2, .success⟩ := by decide
/-- `vrps`: persistent retryable failure: two runs, error (the unrepaired loop: still running
after 6 runs). -/
example : vrps (scriptStream [.retry]) (fun _ => true) 6 = ⟨2, .error⟩ := by decide
example : vrpsOld (scriptStream [.retry]) (fun _ => true) 6 = ⟨6, .running⟩ := by decide
/-- Server: initial run fails retryably, the regular run too, the retry too: three runs, one
retry, shutdown. -/
example : server (scriptStream [.retry]) (fun _ => true) 10 = ⟨3, true, 1, 3⟩ := by decide
/-- Server: a retry is never granted twice even with successful runs in between. -/
example : server (scriptStream [.ok, .retry, .ok, .ok, .retry, .ok]) (fun _ => true) 10
    = ⟨5, true, 1, 2⟩ := by decide
/-- Server: all runs succeed — still running when the fuel is used up. -/
example : server (scriptStream [.ok]) (fun _ => true) 10 = ⟨10, false, 0, 0⟩ := by decide

end RoutinatorModel
