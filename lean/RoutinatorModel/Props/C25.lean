import RoutinatorModel.Proofs.Rrdp
/-!
# C25 — RRDP updates reproduce the server state or report failure

Model: `Model/Rrdp.lean` (`update` = `RepositoryUpdate::try_update`). Server truth: a `History`
of versions; a step's view (notification answer + files) may be arbitrarily faulty, subject only
to `Honest`: *a served file whose hash equals the hash the notification lists for it is the
genuine file of the version it names* (SHA-256 does not collide; the harness generates exactly
such views).

Desired statement (properties.jsonl): along every run of updates from an empty cache under
honest views, an update reported successful leaves the local copy equal to the server's
snapshot at the notified serial:

    ∀ h cfg steps, (∀ s ∈ steps, HonestStep h s) →
      ∀ o ∈ runSteps cfg none steps, o.result = .updated → ∃ l, o.loc = some l ∧ Clean h l

This is **false** for the code (theorem `C25_full_statement_fails`: a delta applied in place that
then fails, followed by a failing fallback snapshot, leaves a modified archive under the old
state — `Out.dirty` — and a later genuine delta chain succeeds on it). It holds with the extra
hypothesis that no step is dirty (`C25_run_clean_partial`) and per step for clean copies
(`C25_updated_equal_partial`). It was also false without the contiguity check in `calc_deltas`
(`C25_gap_unrepaired_fails`; repaired by fixes/C25-delta-gap.patch, `Cfg.gapCheck = true`).
-/
namespace RoutinatorModel
open Rrdp

/-- One update step: clock, fallback draw, what the server presents. -/
structure RrdpStep where
  now : Nat
  draw : Nat
  resp : NResp
  fs : Files

/-- Consecutive updates, each starting from the local copy the previous one left. -/
def runSteps (cfg : Cfg) : Option Local → List RrdpStep → List Out
  | _, [] => []
  | loc, s :: r =>
    let o := update cfg s.now s.draw loc s.resp s.fs
    o :: runSteps cfg o.loc r

/-- Whatever notification the step delivers, its hashes do not lie. -/
def HonestStep (h : History) (s : RrdpStep) : Prop :=
  ∀ etag lm cond n, s.resp = .ok etag lm cond (some n) → Honest h n s.fs

theorem classify_updated {a b c d : Bool} : classify a b c d = .updated ↔ a = true ∧ b = true := by
  cases a <;> cases b <;> cases c <;> cases d <;> simp [classify]

theorem classify_retry {a b c d : Bool} : classify a b c d = .runRetry ↔ a = true ∧ b = false := by
  cases a <;> cases b <;> cases c <;> cases d <;> simp [classify]

theorem update_result_updated {cfg : Cfg} {now draw : Nat} {loc : Option Local} {resp : NResp}
    {fs : Files} (h : (update cfg now draw loc resp fs).result = .updated) :
    (updateCore cfg now draw loc resp fs).2.1 = true ∧
      ∃ l', (updateCore cfg now draw loc resp fs).1 = some l' := by
  unfold update at h
  obtain ⟨h1, h2⟩ := classify_updated.mp h
  refine ⟨h1, ?_⟩
  cases h3 : (updateCore cfg now draw loc resp fs).1 with
  | none => simp [h3] at h2
  | some l' => exact ⟨l', rfl⟩

theorem update_result_not_updated {cfg : Cfg} {now draw : Nat} {loc : Option Local} {resp : NResp}
    {fs : Files} (h : (update cfg now draw loc resp fs).result ≠ .updated)
    (hr : (update cfg now draw loc resp fs).result ≠ .runRetry) :
    (updateCore cfg now draw loc resp fs).2.1 = false := by
  unfold update at h hr
  cases h1 : (updateCore cfg now draw loc resp fs).2.1 with
  | false => rfl
  | true =>
    exfalso
    cases h2 : (updateCore cfg now draw loc resp fs).1.isSome with
    | true => exact h (classify_updated.mpr ⟨h1, h2⟩)
    | false => exact hr (classify_retry.mpr ⟨h1, h2⟩)

/-- **C25, per step, clean copies.** If the local copy (if any) equals the server's snapshot at
its serial, hashes do not lie and the update reports success, then the new local copy equals the
server's snapshot at the serial its new state names, and that is the notified version: the
notification's `(session, serial)`, or for Not Modified the unchanged local one. -/
theorem C25_updated_equal_partial (h : History) (cfg : Cfg) (hgap : cfg.gapCheck = true)
    (now draw : Nat) (loc : Option Local) (resp : NResp) (fs : Files)
    (hclean : ∀ l, loc = some l → Clean h l)
    (hhonest : ∀ etag lm cond n, resp = .ok etag lm cond (some n) → Honest h n fs)
    (hupd : (update cfg now draw loc resp fs).result = .updated) :
    ∃ l', (update cfg now draw loc resp fs).loc = some l' ∧ Clean h l' ∧
      ((∃ l, loc = some l ∧ l'.objs = l.objs ∧ l'.state.session = l.state.session ∧
          l'.state.serial = l.state.serial) ∨
       (∃ etag lm cond n, resp = .ok etag lm cond (some n) ∧
          l'.state.session = n.session ∧ l'.state.serial = n.serial)) := by
  obtain ⟨h2, l', h1⟩ := update_result_updated hupd
  refine ⟨l', h1, ?_⟩
  rcases updateCore_updated h1 h2 with ⟨l, hl, rfl⟩ | ⟨etag, lm, cond, n, hresp, hcase⟩
  · obtain ⟨x, hx, hs⟩ := hclean l hl
    exact ⟨⟨x, hx, hs⟩, Or.inl ⟨l, hl, rfl, rfl, rfl⟩⟩
  · have hh := hhonest etag lm cond n hresp
    rcases hcase with ⟨l, tr, hl, hd⟩ | ⟨o, ho, rfl⟩
    · obtain ⟨c1, c2, c3⟩ := deltaUpdate_clean hgap (hclean l hl) hh hd
      exact ⟨c1, Or.inr ⟨etag, lm, cond, n, hresp, c2, c3⟩⟩
    · obtain ⟨x, hx, hs⟩ := fetchSnapshot_genuine hh ho
      exact ⟨⟨x, hx, hs⟩, Or.inr ⟨etag, lm, cond, n, hresp, rfl, rfl⟩⟩

/-- **The snapshot path always re-establishes a clean copy**, whatever the local copy was
(dirty, foreign, absent): a reported success under honest hashes is clean unless it came from
Not Modified or from a completed delta chain on an existing copy. -/
theorem C25_snapshot_reestablishes_clean (h : History) (cfg : Cfg)
    (now draw : Nat) (loc : Option Local) (resp : NResp) (fs : Files)
    (hhonest : ∀ etag lm cond n, resp = .ok etag lm cond (some n) → Honest h n fs)
    (hupd : (update cfg now draw loc resp fs).result = .updated) :
    ∃ l', (update cfg now draw loc resp fs).loc = some l' ∧
      (Clean h l' ∨
       ∃ l, loc = some l ∧ (l' = touch now draw l ∨
         ∃ etag lm cond n tr, resp = .ok etag lm cond (some n) ∧
           deltaUpdate cfg now draw etag lm n fs l = .done l' tr)) := by
  obtain ⟨h2, l', h1⟩ := update_result_updated hupd
  refine ⟨l', h1, ?_⟩
  rcases updateCore_updated h1 h2 with ⟨l, hl, rfl⟩ | ⟨etag, lm, cond, n, hresp, hcase⟩
  · exact Or.inr ⟨l, hl, Or.inl rfl⟩
  · rcases hcase with ⟨l, tr, hl, hd⟩ | ⟨o, ho, rfl⟩
    · exact Or.inr ⟨l, hl, Or.inr ⟨etag, lm, cond, n, tr, hresp, hd⟩⟩
    · obtain ⟨x, hx, hs⟩ := fetchSnapshot_genuine (hhonest etag lm cond n hresp) ho
      exact Or.inl ⟨x, hx, hs⟩

/-- Without a local copy every reported success is clean (first synchronisation). -/
theorem C25_first_sync_clean (h : History) (cfg : Cfg) (now draw : Nat) (resp : NResp) (fs : Files)
    (hhonest : ∀ etag lm cond n, resp = .ok etag lm cond (some n) → Honest h n fs)
    (hupd : (update cfg now draw none resp fs).result = .updated) :
    ∃ l', (update cfg now draw none resp fs).loc = some l' ∧ Clean h l' := by
  obtain ⟨l', h1, hc⟩ := C25_snapshot_reestablishes_clean h cfg now draw none resp fs hhonest hupd
  refine ⟨l', h1, ?_⟩
  rcases hc with hc | ⟨l, hl, _⟩
  · exact hc
  · cases hl

/-- **Otherwise the repository is reported as not updated**: a result other than `updated`
(`Current`, `Stale`, `Unavailable` carry no repository handle; `runRetry` fails the run) never
moves the stored state, and unless the step is dirty the local copy is untouched. -/
theorem C25_not_updated_frame (cfg : Cfg) (now draw : Nat) (loc : Option Local) (resp : NResp)
    (fs : Files) (hupd : (update cfg now draw loc resp fs).result ≠ .updated)
    (hretry : (update cfg now draw loc resp fs).result ≠ .runRetry) :
    (update cfg now draw loc resp fs).loc.map (·.state) = loc.map (·.state) ∧
    ((update cfg now draw loc resp fs).dirty = false →
      (update cfg now draw loc resp fs).loc = loc) := by
  have h2 := update_result_not_updated hupd hretry
  exact updateCore_failed h2

/-- The failed-run case: only a Not Modified answer without any local copy. -/
theorem C25_run_retry_no_copy (cfg : Cfg) (now draw : Nat) (loc : Option Local) (resp : NResp)
    (fs : Files) (h : (update cfg now draw loc resp fs).result = .runRetry) :
    (update cfg now draw loc resp fs).loc = none := by
  unfold update at h ⊢
  obtain ⟨_, h2⟩ := classify_retry.mp h
  cases h3 : (updateCore cfg now draw loc resp fs).1 with
  | none => exact h3
  | some l' => simp [h3] at h2

/-- **C25 along runs (partial).** From an empty cache, under honest views, as long as no step
is dirty, every update reported successful leaves a copy equal to the server's snapshot at the
notified serial. (`dirty` = a delta applied in place failed and the fallback snapshot failed:
the known finding.) -/
theorem C25_run_clean_partial (h : History) (cfg : Cfg) (hgap : cfg.gapCheck = true) :
    ∀ (steps : List RrdpStep) (loc : Option Local),
    (∀ l, loc = some l → Clean h l) →
    (∀ s ∈ steps, HonestStep h s) →
    (∀ o ∈ runSteps cfg loc steps, o.dirty = false) →
    ∀ o ∈ runSteps cfg loc steps, o.result = .updated → ∃ l, o.loc = some l ∧ Clean h l := by
  intro steps
  induction steps with
  | nil => intro loc _ _ _ o ho; simp [runSteps] at ho
  | cons s r ih =>
    intro loc hclean hhon hdirty o ho hres
    simp only [runSteps, List.mem_cons] at ho hdirty
    have hs := hhon s (List.mem_cons_self)
    -- the invariant after the first step
    have hinv : ∀ l, (update cfg s.now s.draw loc s.resp s.fs).loc = some l → Clean h l := by
      intro l hl
      by_cases hu : (update cfg s.now s.draw loc s.resp s.fs).result = .updated
      · obtain ⟨l', h1, hc, _⟩ :=
          C25_updated_equal_partial h cfg hgap s.now s.draw loc s.resp s.fs hclean hs hu
        rw [h1] at hl; cases hl; exact hc
      · by_cases hr : (update cfg s.now s.draw loc s.resp s.fs).result = .runRetry
        · rw [C25_run_retry_no_copy cfg s.now s.draw loc s.resp s.fs hr] at hl
          cases hl
        · have hf := (C25_not_updated_frame cfg s.now s.draw loc s.resp s.fs hu hr).2
            (hdirty _ (Or.inl rfl))
          rw [hf] at hl
          exact hclean l hl
    rcases ho with rfl | ho
    · obtain ⟨l', h1, hc, _⟩ :=
        C25_updated_equal_partial h cfg hgap s.now s.draw loc s.resp s.fs hclean hs hres
      exact ⟨l', h1, hc⟩
    · exact ih _ hinv (fun s' hs' => hhon s' (List.mem_cons_of_mem _ hs'))
        (fun o' ho' => hdirty o' (Or.inr ho')) o ho hres

/-- **Serial rollback.** If the notification names a serial *below* the local one (same session
or not) and the update is reported successful, it went through the snapshot path (or Not
Modified): the delta path cannot complete, because `calc_deltas` never answers "nothing to do"
for a lower serial. Together with `C25_snapshot_reestablishes_clean` the copy is then the server's
snapshot at the (lower) notified serial. -/
theorem C25_rollback_needs_snapshot (cfg : Cfg) (hgap : cfg.gapCheck = true) (now draw : Nat)
    (etag lm : Option Nat) (n : Notif) (fs : Files) (l l' : Local) (tr : List Nat)
    (hlow : n.serial < l.state.serial) :
    deltaUpdate cfg now draw etag lm n fs l ≠ .done l' tr := by
  intro hd
  obtain ⟨ds, hcalc, _, _, _, _⟩ := deltaUpdate_done hd
  obtain ⟨_, _, hlen⟩ := calcDeltas_some hgap hcalc
  omega

/-- **Re-issued delta (server restored).** If the notification lists — anywhere in its delta
list, also after older serials the state does not know — a delta whose serial the local state
remembers with another hash, the delta path cannot complete: a reported success went through
the snapshot path (or Not Modified) and is clean by `C25_snapshot_reestablishes_clean`. -/
theorem C25_delta_mutation_needs_snapshot (cfg : Cfg) (now draw : Nat)
    (etag lm : Option Nat) (n : Notif) (fs : Files) (l l' : Local) (tr : List Nat)
    (e : DeltaEntry) (he : e ∈ effDeltas cfg n) (h : FileHash)
    (hknown : List.lookup e.serial l.state.deltaState = some h) (hdiff : h ≠ e.hash) :
    deltaUpdate cfg now draw etag lm n fs l ≠ .done l' tr := by
  intro hd
  obtain ⟨_, _, _, _, _, hm⟩ := deltaUpdate_done hd
  have := (deltaMutation_iff (effDeltas cfg n) l.state).mpr ⟨e, he, h, hknown, hdiff⟩
  rw [this] at hm
  cases hm

/-- The guard on concrete data: the state remembers serial 5 (hash 50); the list starts with the
unknown older serials 3 and 4 and re-issues 5 with hash 51. -/
example : deltaMutation
    [ { serial := 3, file := 1, hash := 30, foreign := false },
      { serial := 4, file := 2, hash := 40, foreign := false },
      { serial := 5, file := 3, hash := 51, foreign := false } ]
    { session := 0, serial := 5, etag := none, lm := none, updated := 0, bestBefore := 0,
      deltaState := [(5, 50)] } = true := by decide

/-- The rollback branch on concrete data: local serial 12, notified 10 with deltas 9 and 10. -/
example : calcDeltas { maxDeltaCount := 3, maxListLen := 6, gapCheck := true } 10
    [ { serial := 9, file := 1, hash := 1, foreign := false },
      { serial := 10, file := 2, hash := 2, foreign := false } ]
    { session := 0, serial := 12, etag := none, lm := none, updated := 0, bestBefore := 0,
      deltaState := [] } = none := by decide

/-! ## Negation witnesses -/

namespace C25Witness

/-- v3 = {1 ↦ 11, 2 ↦ 12}, v4 = {1 ↦ 11, 2 ↦ 13}, one session. -/
def hist : History :=
  [ { session := 0, serial := 3, objs := [(2, 12), (1, 11)] },
    { session := 0, serial := 4, objs := [(1, 11), (2, 13)] } ]

def cfg : Cfg := { maxDeltaCount := 3, maxListLen := 6, gapCheck := true }

def snap3 : Doc :=
  { isSnapshot := true, hash := 30, session := 0, serial := 3, endOk := true,
    elems := [.publish 1 11, .publish 2 12] }

/-- The genuine delta 4 (hash 40). -/
def delta4 : Doc :=
  { isSnapshot := false, hash := 40, session := 0, serial := 4, endOk := true,
    elems := [.update 2 12 13] }

/-- A bogus file behind delta 4's URL (hash 99): withdraws object 1 with the right hash. -/
def bogus4 : Doc :=
  { isSnapshot := false, hash := 99, session := 0, serial := 4, endOk := true,
    elems := [.withdraw 1 11] }

def notif3 : Notif :=
  { session := 0, serial := 3, snapOriginOk := true, snapFile := 0, snapHash := 30, deltas := [] }

def notif4 : Notif :=
  { session := 0, serial := 4, snapOriginOk := true, snapFile := 0, snapHash := 41,
    deltas := [{ serial := 4, file := 1, hash := 40, foreign := false }] }

/-- 1: first sync by snapshot. 2: serial 4, bogus delta file, snapshot 404. 3: all genuine
(the snapshot file still unavailable, it is not needed). -/
def steps : List RrdpStep :=
  [ { now := 100, draw := 10, resp := .ok none none false (some notif3), fs := [some snap3] },
    { now := 101, draw := 10, resp := .ok none none false (some notif4), fs := [none, some bogus4] },
    { now := 102, draw := 10, resp := .ok none none false (some notif4), fs := [none, some delta4] } ]

theorem honest : ∀ s ∈ steps, HonestStep hist s := by
  intro s hs
  simp only [steps, List.mem_cons, List.not_mem_nil, or_false] at hs
  rcases hs with rfl | rfl | rfl
  · intro etag lm cond n hn
    simp only [NResp.ok.injEq] at hn
    obtain ⟨_, _, _, hn⟩ := hn
    cases hn
    refine ⟨?_, ?_⟩
    · intro d hd _
      have : d = snap3 := by
        simp [Files.fetch, notif3] at hd; exact hd.symm
      subst this
      exact ⟨[(2, 12), (1, 11)], [(2, 12), (1, 11)], rfl, rfl, fun _ => rfl⟩
    · intro e he; simp [notif3] at he
  · intro etag lm cond n hn
    simp only [NResp.ok.injEq] at hn
    obtain ⟨_, _, _, hn⟩ := hn
    cases hn
    refine ⟨?_, ?_⟩
    · intro d hd; simp [Files.fetch, notif4] at hd
    · intro e he d hd hh
      simp [notif4] at he
      subst he
      simp [Files.fetch] at hd
      subst hd
      simp [bogus4] at hh
  · intro etag lm cond n hn
    simp only [NResp.ok.injEq] at hn
    obtain ⟨_, _, _, hn⟩ := hn
    cases hn
    refine ⟨?_, ?_⟩
    · intro d hd; simp [Files.fetch, notif4] at hd
    · intro e he d hd _
      simp [notif4] at he
      subst he
      simp [Files.fetch] at hd
      subst hd
      refine ⟨3, [(2, 12), (1, 11)], [(1, 11), (2, 13)], rfl, rfl, rfl, ?_, ?_⟩
      · intro e he; simp [delta4] at he; subst he; rfl
      · intro u hu
        have h2 : u ≠ 2 := fun hh => hu (.update 2 12 13) (by simp [delta4]) (by simp [Elem.uri, hh])
        by_cases h1 : u = 1
        · subst h1; rfl
        · simp [Objs.get, List.lookup]
          have e1 : (u == 1) = false := by simp [h1]
          have e2 : (u == 2) = false := by simp [h2]
          simp [e1, e2]

/-- The three outputs, by evaluation of the model. -/
theorem third_step :
    ((runSteps cfg none steps).map (fun o => (o.result, o.dirty, o.loc.map (·.objs)))) =
      [ (.updated, false, some [(2, 12), (1, 11)]),
        (.current, true, some [(2, 12)]),
        (.updated, false, some [(2, 13)]) ] := by decide

end C25Witness

/-- **The full statement fails on the (repaired) code**: honest views, yet the third update is
reported successful with a copy that is not the server's snapshot (object 1 is gone). -/
theorem C25_full_statement_fails :
    ∃ (h : History) (cfg : Cfg) (steps : List RrdpStep), cfg.gapCheck = true ∧
      (∀ s ∈ steps, HonestStep h s) ∧
      ∃ o ∈ runSteps cfg none steps, o.result = .updated ∧ ¬ ∃ l, o.loc = some l ∧ Clean h l := by
  refine ⟨C25Witness.hist, C25Witness.cfg, C25Witness.steps, rfl, C25Witness.honest, ?_⟩
  have h3 := C25Witness.third_step
  cases hr : runSteps C25Witness.cfg none C25Witness.steps with
  | nil => simp [hr] at h3
  | cons o1 r1 =>
    cases r1 with
    | nil => simp [hr] at h3
    | cons o2 r2 =>
      cases r2 with
      | nil => simp [hr] at h3
      | cons o3 r3 =>
        simp [hr] at h3
        obtain ⟨_, _, ⟨h31, _, h33⟩, _⟩ := h3
        refine ⟨o3, by simp, h31, ?_⟩
        rintro ⟨l, hl, x, hx, hsame⟩
        rw [hl] at h33
        simp at h33
        have h1 := hsame 1
        rw [h33] at h1
        -- the state of the third output names serial 4 of session 0
        have hst : l.state.session = 0 ∧ l.state.serial = 4 := by
          have : (runSteps C25Witness.cfg none C25Witness.steps).map
              (fun o => o.loc.map (fun l => (l.state.session, l.state.serial))) =
              [some (0, 3), some (0, 3), some (0, 4)] := by decide
          rw [hr] at this
          simp [hl] at this
          exact this.2.2.1
        rw [hst.1, hst.2] at hx
        have : x = [(1, 11), (2, 13)] := by
          simp [History.at, C25Witness.hist] at hx; exact hx.symm
        subst this
        simp [Objs.get, List.lookup] at h1

/-- **Without the repair** (no contiguity check in `calc_deltas`) a clean copy and honest hashes
are not enough: a notification listing deltas 4 and 6 but not 5 is applied and reported as an
update to serial 6. -/
theorem C25_gap_unrepaired_fails :
    ∃ (h : History) (l : Local) (n : Notif) (fs : Files),
      Clean h l ∧ Honest h n fs ∧
      let o := update { maxDeltaCount := 3, maxListLen := 6, gapCheck := false } 100 10 (some l)
        (.ok none none false (some n)) fs
      o.result = .updated ∧ o.loc.map (·.objs) = some [(2, 13)] ∧
      History.at h 0 6 = some [(2, 15)] := by
  let d4 : Doc := { isSnapshot := false, hash := 40, session := 0, serial := 4, endOk := true,
                    elems := [.update 2 12 13] }
  let d6 : Doc := { isSnapshot := false, hash := 60, session := 0, serial := 6, endOk := true,
                    elems := [] }
  refine ⟨[ { session := 0, serial := 3, objs := [(2, 12)] },
            { session := 0, serial := 4, objs := [(2, 13)] },
            { session := 0, serial := 5, objs := [(2, 15)] },
            { session := 0, serial := 6, objs := [(2, 15)] } ],
          { objs := [(2, 12)],
            state := { session := 0, serial := 3, etag := none, lm := none, updated := 1,
                       bestBefore := 500, deltaState := [] } },
          { session := 0, serial := 6, snapOriginOk := true, snapFile := 0, snapHash := 61,
            deltas := [ { serial := 4, file := 1, hash := 40, foreign := false },
                        { serial := 6, file := 2, hash := 60, foreign := false } ] },
          [none, some d4, some d6], ?_, ?_, ?_⟩
  · exact ⟨[(2, 12)], rfl, fun _ => rfl⟩
  · refine ⟨?_, ?_⟩
    · intro d hd; simp [Files.fetch] at hd
    · intro e he d hd _
      simp at he
      rcases he with rfl | rfl
      · simp [Files.fetch] at hd
        subst hd
        refine ⟨3, [(2, 12)], [(2, 13)], rfl, rfl, rfl, ?_, ?_⟩
        · intro e he; simp [d4] at he; subst he; rfl
        · intro u hu
          have h2 : u ≠ 2 := fun hh => hu (.update 2 12 13) (by simp [d4]) (by simp [Elem.uri, hh])
          have e2 : (u == 2) = false := by simp [h2]
          simp [Objs.get, List.lookup, e2]
      · simp [Files.fetch] at hd
        subst hd
        refine ⟨5, [(2, 15)], [(2, 15)], rfl, rfl, rfl, ?_, ?_⟩
        · intro e he; simp [d6] at he
        · intro u _; rfl
  · decide

/-! ## Non-vacuity: the hypotheses of the positive theorems are satisfiable on a run that takes
the delta path. -/

example : ∃ l, (update C25Witness.cfg 102 10
      (some { objs := [(2, 12), (1, 11)],
              state := { session := 0, serial := 3, etag := none, lm := none, updated := 100,
                         bestBefore := 110, deltaState := [] } })
      (.ok none none false (some C25Witness.notif4)) [none, some C25Witness.delta4]).loc = some l ∧
    l.state.serial = 4 ∧ l.objs = [(2, 13), (1, 11)] := by
  exact ⟨_, rfl, by decide, by decide⟩

end RoutinatorModel
