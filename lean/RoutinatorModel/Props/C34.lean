import RoutinatorModel.Model.History
/-!
# C34 — Next-run scheduling respects refresh and min-refresh

Model: `nextUpdateStart` (`mark_update_done`) and `refreshWait` (`refresh_wait`) of
`Model/History.lean`; all times and durations are natural numbers of nanoseconds, `now0`
is the clock when the run finished (`mark_update_done`), `now1 ≥ now0` the clock when the
server loop asks for the wait (`refresh_wait`, immediately afterwards).

Domain: `now + refresh` must be representable as a `SystemTime` (seconds up to `i64::MAX`);
beyond it `SystemTime + Duration` panics — already in `PayloadHistory::from_config` at
start-up — which is outside this property and recorded in notes/C34.md.
-/
namespace RoutinatorModel

/-- The wait is never shorter than min-refresh (or refresh when unset) — for any clock. -/
theorem C34_lower (next now refresh : Nat) (minRefresh : Option Nat) :
    minRefresh.getD refresh ≤ refreshWait next now refresh minRefresh := by
  unfold refreshWait
  cases minRefresh <;> simp <;> omega

/-- The wait is never longer than the larger of refresh and min-refresh. -/
theorem C34_upper (now0 now1 refresh : Nat) (minRefresh expiry : Option Nat) (hn : now0 ≤ now1) :
    refreshWait (nextUpdateStart now0 refresh expiry) now1 refresh minRefresh
      ≤ max refresh (minRefresh.getD refresh) := by
  unfold refreshWait nextUpdateStart
  cases minRefresh <;> cases expiry <;> simp <;> (try split) <;> omega

/-- With min-refresh set, a data set expiring before `now0 + refresh` brings the next run
forward to its expiry, but not below min-refresh. -/
theorem C34_early_expiry (now0 now1 refresh m e : Nat) (he : e < now0 + refresh) :
    refreshWait (nextUpdateStart now0 refresh (some e)) now1 refresh (some m) = max (e - now1) m := by
  unfold refreshWait nextUpdateStart
  simp [he]

/-- Without an earlier expiry the next run is `refresh` after the end of this one (not
below min-refresh); in particular exactly `refresh` when min-refresh is unset or smaller
and the wait is computed at once. -/
theorem C34_regular (now0 now1 refresh : Nat) (minRefresh expiry : Option Nat)
    (he : ∀ e, expiry = some e → now0 + refresh ≤ e) :
    refreshWait (nextUpdateStart now0 refresh expiry) now1 refresh minRefresh
      = max (now0 + refresh - now1) (minRefresh.getD refresh) := by
  unfold refreshWait nextUpdateStart
  cases expiry with
  | none => cases minRefresh <;> simp
  | some e =>
    have := he e rfl
    have hlt : ¬ e < now0 + refresh := by omega
    cases minRefresh <;> simp [hlt]

/-- With min-refresh unset the wait computed at `mark_update_done` time is exactly `refresh`,
whatever the data set's expiry. -/
theorem C34_unset_is_refresh (now0 refresh : Nat) (expiry : Option Nat) :
    refreshWait (nextUpdateStart now0 refresh expiry) now0 refresh none = refresh := by
  unfold refreshWait nextUpdateStart
  cases expiry <;> simp <;> (try split) <;> omega

/-! Non-vacuity: refresh 600 s, min-refresh 60 s, run finished at t = 1000 s. -/
example : refreshWait (nextUpdateStart 1000 600 (some 1200)) 1000 600 (some 60) = 200 := by decide
example : refreshWait (nextUpdateStart 1000 600 (some 1010)) 1000 600 (some 60) = 60 := by decide
example : refreshWait (nextUpdateStart 1000 600 (some 2000)) 1003 600 (some 60) = 597 := by decide
example : refreshWait (nextUpdateStart 1000 600 (some 1200)) 1000 600 none = 600 := by decide

end RoutinatorModel
