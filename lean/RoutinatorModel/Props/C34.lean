import RoutinatorModel.Model.History
/-!
# C34 — Next-run scheduling respects refresh and min-refresh

Model: `nextUpdateStart` (`mark_update_done`) and `refreshWait` (`refresh_wait`) of
`Model/History.lean`; all times and durations are natural numbers of nanoseconds, `now0`
is the clock when the run finished (`mark_update_done`), `now1 ≥ now0` the clock when the
server loop asks for the wait (`refresh_wait`, immediately afterwards).

Domain: `now + refresh` must be representable as a `SystemTime` (seconds up to `i64::MAX`);
beyond it `SystemTime + Duration` panics — already in `PayloadHistory::from_config` at
start-up — which is outside this property and recorded in notes/C34.md.
-/
namespace RoutinatorModel

/-- The wait is never shorter than min-refresh (or refresh when unset) — for any clock. -/
theorem C34_lower (next now refresh : Nat) (minRefresh : Option Nat) :
    minRefresh.getD refresh ≤ refreshWait next now refresh minRefresh := by
  unfold refreshWait
  cases minRefresh <;> simp <;> omega

/-- The wait is never longer than the larger of refresh and min-refresh. -/
theorem C34_upper (now0 now1 refresh : Nat) (minRefresh expiry : Option Nat) (hn : now0 ≤ now1) :
    refreshWait (nextUpdateStart now0 refresh expiry) now1 refresh minRefresh
      ≤ max refresh (minRefresh.getD refresh) := by
  unfold refreshWait nextUpdateStart
  cases minRefresh <;> cases expiry <;> simp <;> (try split) <;> omega

/-- Without the clock hypothesis: if the realtime clock steps back by `now0 - now1` between
`mark_update_done` and `refresh_wait`, the upper bound is exceeded by at most that step
(`C34_upper` is the case `now0 ≤ now1`, where the truncated difference is 0). -/
theorem C34_upper_any_clock (now0 now1 refresh : Nat) (minRefresh expiry : Option Nat) :
    refreshWait (nextUpdateStart now0 refresh expiry) now1 refresh minRefresh
      ≤ max refresh (minRefresh.getD refresh) + (now0 - now1) := by
  unfold refreshWait nextUpdateStart
  cases minRefresh <;> cases expiry <;> simp <;> (try split) <;> omega

/-- With min-refresh set, a data set expiring before `now0 + refresh` brings the next run
forward to its expiry, but not below min-refresh. -/
theorem C34_early_expiry (now0 now1 refresh m e : Nat) (he : e < now0 + refresh) :
    refreshWait (nextUpdateStart now0 refresh (some e)) now1 refresh (some m) = max (e - now1) m := by
  unfold refreshWait nextUpdateStart
  simp [he]

/-- Without an earlier expiry the next run is `refresh` after the end of this one (not
below min-refresh); in particular exactly `refresh` when min-refresh is unset or smaller
and the wait is computed at once. -/
theorem C34_regular (now0 now1 refresh : Nat) (minRefresh expiry : Option Nat)
    (he : ∀ e, expiry = some e → now0 + refresh ≤ e) :
    refreshWait (nextUpdateStart now0 refresh expiry) now1 refresh minRefresh
      = max (now0 + refresh - now1) (minRefresh.getD refresh) := by
  unfold refreshWait nextUpdateStart
  cases expiry with
  | none => cases minRefresh <;> simp
  | some e =>
    have := he e rfl
    have hlt : ¬ e < now0 + refresh := by omega
    cases minRefresh <;> simp [hlt]

/-- With min-refresh unset the wait computed at `mark_update_done` time is exactly `refresh`,
whatever the data set's expiry. -/
theorem C34_unset_is_refresh (now0 refresh : Nat) (expiry : Option Nat) :
    refreshWait (nextUpdateStart now0 refresh expiry) now0 refresh none = refresh := by
  unfold refreshWait nextUpdateStart
  cases expiry <;> simp <;> (try split) <;> omega

/-- The run after the wait starts exactly at the later of the scheduled `next_update_start`
and `now + min-refresh` (refresh when unset): never before the scheduled time, never later
than both. -/
theorem C34_next_start (next now refresh : Nat) (minRefresh : Option Nat) :
    now + refreshWait next now refresh minRefresh = max next (now + minRefresh.getD refresh) := by
  unfold refreshWait
  cases minRefresh <;> simp <;> omega

/-- Over every sequence of successful regular runs (any durations, any delay between
`mark_update_done` and `refresh_wait`, any expiry per run), every wait the server loop
obtains lies between min-refresh (refresh when unset) and the larger of the two. -/
theorem C34_schedule_bounds (refresh : Nat) (minRefresh : Option Nat) (runs : List SchedRun)
    (t : Nat) :
    ∀ w ∈ schedWaits refresh minRefresh t runs,
      minRefresh.getD refresh ≤ w ∧ w ≤ max refresh (minRefresh.getD refresh) := by
  induction runs generalizing t with
  | nil => intro w hw; simp [schedWaits] at hw
  | cons x xs ih =>
    intro w hw
    simp only [schedWaits, List.mem_cons] at hw
    rcases hw with rfl | hw
    · exact ⟨C34_lower _ _ _ _,
        C34_upper (t + x.dur) (t + x.dur + x.lag) refresh minRefresh x.expiry (by omega)⟩
    · exact ih _ w hw

/-- One wait per run. -/
theorem C34_schedule_length (refresh : Nat) (minRefresh : Option Nat) (runs : List SchedRun)
    (t : Nat) : (schedWaits refresh minRefresh t runs).length = runs.length := by
  induction runs generalizing t with
  | nil => rfl
  | cons x xs ih => simp [schedWaits, ih]

/-- Consecutive run starts of every such sequence are at least min-refresh (refresh when
unset) apart: the schedule can never be driven into back-to-back runs by expiry times. -/
theorem C34_schedule_spacing (refresh : Nat) (minRefresh : Option Nat) (runs : List SchedRun)
    (t : Nat) :
    ∀ i, (h : i + 1 < (schedStarts refresh minRefresh t runs).length) →
      (schedStarts refresh minRefresh t runs)[i] + minRefresh.getD refresh
        ≤ (schedStarts refresh minRefresh t runs)[i + 1] := by
  induction runs generalizing t with
  | nil => intro i h; simp [schedStarts] at h
  | cons x xs ih =>
    intro i h
    have hl := C34_lower (nextUpdateStart (t + x.dur) refresh x.expiry) (t + x.dur + x.lag)
      refresh minRefresh
    cases i with
    | zero =>
      cases xs with
      | nil => simp only [schedStarts, List.getElem_cons_zero, List.getElem_cons_succ]; omega
      | cons y ys =>
        simp only [schedStarts, List.getElem_cons_zero, List.getElem_cons_succ]; omega
    | succ j =>
      simp only [schedStarts, List.getElem_cons_succ]
      exact ih _ j (by simpa [schedStarts] using h)

/-- The start of the run after a run whose data set expires before its end + refresh, with
min-refresh set: exactly the expiry, but not earlier than min-refresh after the wait was
computed. -/
theorem C34_next_start_early_expiry (fin lag refresh m e : Nat) (he : e < fin + refresh) :
    (fin + lag) + refreshWait (nextUpdateStart fin refresh (some e)) (fin + lag) refresh (some m)
      = max e (fin + lag + m) := by
  rw [C34_next_start]
  simp [nextUpdateStart, he]

/-- The same inside any run sequence: every run of the sequence is the head of a suffix
(`schedStarts … t (x :: xs) = t :: schedStarts … t' xs`), and the start following the head
run is the expiry bounded below by min-refresh. -/
theorem C34_schedule_early_expiry (refresh m t e : Nat) (x : SchedRun) (xs : List SchedRun)
    (hx : x.expiry = some e) (he : e < t + x.dur + refresh) :
    schedStarts refresh (some m) t (x :: xs)
      = t :: schedStarts refresh (some m) (max e (t + x.dur + x.lag + m)) xs := by
  simp only [schedStarts, hx]
  rw [C34_next_start_early_expiry (t + x.dur) x.lag refresh m e he]

/-! Non-vacuity: refresh 600 s, min-refresh 60 s, run finished at t = 1000 s. -/
example : refreshWait (nextUpdateStart 1000 600 (some 1200)) 1000 600 (some 60) = 200 := by decide
example : refreshWait (nextUpdateStart 1000 600 (some 1010)) 1000 600 (some 60) = 60 := by decide
example : refreshWait (nextUpdateStart 1000 600 (some 2000)) 1003 600 (some 60) = 597 := by decide
example : refreshWait (nextUpdateStart 1000 600 (some 1200)) 1000 600 none = 600 := by decide
example : schedWaits 600 (some 60) 0 [⟨100, 0, some 300⟩, ⟨50, 2, none⟩, ⟨10, 0, some 0⟩] = [200, 598, 60] := by
  decide
example : schedStarts 600 (some 60) 0 [⟨100, 0, some 300⟩, ⟨50, 2, none⟩] = [0, 300, 950] := by decide

end RoutinatorModel
