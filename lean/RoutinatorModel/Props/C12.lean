import RoutinatorModel.Props.C11
/-!
# C12 — Merged deltas equal the direct delta

`merge (construct a b) (construct b c) = construct a c` — same actions, same order,
including the hidden `Update p` / `Withdraw p` annotations of ASPA actions — for all
strictly sorted data sets, lifted to every sequence of data sets by induction.
-/
namespace RoutinatorModel

theorem C12_std_merge_construct {a b c : List Nat} (ha : Sorted a) (hb : Sorted b) (hc : Sorted c) :
    stdMerge (stdConstruct a b) (stdConstruct b c) = stdConstruct a c := by
  apply ksorted_ext _ _
    (ksorted_mergeH _ _ _ _ _ (ksorted_stdConstruct ha hb) (ksorted_stdConstruct hb hc))
    (ksorted_stdConstruct ha hc)
  intro k
  rw [lookup_mergeH _ _ _ _ _ (ksorted_stdConstruct ha hb) (ksorted_stdConstruct hb hc),
      lookup_stdConstruct ha hb, lookup_stdConstruct hb hc, lookup_stdConstruct ha hc,
      std_comb_assoc]

theorem C12_aspa_merge_construct {a b c : AspaSet} (ha : KSorted a) (hb : KSorted b)
    (hc : KSorted c) :
    aspaMerge (aspaConstruct a b) (aspaConstruct b c) = aspaConstruct a c := by
  apply ksorted_ext _ _
    (ksorted_mergeH _ _ _ _ _ (ksorted_aspaConstruct ha hb) (ksorted_aspaConstruct hb hc))
    (ksorted_aspaConstruct ha hc)
  intro k
  rw [lookup_mergeH _ _ _ _ _ (ksorted_aspaConstruct ha hb) (ksorted_aspaConstruct hb hc),
      lookup_aspaConstruct ha hb, lookup_aspaConstruct hb hc, lookup_aspaConstruct ha hc,
      aspa_comb_assoc]

/-- The delta between two snapshots before the "is it empty" test of `construct`. -/
def PayloadDelta.between (old new : Snapshot) (serial : Nat) : PayloadDelta :=
  { serial := serial
    origins := stdConstruct old.origins new.origins
    routerKeys := stdConstruct old.routerKeys new.routerKeys
    aspas := aspaConstruct old.aspas new.aspas }

/-- Merging two consecutive deltas gives the direct delta, tagged with the later serial. -/
theorem C12_merge_between {a b c : Snapshot} (ha : a.WF) (hb : b.WF) (hc : c.WF) (s₁ s₂ : Nat) :
    (PayloadDelta.between a b s₁).merge (PayloadDelta.between b c s₂)
      = PayloadDelta.between a c s₂ := by
  unfold PayloadDelta.merge PayloadDelta.between
  simp only [C12_std_merge_construct ha.origins hb.origins hc.origins,
    C12_std_merge_construct ha.routerKeys hb.routerKeys hc.routerKeys,
    C12_aspa_merge_construct ha.aspas hb.aspas hc.aspas]

/-- The consecutive deltas of a sequence of snapshots, each tagged with its serial. -/
def consecutive : Snapshot → List (Snapshot × Nat) → List PayloadDelta
  | _, [] => []
  | s, (t, n) :: rest => PayloadDelta.between s t n :: consecutive t rest

/-- The last (snapshot, serial) of a non-empty sequence. -/
def lastOf (x : Snapshot × Nat) (rest : List (Snapshot × Nat)) : Snapshot × Nat :=
  rest.getLast?.getD x

/-- For every sequence of data sets `s₀, s₁, …, sₙ` (n ≥ 1): folding `merge` over the
consecutive deltas yields the direct delta from `s₀` to `sₙ` — same actions, same order —
tagged with the last serial. -/
theorem C12_fold_merge (s₀ s₁ : Snapshot) (n₁ : Nat) (rest : List (Snapshot × Nat))
    (h₀ : s₀.WF) (h₁ : s₁.WF) (hr : ∀ x ∈ rest, x.1.WF) :
    (consecutive s₁ rest).foldl PayloadDelta.merge (PayloadDelta.between s₀ s₁ n₁)
      = PayloadDelta.between s₀ (lastOf (s₁, n₁) rest).1 (lastOf (s₁, n₁) rest).2 := by
  induction rest generalizing s₁ n₁ with
  | nil => simp [consecutive, lastOf]
  | cons x rest ih =>
    obtain ⟨t, n⟩ := x
    have ht : t.WF := hr (t, n) (by simp)
    simp only [consecutive, List.foldl]
    rw [C12_merge_between h₀ h₁ ht, ih t n ht (fun x hx => hr x (by simp [hx]))]
    simp [lastOf, List.getLast?_cons]

/-- A client applying the merged delta ends with the same data as one updating version by
version: the direct delta applied to the first data set is the last data set. -/
theorem C12_apply_merged {a c : Snapshot} (ha : a.WF) (hc : c.WF) (s : Nat) :
    (PayloadDelta.between a c s).apply a = c := by
  unfold PayloadDelta.apply PayloadDelta.between
  simp only [C11_std_apply ha.origins hc.origins, C11_std_apply ha.routerKeys hc.routerKeys,
    C11_aspa_apply ha.aspas hc.aspas]

/-- Which arms of the ASPA merge table are reachable from `construct` outputs: a key carries
`(x, y)` with `x` from the delta `a→b` and `y` from `b→c` only in the five combinations
below ("can't happen" arms: Announce·Announce, Update·Announce, Withdraw·Update,
Withdraw·Withdraw are unreachable). -/
theorem C12_aspa_reachable_arms (x y z : Option (List Nat)) (u v : List Nat × AspaAction)
    (h₁ : combH aspW aspA aspU x y = some u) (h₂ : combH aspW aspA aspU y z = some v) :
    (∃ p, u.2 = .announce ∧ v.2 = .update p) ∨ (∃ p, u.2 = .announce ∧ v.2 = .withdraw p) ∨
    (∃ p q, u.2 = .update p ∧ v.2 = .update q) ∨ (∃ p q, u.2 = .update p ∧ v.2 = .withdraw q) ∨
    (∃ p, u.2 = .withdraw p ∧ v.2 = .announce) := by
  rcases x with _ | p <;> rcases y with _ | q <;> rcases z with _ | r <;>
    simp [combH, aspW, aspA, aspU] at h₁ h₂
  all_goals grind

/-! Non-vacuity: add-then-remove, remove-then-re-add, provider flip and flip back. -/
example : stdMerge (stdConstruct [1] [1, 2]) (stdConstruct [1, 2] [1]) = stdConstruct [1] [1] := by
  simp [stdMerge, stdConstruct, keyed, mergeH, consOpt, stdMergeAct]

example : aspaMerge (aspaConstruct [(1, [7])] [(1, [8])]) (aspaConstruct [(1, [8])] [(1, [7])])
    = [] := by
  simp [aspaMerge, aspaConstruct, mergeH, consOpt, aspaMergeAct, aspaMergeTable]

end RoutinatorModel
