import RoutinatorModel.Proofs.Engine
/-!
# C03 — A publication point contributes one consistent object set

Model: `RoutinatorModel.Engine` (`Model/Engine.lean`), `processPointWith fix … reorder` =
`PubPoint::process` where `reorder` is the (run-time random) processing order of the fetched
manifest's entries and `fix = true` is the repaired code (`restart()` before falling back).

* `C03_single_version`: for **every** processing order, the point's result is either the
  fetched version (all listed files present with matching hash; payload = that of all its
  entries, up to order) or exactly the result of processing the stored version (or of an empty
  store entry when the stored copy was found inconsistent and discarded).
* `C03_abandoned_uses_stored`: if a listed file is missing or has a wrong hash, the result is
  exactly that of the stored version, for every processing order and failure position.
* `C03_order_independent`: two processing orders give the same decision, the same payload up
  to order, the same children up to order and the same stored manifest.
* `C03_unrepaired_mixes`: the code as found (`fix = false`) violates the statement on a
  two-object universe (negation witness).
-/
namespace RoutinatorModel
open Engine

/-- Payload contributed when the stored version `st` is used. -/
def Engine.storedResult (cfg : Cfg) (now : Int) (ca : CaCtx) (st : Option Stored) : PointResult :=
  processStored cfg now ca st []

theorem Engine.pointDecision_useStored_inv {cfg : Cfg} {now : Int} {ca : CaCtx} {f : Fetched}
    {st st' : Option Stored} (h : pointDecision cfg now ca f st = .useStored st') :
    st' = st ∨ st' = none := by
  unfold pointDecision at h
  split at h
  · cases h; simp
  · split at h
    · cases h; simp
    · split at h
      · cases h; simp
      · rename_i vm crl _
        have hs := collectedIsNewer_snd vm.mft st
        split at h
        · rename_i st'' hn
          cases h
          simpa [hn] using hs
        · rename_i st'' hn
          split at h
          · cases h
          · cases h
            simpa [hn] using hs

theorem Engine.pointDecision_useFetched_inv {cfg : Cfg} {now : Int} {ca : CaCtx} {f : Fetched}
    {st : Option Stored} {mf : MftFile} {vm : ValidMft} {crl : Content}
    (h : pointDecision cfg now ca f st = .useFetched mf vm crl) :
    f.mft = some mf ∧ sameManifest st mf ca = false
      ∧ validateCollected cfg now f mf = some (vm, crl)
      ∧ (collectedIsNewer vm.mft st).1 = true
      ∧ ∀ e ∈ vm.mft.entries, e.loads f.files = true := by
  unfold pointDecision at h
  split at h
  · cases h
  · rename_i mf' hm
    split at h
    · cases h
    · rename_i hs
      split at h
      · cases h
      · rename_i vm' crl' hv
        split at h
        · cases h
        · rename_i st'' hn
          split at h
          · rename_i hall
            cases h
            refine ⟨hm, by simpa using hs, hv, by simp [hn], ?_⟩
            simpa [List.all_eq_true] using hall
          · cases h

/-- **C03.** Whatever order the entries of the fetched manifest are processed in, the
publication point's result comes from a single version: the fetched one (then every listed
file was retrieved with its listed hash) or the stored one. -/
theorem C03_single_version (cfg : Cfg) (now : Int) (offer : Offer) (st : Option Stored)
    (ca : CaCtx) (reorder : List Entry → List Entry) (hperm : ∀ l, (reorder l).Perm l) :
    let f := offer.get ca.info.mft
    let r := processPointWith true cfg now (some offer) st ca reorder
    (∃ mf vm crl, f.mft = some mf ∧ validateCollected cfg now f mf = some (vm, crl)
        ∧ (∀ e ∈ vm.mft.entries, e.loads f.files = true)
        ∧ r.accepted = true
        ∧ r.items.Perm (fetchedItems cfg now ca vm f.files)
        ∧ r.kids.Perm (fetchedKids cfg now ca vm f.files))
    ∨ r = storedResult cfg now ca st
    ∨ r = storedResult cfg now ca none := by
  intro f r
  have hd := processCollectedWith_decision cfg now ca f st reorder hperm
  cases hdec : pointDecision cfg now ca f st with
  | useFetched mf vm crl =>
    rw [hdec] at hd
    obtain ⟨items, kids, objs, heq, hi, hk, _⟩ := hd
    obtain ⟨hm, _, hv, _, hl⟩ := pointDecision_useFetched_inv hdec
    left
    refine ⟨mf, vm, crl, hm, hv, hl, ?_, ?_, ?_⟩ <;>
      simp only [r, processPointWith, f, heq] <;> assumption
  | useStored st' =>
    rw [hdec] at hd
    obtain ⟨acc, heq⟩ := hd
    right
    have hr : r = storedResult cfg now ca st' := by
      simp only [r, processPointWith, f, heq, storedResult, ↓reduceIte]
    rcases pointDecision_useStored_inv hdec with rfl | rfl
    · exact Or.inl hr
    · exact Or.inr hr

/-- **C03, abandoned update.** The fetched manifest is valid and newer, but some listed file
is missing or has the wrong hash: for every processing order (hence every position at which
the failure is met) the result is exactly that of the stored version. -/
theorem C03_abandoned_uses_stored (cfg : Cfg) (now : Int) (offer : Offer) (st : Option Stored)
    (ca : CaCtx) (reorder : List Entry → List Entry) (hperm : ∀ l, (reorder l).Perm l)
    {mf : MftFile} {vm : ValidMft} {crl : Content} {st' : Option Stored}
    (hmf : (offer.get ca.info.mft).mft = some mf)
    (hsame : sameManifest st mf ca = false)
    (hv : validateCollected cfg now (offer.get ca.info.mft) mf = some (vm, crl))
    (hnew : collectedIsNewer vm.mft st = (true, st'))
    (hbad : ∃ e ∈ vm.mft.entries, e.loads (offer.get ca.info.mft).files = false) :
    processPointWith true cfg now (some offer) st ca reorder = storedResult cfg now ca st'
      ∧ (st' = st ∨ st' = none) := by
  obtain ⟨acc, hacc⟩ :=
    processCollectedWith_abandoned cfg now ca _ st reorder hperm hmf hsame hv hnew hbad
  refine ⟨by simp [processPointWith, hacc, storedResult], ?_⟩
  have := collectedIsNewer_snd vm.mft st
  simpa [hnew] using this

/-- **C03, order independence.** -/
theorem C03_order_independent (cfg : Cfg) (now : Int) (offer : Offer) (st : Option Stored)
    (ca : CaCtx) (π π' : List Entry → List Entry)
    (hπ : ∀ l, (π l).Perm l) (hπ' : ∀ l, (π' l).Perm l) :
    let r := processPointWith true cfg now (some offer) st ca π
    let r' := processPointWith true cfg now (some offer) st ca π'
    r.accepted = r'.accepted ∧ r.items.Perm r'.items ∧ r.kids.Perm r'.kids
      ∧ (r.stored.map (·.mft)) = (r'.stored.map (·.mft))
      ∧ ((r.stored.map (·.objects)).getD []).Perm ((r'.stored.map (·.objects)).getD []) := by
  intro r r'
  have hd := processCollectedWith_decision cfg now ca (offer.get ca.info.mft) st π hπ
  have hd' := processCollectedWith_decision cfg now ca (offer.get ca.info.mft) st π' hπ'
  cases hdec : pointDecision cfg now ca (offer.get ca.info.mft) st with
  | useFetched mf vm crl =>
    simp only [hdec] at hd hd'
    obtain ⟨i, k, o, heq, hi, hk, ho⟩ := hd
    obtain ⟨i', k', o', heq', hi', hk', ho'⟩ := hd'
    simp only [r, r', processPointWith, heq, heq', Option.map_some, Option.getD_some, true_and]
    exact ⟨hi.trans hi'.symm, hk.trans hk'.symm, ho.trans ho'.symm⟩
  | useStored st' =>
    simp only [hdec] at hd hd'
    obtain ⟨a, heq⟩ := hd
    obtain ⟨a', heq'⟩ := hd'
    simp only [r, r', processPointWith, heq, heq', ↓reduceIte, true_and]
    exact ⟨List.Perm.refl _, List.Perm.refl _, List.Perm.refl _⟩

/-- The executable `processPoint` (processing order taken from the collector's offer) is an
instance of the above. -/
theorem C03_processPoint (cfg : Cfg) (now : Int) (offer : Offer) (st : Option Stored) (ca : CaCtx) :
    let f := offer.get ca.info.mft
    let r := processPoint true cfg now (some offer) st ca
    (∃ mf vm crl, f.mft = some mf ∧ validateCollected cfg now f mf = some (vm, crl)
        ∧ (∀ e ∈ vm.mft.entries, e.loads f.files = true)
        ∧ r.accepted = true
        ∧ r.items.Perm (fetchedItems cfg now ca vm f.files)
        ∧ r.kids.Perm (fetchedKids cfg now ca vm f.files))
    ∨ r = storedResult cfg now ca st
    ∨ r = storedResult cfg now ca none :=
  C03_single_version cfg now offer st ca _ (applyOrder_perm _)

/-! ## Negation witness for the code as found, and non-vacuity -/

namespace C03Example
def cfg : Cfg := ⟨.reject, 32, false, false⟩
def ee (serial : Nat) : CertAttr := ⟨true, serial, 0, 1000, some 7⟩
def crlFile : File := ⟨50, .crl true 1000 []⟩
def roaA : File := ⟨51, .roa (ee 10) [64496]⟩
def roaB : File := ⟨52, .roa (ee 11) [64497]⟩
def roaC : File := ⟨53, .roa (ee 12) [64498]⟩
def ca : CaCtx := CaCtx.root ⟨0, 9, 8⟩
/-- stored version 1: CRL + ROA AS64496 -/
def mft1 : MftFile := ⟨1, some ⟨ee 1, some 0, 1, 10, 1000, [⟨0, .crl, 50, true⟩, ⟨1, .roa, 51, true⟩]⟩⟩
def stored1 : Stored := ⟨mft1, 1, 10, 1000, 9, crlFile.content, [⟨0, .crl, crlFile⟩, ⟨1, .roa, roaA⟩]⟩
/-- fetched version 2: CRL + ROA AS64497 + ROA AS64498 -/
def m2 : Mft :=
  ⟨ee 2, some 0, 2, 20, 1000, [⟨0, .crl, 50, true⟩, ⟨2, .roa, 52, true⟩, ⟨3, .roa, 53, true⟩]⟩
def mft2 : MftFile := ⟨2, some m2⟩
/-- the third listed file is missing -/
def offerBroken : Offer := [(8, ⟨some mft2, [(0, crlFile), (2, roaB)], []⟩)]
def offerComplete : Offer := [(8, ⟨some mft2, [(0, crlFile), (2, roaB), (3, roaC)], []⟩)]
end C03Example

open C03Example in
/-- **Negation witness.** Without `restart()` the abandoned update leaks into the result:
the update is abandoned (a listed file is missing), yet the payload is neither the stored
version's (`[64496]`) nor the fetched version's — it is the mixture `[64497, 64496]`. -/
theorem C03_unrepaired_mixes :
    (processPoint false cfg 100 (some offerBroken) (some stored1) ca).items = [64497, 64496]
    ∧ (storedResult cfg 100 ca (some stored1)).items = [64496]
    ∧ processPoint false cfg 100 (some offerBroken) (some stored1) ca
        ≠ storedResult cfg 100 ca (some stored1)
    ∧ processPoint true cfg 100 (some offerBroken) (some stored1) ca
        = storedResult cfg 100 ca (some stored1) := by
  refine ⟨by decide, by decide, ?_, by decide⟩
  intro h
  have : (processPoint false cfg 100 (some offerBroken) (some stored1) ca).items
      = (storedResult cfg 100 ca (some stored1)).items := by rw [h]
  revert this
  decide

open C03Example in
/-- Non-vacuity: a complete newer version is used and replaces the stored one. -/
example :
    (processPoint true cfg 100 (some offerComplete) (some stored1) ca).items = [64497, 64498]
    ∧ ((processPoint true cfg 100 (some offerComplete) (some stored1) ca).stored.map (·.number))
        = some 2 := by
  decide

open C03Example in
/-- Non-vacuity of `C03_abandoned_uses_stored`: its hypotheses hold for the broken offer. -/
example : ∃ mf vm crl st',
    (offerBroken.get ca.info.mft).mft = some mf ∧ sameManifest (some stored1) mf ca = false
    ∧ validateCollected cfg 100 (offerBroken.get ca.info.mft) mf = some (vm, crl)
    ∧ collectedIsNewer vm.mft (some stored1) = (true, st')
    ∧ ∃ e ∈ vm.mft.entries, e.loads (offerBroken.get ca.info.mft).files = false := by
  refine ⟨mft2, ⟨m2, 7, []⟩, crlFile.content, some stored1, by decide, by decide, by decide,
    by decide, ⟨3, .roa, 53, true⟩, by decide, by decide⟩

end RoutinatorModel
