import RoutinatorModel.Proofs.Http304
/-!
# C16 — HTTP 304 only when the client already has the served version

Statement (properties.jsonl): the HTTP data endpoints answer a conditional request carrying
validators they issued earlier (ETag, Last-Modified date) with 304 Not Modified only if those
validators belong to the data version being served at that moment; once the data set changes, a
client presenting the old validators receives the new data.

System: `Http304.sys v session now` (Model/Http304.lean): all interleavings (`Reach`, unbounded)
of the updater's atomic steps, arbitrary clock changes (any value at any time, also backwards, zero
or non-zero sub-second part) and requests with arbitrary conditional headers arriving at every
point of the update sequence — including between installing the data and `mark_update_done`.

The theorems hold for the **repaired** code (`created` bumped in the same write-lock section as the
data: fixes/C16-created-with-data.patch). `C16_found_304_for_old_version` is the negation witness
for the pinned tree: in the window between `update` and `mark_update_done` the ETag is already the
new version's while `created` is still the old one's, so `If-Modified-Since: <old Last-Modified>`
(with or without the old, non-matching ETag — `If-Modified-Since` is evaluated even when
`If-None-Match` is present and does not match) is answered 304 whenever the old `created` has a zero
sub-second part.

Scope: `If-None-Match: *` is excluded (`presents` requires `star = false`): it is not a validator
the server issued, and the code answers it with 304 unconditionally. The entity-tag half needs
"fewer than 2^32 data changes between issuing and presenting" (the serial in the ETag wraps).
-/
namespace RoutinatorModel
open Http304

/-- **304 only for the served version.** In every reachable state of the repaired system, every
304 response to a request that presents (a non-empty subset of) the validators of an earlier
response `e` was given while the data version of `e` was the one being served. -/
theorem C16_304_only_for_served_version (session now : Nat) (s : State)
    (hr : Reach (sys .repaired session now) s) (r : Resp) (hmem : r ∈ s.resps)
    (h304 : r.status = 304) (e : Issued) (he : e ∈ r.issuedBefore) (hp : presents r.req e)
    (hwrap : r.ver < e.ver + serialMod) : e.ver = r.ver :=
  ((inv_reach session now s hr).2 r hmem).2 h304 e he hp hwrap

/-- **Old validators get the new data.** A request presenting the validators of an earlier
response for another data version is answered 200 with the validators of the version now served. -/
theorem C16_old_validators_get_new_data (session now : Nat) (s : State)
    (hr : Reach (sys .repaired session now) s) (r : Resp) (hmem : r ∈ s.resps)
    (e : Issued) (he : e ∈ r.issuedBefore) (hp : presents r.req e)
    (hwrap : r.ver < e.ver + serialMod) (hne : e.ver ≠ r.ver) :
    r.status = 200 ∧ ∃ v, r.validators = some v ∧ v.ver = r.ver ∧ v.epoch = r.epoch := by
  obtain ⟨⟨hshape, hval⟩, hcond⟩ := (inv_reach session now s hr).2 r hmem
  have h200 : r.status = 200 := by
    rcases hshape with h | h | ⟨_, h⟩
    · exact h
    · exact absurd (hcond h e he hp hwrap) hne
    · rw [h] at he; simp at he
  exact ⟨h200, hval (by omega)⟩

/-- No data is served before the first validation completes, and a response that is not 503
carries the validators of the version it serves. -/
theorem C16_response_shape (session now : Nat) (s : State)
    (hr : Reach (sys .repaired session now) s) (r : Resp) (hmem : r ∈ s.resps) :
    (r.status = 200 ∨ r.status = 304 ∨ (r.status = 503 ∧ r.issuedBefore = [])) ∧
    (r.status ≠ 503 → ∃ v, r.validators = some v ∧ v.ver = r.ver ∧ v.epoch = r.epoch) :=
  ((inv_reach session now s hr).2 r hmem).1

/-! ### The pinned tree violates the property -/

/-- A clock value with zero sub-second part. -/
def c16T : Nat := 1700000000 * nanos

/-- Schedule: a complete first run at a whole second; a plain request (issues ETag `(session,0)`
and `Last-Modified: T`); a second run that changes the data, parked between `update` and
`mark_update_done`; a request presenting both old validators. -/
def c16Schedule (session : Nat) : List Label :=
  [.u true, .u true, .u true, .u true, .u true, .u true,
   .req { inm := [], star := false, ims := none },
   .clock (c16T + 5 * nanos),
   .u true, .u true, .u true,
   .req { inm := [(session, 0)], star := false, ims := some 1700000000 }]

/-- **Negation witness for the code as found**: a reachable state with a 304 response to a request
that presents exactly the validators of an earlier response whose data version (0) is not the one
being served (1). -/
theorem C16_found_304_for_old_version (session : Nat) :
    ∃ (s : State) (r : Resp) (e : Issued), Reach (sys .found session c16T) s ∧ r ∈ s.resps ∧
      r.status = 304 ∧ e ∈ r.issuedBefore ∧ presents r.req e ∧ r.ver < e.ver + serialMod ∧
      e.ver ≠ r.ver := by
  let e : Issued := { etag := (session, 0), lm := 1700000000, ver := 0, epoch := 1 }
  let r1 : Resp := { req := { inm := [], star := false, ims := none }, status := 200,
                     validators := some e, ver := 0, epoch := 1, issuedBefore := [] }
  let e2 : Issued := { etag := (session, 1), lm := 1700000000, ver := 1, epoch := 2 }
  let r2 : Resp := { req := { inm := [(session, 0)], star := false, ims := some 1700000000 },
                     status := 304, validators := some e2, ver := 1, epoch := 2,
                     issuedBefore := [e] }
  let s : State := { now := c16T + 5 * nanos, active := true, ver := 1, epoch := 2,
                     created := some c16T, upc := .mark, issued := [e2, e], resps := [r2, r1] }
  have hrun : (sys .found session c16T).run (sys .found session c16T).init (c16Schedule session)
      = some s := by
    simp [c16Schedule, Sys.run, sys, step, stepU, stepReq, notModified, init, bump, serialOf,
      serialMod, c16T, nanos, s, r1, r2, e, e2]
  refine ⟨s, r2, e, reach_of_run_init _ hrun, by simp [s], rfl, by simp [r2], ?_, ?_, ?_⟩
  · refine ⟨rfl, ?_, ?_⟩
    · intro t ht; simp [r2] at ht; simp [ht, e]
    · intro d hd; simp [r2] at hd; simp [← hd, e]
  · simp [r2, e, serialMod]
  · simp [r2, e]

/-- The same schedule on the repaired system answers 200 with the new validators: the theorems'
hypotheses are satisfiable on a non-trivial run and the repair removes the witness. -/
example :
    ((sys .repaired 7 c16T).run (init c16T) (c16Schedule 7)).map
      (fun s => s.resps.map (fun r => (r.status, r.ver, r.validators.map (·.etag))))
      = some [(200, 1, some (7, 1)), (200, 0, some (7, 0))] := by
  decide

/-- Non-vacuity of `C16_304_only_for_served_version`: a legitimate 304 (same version presented). -/
example :
    ((sys .repaired 7 c16T).run (init c16T)
      [.u true, .u true, .u true, .u true, .u true, .u true,
       .req { inm := [], star := false, ims := none },
       .req { inm := [(7, 0)], star := false, ims := some 1700000000 }]).map
      (fun s => s.resps.map (fun r => (r.status, r.ver)))
      = some [(304, 0), (200, 0)] := by
  decide

end RoutinatorModel
