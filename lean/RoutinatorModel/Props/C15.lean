import RoutinatorModel.Proofs.ServerSched
import RoutinatorModel.Model.History
/-!
# C15 — Responses pair each serial with its own data

Statement (properties.jsonl): under any interleaving of a validation result being installed and
concurrent RTR or HTTP queries, every response carries a (session, serial) together with exactly
the data set or change set of that serial; no response mixes the new serial with old data or vice
versa. Before the first validation completes, no data is served.

System: `ServerSched.sys keep` (Model/ServerSched.lean): all interleavings (`Reach`, unbounded: any
number of runs, any data sets, any `keep`) of the updater's atomic steps with atomic read steps of
every request kind. `dataAt log serial` is the data set that was installed with `serial` (ghost
log). Every response is judged against the log *of the state it is found in* — the log only grows
and never redefines a serial (`C15_log_stable`), so this is the same as judging it at the moment it
was computed.

Partial (as planned in DESIGN.md §8): the steps are atomic because each is one critical section of
std's `RwLock` — true parallelism inside the lock implementation is not modelled; the `rpki` RTR
connection task (which turns `ready`/`full`/`diff`/`notify` results into PDUs) is not modelled; the
session is one value (`sameSession` flags of the requests); serials are natural numbers (wrapped
comparison is C13); that a merged change set really transforms its `from` data into its `to` data
is C11/C12.
-/
namespace RoutinatorModel
open ServerSched

/-- The per-state invariant: well-formed history, every response so far is right. -/
def C15Inv (s : State) : Prop :=
  WF s ∧ ∀ r ∈ s.resps, r.payload.Ok s.log ∧ (r.payload.carriesData = true → r.active = true)

theorem C15_respond_ok (s : State) (k : Kind) (h : WF s) :
    (respond s k).Ok s.log ∧ ((respond s k).carriesData = true → s.active = true) := by
  have hcur : s.active = true → dataAt s.log s.serial = some s.cur :=
    fun ha => dataAt_head _ _ _ (h.head ha)
  cases hact : s.active with
  | false =>
    cases k <;> simp [respond, hact, Payload.Ok, Payload.carriesData]
  | true =>
    have hc := hcur hact
    have hds := fun c => deltaSince_ok s c h hact
    cases k with
    | httpData => simp [respond, hact, Payload.Ok, hc]
    | httpDeltaNoVersion => simp [respond, hact, Payload.Ok, hc]
    | httpNotifyAnswer => simp [respond, Payload.Ok]
    | rtrReady => simp [respond, hact, Payload.Ok]
    | rtrFull => simp [respond, hact, Payload.Ok, hc]
    | rtrNotify => simp [respond, Payload.Ok]
    | httpDelta same c =>
      simp only [respond, hact, Bool.not_true, Bool.false_eq_true, ↓reduceIte]
      cases same with
      | false => simp [Payload.Ok, hc]
      | true =>
        simp only [↓reduceIte]
        cases hd : deltaSince s c with
        | none => simp [Payload.Ok, hc]
        | some o =>
          cases o with
          | none =>
            have := (hds c).2 hd
            simp [Payload.Ok, this, hc]
          | some ft =>
            obtain ⟨f, t⟩ := ft
            obtain ⟨h1, h2, _⟩ := (hds c).1 f t hd
            simp [Payload.Ok, h1, h2, hc]
    | rtrDiff same c =>
      simp only [respond, hact, Bool.not_true, Bool.false_eq_true, ↓reduceIte]
      cases same with
      | false => simp [Payload.Ok]
      | true =>
        simp only [↓reduceIte]
        cases hd : deltaSince s c with
        | none => simp [Payload.Ok]
        | some o =>
          cases o with
          | none =>
            have := (hds c).2 hd
            simp [Payload.Ok, this, hc]
          | some ft =>
            obtain ⟨f, t⟩ := ft
            obtain ⟨h1, h2, _⟩ := (hds c).1 f t hd
            simp [Payload.Ok, h1, h2, hc]

/-- The log never redefines a serial: what was right stays right when a version is pushed. -/
theorem C15_log_stable (log : List (Nat × Nat)) (k d : Nat) (hl : LogLe log k) (p : Payload)
    (h : p.Ok log) : p.Ok ((k + 1, d) :: log) := by
  cases p with
  | none => trivial
  | version _ => trivial
  | refused => trivial
  | full serial data => exact dataAt_push log k d serial data hl h
  | delta f t fd td => exact ⟨dataAt_push log k d f fd hl h.1, dataAt_push log k d t td hl h.2⟩
  | same c serial =>
    refine ⟨h.1, ?_⟩
    have h2 := h.2
    cases hx : dataAt log serial with
    | none => simp [hx] at h2
    | some x => simp [dataAt_push log k d serial x hl hx]

theorem C15_inv_step (s s' : State) (l : Label) (h : C15Inv s) (hs : step s l = some s') :
    C15Inv s' := by
  refine ⟨wf_step s s' l h.1 hs, ?_⟩
  obtain ⟨hwf, hr⟩ := h
  cases l with
  | req k =>
    simp only [step, Option.some.injEq] at hs; subst hs
    intro r hm
    simp only [List.mem_cons] at hm
    rcases hm with rfl | hm
    · exact C15_respond_ok s k hwf
    · exact hr r hm
  | u d =>
    simp only [step, stepU] at hs
    split at hs
    · simp only [Option.some.injEq] at hs; subst hs; exact hr
    · simp only [Option.some.injEq] at hs; subst hs; exact hr
    · simp only [Option.some.injEq] at hs; subst hs; exact hr
    · split at hs
      · -- first install: nothing before it carried data
        rename_i hna
        have hna : s.active = false := by simpa using hna
        simp only [Option.some.injEq] at hs; subst hs
        intro r hm
        obtain ⟨hok, hcd⟩ := hr r hm
        refine ⟨?_, hcd⟩
        -- all earlier responses were computed while inactive … but `active` of a response is
        -- recorded, so use the shape of `Ok` on the empty log
        have hlog : s.log = [] := (hwf.inactive hna).1
        rw [hlog] at hok
        cases hp : r.payload with
        | none => trivial
        | version _ => trivial
        | refused => trivial
        | full serial data => rw [hp] at hok; simp [Payload.Ok, dataAt] at hok
        | delta a b c e => rw [hp] at hok; simp [Payload.Ok, dataAt] at hok
        | same a b => rw [hp] at hok; simp [Payload.Ok, dataAt] at hok
      · split at hs
        · simp only [Option.some.injEq] at hs; subst hs; exact hr
        · simp only [Option.some.injEq] at hs; subst hs
          intro r hm
          obtain ⟨hok, hcd⟩ := hr r hm
          exact ⟨C15_log_stable s.log s.serial d hwf.le r.payload hok, hcd⟩
    · simp only [Option.some.injEq] at hs; subst hs; exact hr
    · simp only [Option.some.injEq] at hs; subst hs; exact hr

theorem C15_inv_init (keep : Nat) : C15Inv (init keep) :=
  ⟨wf_init keep, by intro r hm; simp [init] at hm⟩

theorem C15_inv_reach (keep : Nat) (s : State) (hr : Reach (sys keep) s) : C15Inv s :=
  inv_of_inductive (S := sys keep) C15Inv (C15_inv_init keep)
    (fun s l s' h hs => C15_inv_step s s' l h hs) s hr

/-- **Every response pairs its serial with that serial's data**, in every reachable state, for
every interleaving: a full data set is the one installed with its serial; a change set goes from
the data of the client's serial to the data of the announced serial; an empty change set is only
given to a client that is at the served serial. -/
theorem C15_responses_pair_serial_with_its_data (keep : Nat) (s : State)
    (hr : Reach (sys keep) s) (r : Resp) (hm : r ∈ s.resps) : r.payload.Ok s.log :=
  ((C15_inv_reach keep s hr).2 r hm).1

/-- **No data before the first validation completes.** -/
theorem C15_no_data_before_first_update (keep : Nat) (s : State)
    (hr : Reach (sys keep) s) (r : Resp) (hm : r ∈ s.resps)
    (hd : r.payload.carriesData = true) : r.active = true :=
  ((C15_inv_reach keep s hr).2 r hm).2 hd

/-- The served pair itself: whenever there is a snapshot, the serial denotes the current data. -/
theorem C15_current_is_data_of_serial (keep : Nat) (s : State) (hr : Reach (sys keep) s)
    (ha : s.active = true) : dataAt s.log s.serial = some s.cur :=
  dataAt_head _ _ _ ((C15_inv_reach keep s hr).1.head ha)

/-- One `push_delta` rule: the retention rule of this model is the one of `Model/History.lean`
(C13/C14, the repaired `len >= max(keep, 1)`), under any abstraction `f` of the real deltas. -/
theorem C15_pushDelta_agrees_with_history_model (h : History) (d : PayloadDelta)
    (f : PayloadDelta → Delta) :
    (h.pushDelta d).deltas.map f = pushDelta h.keep (h.deltas.map f) (f d) := by
  unfold History.pushDelta ServerSched.pushDelta
  simp only [List.map_cons, List.length_map]
  split <;> simp [List.map_dropLast]

/-- Non-vacuity with `keep = 0` (one delta is retained all the same): the newest delta serves a
client one version behind; older clients get a reset / refusal. -/
example :
    ((sys 0).run (init 0)
      [.u 10, .u 10, .u 10, .u 10, .u 10, .u 10, .u 11, .u 11, .u 11, .u 11, .u 11,
       .u 12, .u 12, .u 12, .u 12, .req (.httpDelta true 1), .req (.rtrDiff true 0),
       .req (.httpDelta true 0), .req .httpData]).map
        (fun s => (s.deltas.length, s.resps.map (·.payload)))
      = some (1, [.full 2 12, .full 2 12, .refused, .delta 1 2 11 12]) := by
  decide

/-- Non-vacuity: requests before the first install (no data), between runs and in the middle of
runs, over four versions with `keep = 3`: full sets, a one-step change set, a merged change set
(client at serial 1, served serial 3), an empty one, refusals (unknown serial, foreign session). -/
example :
    ((sys 3).run (init 3)
      [.req .httpData, .req (.rtrDiff true 0), .u 10, .u 10, .u 10, .req .httpData, .u 10,
       .req .httpData, .u 10, .u 10,
       .u 11, .u 11, .u 11, .u 11, .req (.rtrDiff true 0), .u 11, .u 11,
       .u 12, .u 12, .u 12, .req (.httpDelta true 0), .u 12, .req (.httpDelta true 0), .u 12, .u 12,
       .u 13, .u 13, .u 13, .u 13, .req (.httpDelta true 1), .req (.rtrDiff true 3),
       .req (.rtrDiff false 3), .req (.rtrDiff true 0), .req .rtrFull]).map
        (fun s => s.resps.map (·.payload))
      = some [.full 3 13, .delta 0 3 10 13, .refused, .same 3 3, .delta 1 3 11 13, .delta 0 2 10 12,
              .delta 0 2 10 12, .delta 0 1 10 11, .full 0 10, .none, .none, .none] := by
  decide

end RoutinatorModel
