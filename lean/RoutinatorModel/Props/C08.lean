import RoutinatorModel.Proofs.SnapshotOrder
import RoutinatorModel.Proofs.Interval
/-!
# C08 — The unsafe-VRP policy filters exactly the overlapping VRPs

Model: `Model/Snapshot.lean` (`Report.cancel` = `RejectedResourcesBuilder::extend_from_cert`,
`keepPrefix` = `RejectedResources::keep_prefix`, the policy switch in `processOrigin`).
Address blocks and prefixes are integer intervals: a block is `[min, max]`, a prefix is
`[minAddr, maxAddr]` (`Prefix::min/max` of `rpki::repository::resources`).

`Unsafe certs p` (`Proofs/SnapshotSpec.lean`): some rejected CA certificate has, in `p`'s
address family, a block that is not a whole-family `/0` prefix and intersects `p`.

The unsafe filter only applies to VRPs from published objects; SLURM assertions are added
afterwards (C09), so the statements exclude locally asserted origins where necessary.
-/
namespace RoutinatorModel

/-- Under `reject`, no served VRP from published objects overlaps a non-`/0` block of a
rejected CA: every served origin that is unsafe is a local assertion. -/
theorem C08_reject_no_overlap (s : Settings) (κo : Origin → Nat) (κk : RouterKey → Nat)
    (points : List RawPoint) (certs : List CertResources) (e : Exceptions) (o : Origin)
    (hpol : s.unsafeVrps = .reject)
    (hserved : o ∈ (served s κo κk points certs e).origins)
    (hlocal : o ∉ e.originAssertions) :
    ¬ Unsafe certs o.pfx := by
  rw [served_eq] at hserved
  simp only [mem_sortBy, mem_originLane] at hserved
  rcases hserved with ⟨_, h, _⟩ | h
  · intro hu; exact h ⟨hpol, hu⟩
  · exact absurd h hlocal

/-- The same, spelled out on intervals: no block of a rejected certificate in the VRP's
family, other than `/0` prefixes, shares an address with the VRP's prefix. -/
theorem C08_reject_no_overlap_blocks (s : Settings) (κo : Origin → Nat) (κk : RouterKey → Nat)
    (points : List RawPoint) (certs : List CertResources) (e : Exceptions) (o : Origin)
    (hpol : s.unsafeVrps = .reject)
    (hserved : o ∈ (served s κo κk points certs e).origins)
    (hlocal : o ∉ e.originAssertions)
    (c : CertResources) (hc : c ∈ certs) (b : IpBlock) (hb : b ∈ (if o.pfx.v4 then c.v4 else c.v6))
    (hz : b.isSlashZero = false) :
    ¬ ∃ x, (b.min ≤ x ∧ x ≤ b.max) ∧ (o.pfx.minAddr ≤ x ∧ x ≤ o.pfx.maxAddr) := by
  have hu := C08_reject_no_overlap s κo κk points certs e o hpol hserved hlocal
  rintro ⟨x, ⟨h1, h2⟩, h3, h4⟩
  apply hu
  refine ⟨c, hc, b, hb, hz, ?_⟩
  unfold IpBlock.intersectsPrefix
  simp only [Bool.and_eq_true, decide_eq_true_iff]
  omega

/-- `Block::intersects` is interval intersection. -/
theorem C08_intersects_iff (b : IpBlock) (p : Prefix) (hb : b.min ≤ b.max) :
    b.intersectsPrefix p = true ↔
      ∃ x, (b.min ≤ x ∧ x ≤ b.max) ∧ (p.minAddr ≤ x ∧ x ≤ p.maxAddr) := by
  have hp : p.minAddr ≤ p.maxAddr := by
    unfold Prefix.minAddr Prefix.maxAddr
    rw [BitVec.toNat_or]
    exact Nat.left_le_or
  unfold IpBlock.intersectsPrefix
  simp only [Bool.and_eq_true, decide_eq_true_iff]
  constructor
  · rintro ⟨h1, h2⟩
    by_cases h : b.min ≤ p.minAddr
    · exact ⟨p.minAddr, ⟨h, h2⟩, Nat.le_refl _, hp⟩
    · exact ⟨b.min, ⟨Nat.le_refl _, hb⟩, by omega, h1⟩
  · rintro ⟨x, ⟨h1, h2⟩, h3, h4⟩
    omega

/-- The interval of a (well-formed) prefix is the set of addresses starting with its bits, so
"intersects" means "shares an address with the prefix" in the sense of C20's bit strings. -/
theorem C08_prefix_interval {p : Prefix} (hp : p.WF) (x : Nat) (hx : x < 2 ^ 128) :
    (p.minAddr ≤ x ∧ x ≤ p.maxAddr) ↔
      ∀ i, i < p.len → (BitVec.ofNat 128 x).getMsbD i = p.bit i :=
  Prefix.mem_interval_iff hp x hx

/-- With `warn` or `accept` the filter removes nothing: the snapshot is the one of a run in
which no publication point was rejected. -/
theorem C08_warn_accept_identity (s : Settings) (κo : Origin → Nat) (κk : RouterKey → Nat)
    (points : List RawPoint) (certs : List CertResources) (e : Exceptions)
    (hpol : s.unsafeVrps ≠ .reject) :
    served s κo κk points certs e = served s κo κk points [] e := by
  rw [served_eq, served_eq]
  have : keepOrigin (rejectedBlocks certs) s.unsafeVrps e = keepOrigin (rejectedBlocks []) s.unsafeVrps e := by
    funext o
    unfold keepOrigin
    cases h : s.unsafeVrps
    · exact absurd h hpol
    · have : (FilterPolicy.warn == FilterPolicy.reject) = false := by decide
      simp [this]
    · have : (FilterPolicy.accept == FilterPolicy.reject) = false := by decide
      simp [this]
  unfold originLane
  rw [this]

/-- A VRP that is disjoint from all rejected (non-`/0`) blocks is never removed by this filter,
whatever the policy. -/
theorem C08_disjoint_never_removed (s : Settings) (κo : Origin → Nat) (κk : RouterKey → Nat)
    (points : List RawPoint) (certs : List CertResources) (e : Exceptions) (o : Origin)
    (hsafe : ¬ Unsafe certs o.pfx) :
    o ∈ (served s κo κk points certs e).origins ↔ o ∈ (served s κo κk points [] e).origins := by
  rw [served_eq, served_eq]
  simp only [mem_sortBy, mem_originLane]
  have h0 : ¬ Unsafe [] o.pfx := by rintro ⟨c, hc, _⟩; cases hc
  simp [hsafe, h0]

/-- Under `reject` exactly the unsafe published VRPs are removed: compared with the run
without rejections, an origin is missing iff it is unsafe (and not locally asserted). -/
theorem C08_reject_removes_exactly (s : Settings) (κo : Origin → Nat) (κk : RouterKey → Nat)
    (points : List RawPoint) (certs : List CertResources) (e : Exceptions) (o : Origin)
    (hpol : s.unsafeVrps = .reject) :
    o ∈ (served s κo κk points certs e).origins ↔
      o ∈ (served s κo κk points [] e).origins ∧ (Unsafe certs o.pfx → o ∈ e.originAssertions) := by
  rw [served_eq, served_eq]
  simp only [mem_sortBy, mem_originLane]
  have h0 : ¬ Unsafe [] o.pfx := by rintro ⟨c, hc, _⟩; cases hc
  simp only [hpol, true_and, h0, not_false_eq_true]
  by_cases hu : Unsafe certs o.pfx <;> by_cases ha : o ∈ e.originAssertions <;> simp [hu, ha]

/-- Whole-family blocks of a rejected certificate are ignored; everything else counts. -/
theorem C08_rejected_blocks (s : Settings) (points : List RawPoint) (certs : List CertResources)
    (v4 : Bool) (b : IpBlock) :
    (v4, b) ∈ (Report.ofRun s points certs).rejected ↔
      ∃ c ∈ certs, b ∈ (if v4 then c.v4 else c.v6) ∧ b.prefixLen ≠ some 0 := by
  rw [ofRun_eq]
  simp only [mem_rejectedBlocks, IpBlock.isSlashZero]
  constructor
  · rintro ⟨c, hc, hb, hz⟩; exact ⟨c, hc, hb, by simpa using hz⟩
  · rintro ⟨c, hc, hb, hz⟩; exact ⟨c, hc, hb, by simpa using hz⟩

/-! ### Non-vacuity -/

section Examples
private def q10_1_16 : Prefix := ⟨true, 16, 0x0a010000#128 <<< 96⟩
private def q10_2_16 : Prefix := ⟨true, 16, 0x0a020000#128 <<< 96⟩
private def q10_1_1_24 : Prefix := ⟨true, 24, 0x0a010100#128 <<< 96⟩
private def cfg (p : FilterPolicy) : Settings := ⟨false, false, none, none, p⟩
private def pts : List RawPoint :=
  [⟨[[⟨q10_1_1_24, none, 1⟩, ⟨q10_2_16, none, 1⟩]], [], []⟩]
private def rejected : List CertResources :=
  [⟨[⟨q10_1_16.minAddr, q10_1_16.maxAddr, some 16⟩, ⟨0, 2 ^ 128 - 1, some 0⟩], []⟩]
private def noExc : Exceptions := ⟨[], [], [], []⟩
private def rk (o : Origin) : Nat := o.pfx.bits.toNat

example : (served (cfg .reject) rk (fun _ => 0) pts rejected noExc).origins = [⟨q10_2_16, 16, 1⟩] := by
  decide
example : (served (cfg .warn) rk (fun _ => 0) pts rejected noExc).origins.length = 2 := by decide
example : Unsafe rejected q10_1_1_24 := by
  refine ⟨_, List.mem_cons_self, ⟨q10_1_16.minAddr, q10_1_16.maxAddr, some 16⟩, ?_, ?_, ?_⟩
  · simp [q10_1_1_24]
  · decide
  · decide
-- the adjacent /16 does not intersect
example : (⟨q10_1_16.minAddr, q10_1_16.maxAddr, some 16⟩ : IpBlock).intersectsPrefix q10_2_16 = false := by
  decide
end Examples

end RoutinatorModel
