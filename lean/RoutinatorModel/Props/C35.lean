import RoutinatorModel.Proofs.Config
import RoutinatorModel.Proofs.ConfigPinned
import RoutinatorModel.Drv.Config
/-!
# C35 — Printed configuration reads back identically

*"For every configuration Routinator accepts from the command line and the config file,
the file printed by `routinator config` is accepted as a config file and yields an
identical configuration."*

Model: `Model/Config.lean`, generic over a `Table` extracted from `src/config.rs` on every
run (`Generated/ConfigKeys.lean`).  Structure of the argument:

* `Good t env c` — every field holds a value in the *round-trippable domain* of its row
  (inside the reader's range, representable as a TOML integer, canonical string, …);
* `C35_roundtrip` — if the decidable check `tableOk t` holds, every `Good` configuration
  prints to a document that is accepted and reads back as the same configuration (the
  documented command-line-only fields `fresh` / `config_file` excepted);
* `C35_default_good`, `C35_file_good`, `C35_cli_good_*` — everything the defaults, the file
  reader and the command line produce is `Good`: so `Good` covers "every configuration
  Routinator accepts";
* `C35_table_ok` — the per-run obligation: the table extracted from the *current* source
  passes `tableOk` (`decide +kernel`).  Deleting a printed key, printing in another unit,
  reading with another type or range, a `Display` literal that does not parse back … make
  the extracted table fail this check.

Known finding (`int-above-i64max`): the `u64`/`usize` options accept numbers above
`i64::MAX`, which `to_toml` clamps.  The full-strength statement is
`C35_accepted_roundtrip_full` (proved, but its hypothesis `tableOkFull` is false for the
pinned table: `C35_clamp_witness`); the `_partial` theorems assume the numbers
on the command line fit a TOML integer (`argsSmall`).
-/
namespace RoutinatorModel
open RoutinatorModel.Config RoutinatorModel.Drv

/-! ## Generic theorems (any table) -/

/-- **Round trip.** -/
theorem C35_roundtrip {t : Table} {env : Env} (hok : tableOk t = true) {c : Config}
    (hg : Good t env c) : read t env (print t c) = some (reset t env c) := read_print hok hg

/-- Reading back only changes the documented command-line-only fields. -/
theorem C35_reset_only_cli_only {t : Table} {env : Env} (hok : tableOk t = true) {r : Row}
    (hr : r ∈ t.rows) (hn : r.field ∉ t.cliOnly) {v : FVal} (hg : goodVal t env r v = true) :
    resetVal env r v = v := by
  have hrow := (tableOk_rows hok r hr).1
  have hn' : t.cliOnly.contains r.field = false := by simpa using hn
  unfold resetVal
  unfold goodVal at hg
  unfold rowOk at hrow
  split <;> rename_i hk
  · simp only [hk, hn', Bool.false_or, beq_iff_eq] at hg
    simp [hg]
  · simp [hk] at hrow
    exact absurd hrow.2 hn
  · rfl

/-- The default configuration is round-trippable (part of the environment check). -/
theorem C35_default_good {t : Table} {env : Env} (he : EnvOk t env) :
    Good t env (defaultConfig t env) := (envGood_parts he.good).2.2.1

/-- Whatever the config file reader accepts is round-trippable. -/
theorem C35_file_good {t : Table} {env : Env} (hok : tableOk t = true) (he : EnvOk t env)
    {d : Doc} {c : Config} (h : read t env d = some c) : Good t env c := good_of_read hok he h

/-- Command line options whose numbers fit a TOML integer keep it round-trippable. -/
theorem C35_cli_good_partial {t : Table} {env : Env} (hok : tableOk t = true) (he : EnvOk t env)
    {args : List Arg} (hs : argsSmall args = true) {c c' : Config} (hg : Good t env c)
    (h : applyArgs t env c args = some c') : Good t env c' := good_applyArgs_partial hok he hs hg h

/-- Full strength (needs `tableOkFull`: no option accepts a number above `i64::MAX`). -/
theorem C35_cli_good_full {t : Table} {env : Env} (hok : tableOkFull t = true) (he : EnvOk t env)
    {args : List Arg} {c c' : Config} (hg : Good t env c)
    (h : applyArgs t env c args = some c') : Good t env c' := good_applyArgs_full hok he hg h

/-- The base configuration: the defaults, or what the config file yields. -/
def baseConfig (t : Table) (env : Env) : Option Doc → Option Config
  | none => some (defaultConfig t env)
  | some d => read t env d

/-- **C35 (partial: numbers on the command line ≤ `i64::MAX`).** Every configuration obtained
from the defaults or an accepted config file by an accepted command line prints to a file
that is accepted and yields the same configuration up to the command-line-only fields. -/
theorem C35_accepted_roundtrip_partial {t : Table} {env : Env} (hok : tableOk t = true)
    (he : EnvOk t env) (file : Option Doc) (args : List Arg) (hs : argsSmall args = true)
    {c0 c1 : Config} (hbase : baseConfig t env file = some c0)
    (happly : applyArgs t env c0 args = some c1) :
    read t env (print t c1) = some (reset t env c1) := by
  have hg0 : Good t env c0 := by
    cases file with
    | none => simp only [baseConfig, Option.some.injEq] at hbase; subst hbase; exact C35_default_good he
    | some d => exact good_of_read hok he hbase
  exact read_print hok (good_applyArgs_partial hok he hs hg0 happly)

/-- **C35 at full strength** (no restriction on the command line), for tables in which no
option accepts a number a TOML integer cannot hold.
Not instantiable while the known finding stands: see `C35_clamp_witness`. -/
theorem C35_accepted_roundtrip_full {t : Table} {env : Env} (hok : tableOkFull t = true)
    (he : EnvOk t env) (file : Option Doc) (args : List Arg)
    {c0 c1 : Config} (hbase : baseConfig t env file = some c0)
    (happly : applyArgs t env c0 args = some c1) :
    read t env (print t c1) = some (reset t env c1) := by
  have hok' : tableOk t = true := by
    simp only [tableOkFull, Bool.and_eq_true] at hok; exact hok.1
  have hg0 : Good t env c0 := by
    cases file with
    | none => simp only [baseConfig, Option.some.injEq] at hbase; subst hbase; exact C35_default_good he
    | some d => exact good_of_read hok' he hbase
  exact read_print hok' (good_applyArgs_full hok he hg0 happly)

/-! ## The per-run obligation on the extracted table -/

set_option maxRecDepth 100000 in
/-- The table extracted from the current `src/config.rs` passes the check. -/
theorem C35_table_ok : tableOk c35Table = true := by decide +kernel

/-- The only fields exempted from the comparison are `config_file` and `fresh`
(`c35Table.cliOnly` is computed from these two names, not extracted). -/
theorem C35_cli_only_fields :
    c35Table.cliOnly.map (fun i => Generated.configNames.getD i []) = [cfgFile, fresh] := by
  decide +kernel

/-- C35 for the current source, up to the known finding. -/
theorem C35_current_source_partial {env : Env} (he : EnvOk c35Table env) (file : Option Doc)
    (args : List Arg) (hs : argsSmall args = true) {c0 c1 : Config}
    (hbase : baseConfig c35Table env file = some c0)
    (happly : applyArgs c35Table env c0 args = some c1) :
    read c35Table env (print c35Table c1) = some (reset c35Table env c1) :=
  C35_accepted_roundtrip_partial C35_table_ok he file args hs hbase happly

/-! ## Non-vacuity and negation witnesses -/

/-- An environment for the examples: every string is canonical for the opaque types. -/
def nominalEnv : Env where
  canon := fun _ s => some s
  cur := [47, 99, 117, 114]
  cfgPath := [47, 104, 47, 99, 111, 110, 102]
  cfgDir := [47, 104]
  dyn := fun i => if i == 2 then .nat 4 else .str [47, 104, 47, 120]

theorem nominalEnv_ok (t : Table) (h : envGood t nominalEnv = true) : EnvOk t nominalEnv :=
  ⟨h, fun _ _ _ h => by simp only [nominalEnv, Option.some.injEq] at h ⊢⟩

set_option maxRecDepth 100000 in
/-- The hypotheses are satisfiable: the nominal environment is good for the current table
(so the default configuration is `Good`). -/
theorem C35_env_nonvacuous : envGood c35Table nominalEnv = true := by decide +kernel

/-- Does the configuration produced by `args` from the defaults survive print + read? -/
def roundtrips (t : Table) (env : Env) (args : List Arg) : Bool :=
  match applyArgs t env (defaultConfig t env) args with
  | some c1 => read t env (print t c1) == some (reset t env c1)
  | none => true

def optId (names : List Str) (s : Str) : Nat := (indexOf? names s).getD 100000

def oNoRirTals : Str := [45, 45, 110, 111, 45, 114, 105, 114, 45, 116, 97, 108, 115]
def oTal : Str := [45, 45, 116, 97, 108]
def oHistory : Str := [45, 45, 104, 105, 115, 116, 111, 114, 121]
def oSyslog : Str := [45, 45, 115, 121, 115, 108, 111, 103]
def oSyslogFacility : Str :=
  [45, 45, 115, 121, 115, 108, 111, 103, 45, 102, 97, 99, 105, 108, 105, 116, 121]
def oRefresh : Str := [45, 45, 114, 101, 102, 114, 101, 115, 104]
def sClockDaemon : Str := [99, 108, 111, 99, 107, 95, 100, 97, 101, 109, 111, 110]
def sFoo : Str := [102, 111, 111]

/-- The table of the pinned, unrepaired source. -/
def pinnedTable : Table := { Pinned.configTable with cliOnly := cliOnlyIds Pinned.configNames }

def pArg (o : Str) (v : AVal) : Arg := ⟨optId Pinned.configNames o, v⟩
def cArg (o : Str) (v : AVal) : Arg := ⟨optId Generated.configNames o, v⟩

set_option maxRecDepth 100000 in
/-- The pinned source fails the table check … -/
theorem C35_pinned_table_not_ok : tableOk pinnedTable = false := by decide +kernel

set_option maxRecDepth 100000 in
/-- … `--no-rir-tals` and `--tal` are lost (keys not printed), -/
theorem C35_pinned_unprinted_keys_witness :
    roundtrips pinnedTable nominalEnv [pArg oNoRirTals .flag] = false
    ∧ roundtrips pinnedTable nominalEnv [pArg oTal (.str sFoo)] = false := by decide +kernel

set_option maxRecDepth 100000 in
/-- … `--history 65536` prints a file the reader refuses (range mismatch), -/
theorem C35_pinned_range_witness :
    roundtrips pinnedTable nominalEnv [pArg oHistory (.nat 65536)] = false := by decide +kernel

set_option maxRecDepth 100000 in
/-- … and `--syslog --syslog-facility clock_daemon` prints `clockdaemon`, which is refused. -/
theorem C35_pinned_facility_witness :
    roundtrips pinnedTable nominalEnv
      [pArg oSyslog .flag, pArg oSyslogFacility (.str sClockDaemon)] = false := by decide +kernel

set_option maxRecDepth 100000 in
/-- The same command lines round-trip on the current (repaired) source. -/
theorem C35_repaired_witnesses :
    roundtrips c35Table nominalEnv [cArg oNoRirTals .flag] = true
    ∧ roundtrips c35Table nominalEnv [cArg oTal (.str sFoo)] = true
    ∧ roundtrips c35Table nominalEnv [cArg oHistory (.nat 65535)] = true
    ∧ applyArgs c35Table nominalEnv (defaultConfig c35Table nominalEnv)
        [cArg oHistory (.nat 65536)] = none
    ∧ roundtrips c35Table nominalEnv
        [cArg oSyslog .flag, cArg oSyslogFacility (.str sClockDaemon)] = true := by
  decide +kernel

set_option maxRecDepth 100000 in
/-- Known finding `int-above-i64max`, on the pinned table: `--refresh 2^63` is accepted and
printed as `i64::MAX`; so the hypothesis `argsSmall` of the partial theorem cannot be dropped
and the full-strength check fails. -/
theorem C35_clamp_witness :
    roundtrips pinnedTable nominalEnv [pArg oRefresh (.nat 9223372036854775808)] = false
    ∧ roundtrips pinnedTable nominalEnv [pArg oRefresh (.nat 9223372036854775807)] = true
    ∧ tableOkFull pinnedTable = false := by decide +kernel

end RoutinatorModel
