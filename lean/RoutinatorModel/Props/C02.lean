import RoutinatorModel.Proofs.Engine2Complete
/-!
# C02 — Valid payload is never silently dropped

Model: as for C01 (`Model/Engine.lean` through `Model/Engine2.lean`).

* `C02_object_never_fails` — `process_object` only ever appends: it never fails the
  publication point, never removes what siblings contributed, and a valid object contributes
  everything it `Yields`, at whatever position it is processed.
* `C02_sibling_independence` — the payload of a list of objects is the concatenation of the
  payloads of the single objects: replacing one object (say by a faulty one that yields
  nothing) changes exactly that object's part.
* `C02_point_complete` — the payload of a publication point is exactly what the objects of
  the version it uses yield; every certified child CA becomes a task.
* `C02_uses_fetched` — the version used is the one offered by the collector whenever that
  differs from the stored one, validates, is newer and complete (for every processing order).
* `C02_walk_complete` — every task created is visited (the fuel never runs out), every visit
  is the result of `processPointX`, every item of every visit is in the payload of the run,
  every TAL for which a valid TA certificate carrying its key can be downloaded is processed.
* `C02_served_unless_filtered` — under `unsafe-vrps = reject` an item is served unless it
  overlaps the resources of a rejected CA.
-/
namespace RoutinatorModel
open Engine

/-- **C02, objects.** Processing an object appends to what was gathered before — it cannot
fail the point or remove a sibling's contribution — and a valid object contributes all its
items whatever was gathered before. -/
theorem C02_object_never_fails (cfg : Cfg) (now : Int) (ca : CaCtx) (vm : ValidMft) (ext : Ext)
    (content : Content) (acc : List Item) (kids : List CaCtx) :
    (∃ items newKids, processObject cfg now ca vm ext content acc kids
        = (acc ++ items, kids ++ newKids))
    ∧ (∀ i, Yields cfg now vm ext content i →
        i ∈ (processObject cfg now ca vm ext content acc kids).1)
    ∧ (∀ c info, Issues cfg now ca vm ext content c info →
        ca.child info ∈ (processObject cfg now ca vm ext content acc kids).2) := by
  rw [processObject_eq]
  refine ⟨⟨_, _, rfl⟩, ?_, ?_⟩
  · intro i hy
    exact List.mem_append_right _ (hy.mem_objItems ca)
  · intro c info hi
    exact List.mem_append_right _ hi.mem_objKids

/-- **C02, sibling independence.** What a list of objects contributes is the concatenation
of what each contributes alone; in particular a faulty object (one that yields nothing)
removes only its own payload: the result is that of the list without it. -/
theorem C02_sibling_independence (cfg : Cfg) (now : Int) (ca : CaCtx) (vm : ValidMft)
    (pre post : List StoredObj) (o : StoredObj) :
    (runStoredObjects cfg now ca vm (pre ++ o :: post) [] []).1
      = (runStoredObjects cfg now ca vm pre [] []).1
        ++ objItems cfg now ca vm o.ext o.file.content
        ++ (runStoredObjects cfg now ca vm post [] []).1
    ∧ (objItems cfg now ca vm o.ext o.file.content = [] →
        (runStoredObjects cfg now ca vm (pre ++ o :: post) [] []).1
          = (runStoredObjects cfg now ca vm (pre ++ post) [] []).1) := by
  simp only [runStoredObjects_eq, List.nil_append, List.flatMap_append, List.flatMap_cons,
    List.append_assoc]
  refine ⟨trivial, ?_⟩
  intro h
  rw [h]
  simp

/-- **C02, publication points.** An accepted point's payload is exactly what the objects of
the version it uses yield; nothing valid is left out and every accepted CA certificate
becomes a child task. -/
theorem C02_point_complete (cfg : Cfg) (now : Int) (coll : Option Offer) (st : Option Stored)
    (ca : CaX) (hst : ∀ s, st = some s → StoredWf s) :
    let r := processPointX cfg now coll st ca
    (r.accepted = false ∧ r.items = [] ∧ r.kids = [])
    ∨ ∃ vm crl objs, ValidVersion cfg now coll ca.ctx vm crl objs ∧ r.accepted = true
        ∧ r.items = objs.flatMap (fun o => objItems cfg now ca.ctx vm o.ext o.file.content)
        ∧ (∀ o ∈ objs, ∀ i, Yields cfg now vm o.ext o.file.content i → i ∈ r.items)
        ∧ (∀ o ∈ objs, ∀ c info, Issues cfg now ca.ctx vm o.ext o.file.content c info →
            ∃ k ∈ r.kids, k.ctx = ca.ctx.child info) := by
  intro r
  rcases (processPointX_from cfg now coll st ca hst).items_eq with h | ⟨vm, crl, objs, hv, ha, hi, hk⟩
  · exact Or.inl h
  · refine Or.inr ⟨vm, crl, objs, hv, ha, hi, ?_, ?_⟩
    · intro o ho i hy
      show i ∈ r.items
      rw [hi]
      exact List.mem_flatMap.mpr ⟨o, ho, hy.mem_objItems ca.ctx⟩
    · intro o ho c info hiss
      have : ca.ctx.child info ∈ r.kids.map (·.ctx) := by
        rw [hk]
        exact List.mem_flatMap.mpr ⟨o, ho, hiss.mem_objKids⟩
      obtain ⟨k, hk1, hk2⟩ := List.mem_map.mp this
      exact ⟨k, hk1, hk2⟩

/-- **C02, the version used.** Whatever the processing order: if the collector's manifest
differs from the stored one, validates, is newer than the stored one and every listed file
was retrieved with its hash, the point is accepted with that version. -/
theorem C02_uses_fetched (cfg : Cfg) (now : Int) (offer : Offer) (st : Option Stored) (ca : CaX)
    (reorder : List Entry → List Entry) (hperm : ∀ l, (reorder l).Perm l)
    {mf : MftFile} {vm : ValidMft} {crl : Content}
    (hmf : (offer.get ca.ctx.info.mft).mft = some mf)
    (hsame : sameManifest st mf ca.ctx = false)
    (hv : validateCollected cfg now (offer.get ca.ctx.info.mft) mf = some (vm, crl))
    (hnew : (collectedIsNewer vm.mft st).1 = true)
    (hload : ∀ e ∈ vm.mft.entries, e.loads (offer.get ca.ctx.info.mft).files = true) :
    (processPointXWith cfg now (some offer) st ca reorder).used = .fetched vm crl
    ∧ (processPointXWith cfg now (some offer) st ca reorder).accepted = true
    ∧ (processPointWith true cfg now (some offer) st ca.ctx reorder).accepted = true := by
  obtain ⟨r, hr, hu, ha⟩ := processCollectedX_uses_fetched cfg now ca _ st reorder hperm hmf hsame
    hv hnew hload
  have h1 : processPointXWith cfg now (some offer) st ca reorder = r := by
    simp only [processPointXWith, hr]
  refine ⟨h1 ▸ hu, h1 ▸ ha, ?_⟩
  rw [processPointXWith_erase, h1]
  exact ha

namespace Engine

theorem KidsVisited.append {a b : List Visit} (ha : KidsVisited a) (hb : KidsVisited b) :
    KidsVisited (a ++ b) := by
  intro v hv k hk
  rcases List.mem_append.mp hv with hv | hv
  · obtain ⟨v', h1, h2⟩ := ha v hv k hk
    exact ⟨v', List.mem_append_left _ h1, h2⟩
  · obtain ⟨v', h1, h2⟩ := hb v hv k hk
    exact ⟨v', List.mem_append_right _ h1, h2⟩

/-- A TAL is *available* if some URI's download decodes to a certificate that carries the
TAL's key and is valid as a trust anchor now. -/
def TalAvailable (now : Int) (view : Option View) (tal : Tal) : Prop :=
  ∃ uri ∈ tal.uris, ∃ file c, download view uri = some file ∧ file.cert = some c
    ∧ c.key = tal.key ∧ c.valid now = true

theorem processTalX_complete (cfg : Cfg) (now : Int) (view : Option View) (tal : Tal)
    (store : Store) (hwf : StoreWf store) :
    StoreWf (processTalX cfg now view tal store).2
    ∧ KidsVisited (processTalX cfg now view tal store).1
    ∧ VisitsAreResults cfg now (view.map (·.points)) (processTalX cfg now view tal store).1
    ∧ (TalAvailable now view tal → ∃ v ∈ (processTalX cfg now view tal store).1, ∃ c,
        v.ca = CaX.root c ∧ c.key = tal.key ∧ c.valid now = true) := by
  obtain ⟨_, hp, hc⟩ := selectTa_spec now view tal store tal.uris store (TaInv.refl _ _)
  unfold processTalX
  cases hsel : selectTa now view tal tal.uris store with
  | mk oc store' =>
    rw [hsel] at hp hc
    simp only [] at hp hc
    have hwf' : StoreWf store' := fun p hp' => hwf p (hp ▸ hp')
    cases oc with
    | none =>
      refine ⟨hwf', by intro v hv; simp at hv, by intro v hv; simp at hv, ?_⟩
      intro hav
      obtain ⟨c, hc'⟩ := selectTa_complete now view tal tal.uris store hav
      rw [hsel] at hc'
      cases hc'
    | some c =>
      simp only []
      obtain ⟨_, _, _, hkey, hval⟩ := hc c rfl
      obtain ⟨h1, ⟨v, hv, hvc⟩, h3, h4⟩ := processCaX_complete cfg now (view.map (·.points))
        (cfg.maxDepth + 1) store' (CaX.root c) hwf' (by simp [CaX.root, CaCtx.root])
        (by simp [CaX.root, CaCtx.root])
      exact ⟨h1, h3, h4, fun _ => ⟨v, hv, c, hvc, hkey, hval⟩⟩

theorem runOnceX_complete (cfg : Cfg) (now : Int) (view : Option View) (tals : List Tal)
    (store : Store) (hwf : StoreWf store) :
    KidsVisited (runOnceX cfg now view tals store).1
    ∧ VisitsAreResults cfg now (view.map (·.points)) (runOnceX cfg now view tals store).1
    ∧ ∀ tal ∈ tals, TalAvailable now view tal →
        ∃ v ∈ (runOnceX cfg now view tals store).1, ∃ c,
          v.ca = CaX.root c ∧ c.key = tal.key ∧ c.valid now = true := by
  unfold runOnceX
  suffices h : ∀ (ts : List Tal) (acc : List Visit × Store),
      StoreWf acc.2 → KidsVisited acc.1 → VisitsAreResults cfg now (view.map (·.points)) acc.1 →
      let out := ts.foldl (fun (acc : List Visit × Store) tal =>
            let r := processTalX cfg now view tal acc.2
            (acc.1 ++ r.1, r.2)) acc
      KidsVisited out.1 ∧ VisitsAreResults cfg now (view.map (·.points)) out.1
      ∧ (∀ v ∈ acc.1, v ∈ out.1)
      ∧ ∀ tal ∈ ts, TalAvailable now view tal →
          ∃ v ∈ out.1, ∃ c, v.ca = CaX.root c ∧ c.key = tal.key ∧ c.valid now = true by
    obtain ⟨h1, h2, _, h4⟩ := h tals ([], store) hwf (by intro v hv; simp at hv)
      (by intro v hv; simp at hv)
    exact ⟨h1, h2, h4⟩
  intro ts
  induction ts with
  | nil => intro acc _ hk hr; exact ⟨hk, hr, fun v hv => hv, by simp⟩
  | cons tal rest ih =>
    intro acc hs hk hr
    simp only [List.foldl_cons]
    obtain ⟨t1, t2, t3, t4⟩ := processTalX_complete cfg now view tal acc.2 hs
    obtain ⟨g1, g2, g3, g4⟩ := ih (acc.1 ++ (processTalX cfg now view tal acc.2).1,
        (processTalX cfg now view tal acc.2).2) t1 (hk.append t2)
      (by
        intro v hv
        rcases List.mem_append.mp hv with hv | hv
        · exact hr v hv
        · exact t3 v hv)
    refine ⟨g1, g2, fun v hv => g3 v (List.mem_append_left _ hv), ?_⟩
    intro tal' htal' hav
    rcases List.mem_cons.mp htal' with rfl | htal'
    · obtain ⟨v, hv, hc⟩ := t4 hav
      exact ⟨v, g3 v (List.mem_append_right _ hv), hc⟩
    · exact g4 tal' htal' hav

end Engine

/-- **C02, the walk.** In a run started from a well-formed store: every child task that a
visited publication point created is visited itself (so with `C02_point_complete` every CA
certified by an accepted point is processed, to any depth the limit allows); every visit
is the result of `processPointX` on the store entry found; every item of every visit is in
the payload of `runOnce`; and every available TAL is processed from a valid root. -/
theorem C02_walk_complete (cfg : Cfg) (now : Int) (view : Option View) (tals : List Tal)
    (store : Store) (hwf : StoreWf store) :
    let visits := (runOnceX cfg now view tals store).1
    KidsVisited visits
    ∧ VisitsAreResults cfg now (view.map (·.points)) visits
    ∧ (∀ v ∈ visits, ∀ i ∈ v.point.items, i ∈ (runOnce true cfg now view tals store).1)
    ∧ ∀ tal ∈ tals, TalAvailable now view tal →
        ∃ v ∈ visits, ∃ c, v.ca = CaX.root c ∧ c.key = tal.key ∧ c.valid now = true := by
  intro visits
  obtain ⟨h1, h2, h3⟩ := runOnceX_complete cfg now view tals store hwf
  refine ⟨h1, h2, ?_, h3⟩
  intro v hv i hi
  rw [runOnceX_erase]
  exact List.mem_flatMap.mpr ⟨v, hv, hi⟩

/-- **C02, documented filter.** Under `unsafe-vrps = reject` an item of the payload is
served unless it overlaps (`ov`) the resources of a CA whose publication point was
rejected in this run. -/
theorem C02_served_unless_filtered (ov : Item → CaX → Bool) (visits : List Visit) (i : Item)
    (hi : i ∈ payloadOf visits) (hsafe : ∀ c ∈ rejectedCas visits, ov i c = false) :
    i ∈ servedItems ov visits := by
  unfold servedItems
  refine List.mem_filter.mpr ⟨hi, ?_⟩
  simp only [Bool.not_eq_true', List.any_eq_false]
  intro c hc
  simp [hsafe c hc]

/-! ## Non-vacuity -/

namespace C02Example
def cfg : Cfg := ⟨.reject, 32, true, true⟩
def ee (serial : Nat) : CertAttr := ⟨true, serial, 0, 1000, some 7⟩
def crlFile : File := ⟨50, .crl true 1000 []⟩
def roaA : File := ⟨51, .roa (ee 10) [64496]⟩
/-- bad signature (`ok = false`) -/
def roaBad : File := ⟨52, .roa ⟨false, 11, 0, 1000, some 7⟩ [64497]⟩
def roaC : File := ⟨53, .roa (ee 12) [64498]⟩
def mft : MftFile := ⟨1, some ⟨ee 1, some 0, 1, 10, 1000,
  [⟨0, .crl, 50, true⟩, ⟨1, .roa, 51, true⟩, ⟨2, .roa, 52, true⟩, ⟨3, .roa, 53, true⟩]⟩⟩
def ta : TaFile := ⟨90, some ⟨0, true, 0, 2000, ⟨0, 9, 8⟩⟩⟩
def view : View := ⟨[(5, ta)],
  [(8, ⟨some mft, [(0, crlFile), (1, roaA), (2, roaBad), (3, roaC)], [2, 0]⟩)]⟩
def tals : List Tal := [⟨0, [5]⟩]
end C02Example

open C02Example in
/-- The faulty middle ROA removes only itself; its valid siblings are served (processing
order: entry 2 first). -/
example : (runOnce true cfg 100 (some view) tals ⟨[], []⟩).1 = [64496, 64498] := by decide

open C02Example in
example : TalAvailable 100 (some view) ⟨0, [5]⟩ :=
  ⟨5, by simp, ta, ⟨0, true, 0, 2000, ⟨0, 9, 8⟩⟩, by decide, rfl, rfl, by decide⟩

end RoutinatorModel
