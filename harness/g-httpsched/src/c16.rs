//! C16: a conditional request is answered 304 only if the presented
//! validators were issued for the version being served at that moment.
//!
//! A live `http_listener`; the fake wall clock; the real `Server::process_once`
//! parked at every `SharedHistory` lock acquisition, in particular between
//! `update` and `mark_update_done`. The validators presented are the real
//! `ETag` / `Last-Modified` header values of responses obtained earlier in
//! the same history.

use serde_json::{json, Value};
use rvcore::Ctx;
use crate::director::{parse_result, ActorSpec, Director, RunResult, Scenario};

fn pair(v: &Value) -> (i64, i64) {
    (v[0].as_i64().unwrap_or(0), v[1].as_i64().unwrap_or(0))
}

fn items(v: &Value) -> Vec<u64> {
    v.as_array().map(|x| x.iter().filter_map(|i| i.as_u64()).collect()).unwrap_or_default()
}

/// Input: `{"clock0": [s,n], "prelude": [{"items": […], "clock": [s,n]}…],
/// "runs": [{"items": […], "clock": [s,n]}…],
/// "present": {"from": k, "etag": bool, "ims": bool}, "path": "/json"}`.
pub fn scenario(input: &Value) -> Option<Scenario> {
    let prelude: Vec<&Value> = input["prelude"].as_array()?.iter().collect();
    let runs: Vec<&Value> = input["runs"].as_array()?.iter().collect();
    let from = input["present"]["from"].as_u64()? as usize;
    if from >= prelude.len() { return None }
    let mut headers = Vec::new();
    if input["present"]["etag"].as_bool().unwrap_or(false) {
        headers.push(("If-None-Match".to_string(), format!("{{etag:{from}}}")));
    }
    if input["present"]["ims"].as_bool().unwrap_or(false) {
        headers.push(("If-Modified-Since".to_string(), format!("{{lm:{from}}}")));
    }
    let path = input["path"].as_str().unwrap_or("/json").to_string();
    Some(Scenario {
        actors: vec![
            ("U".into(), ActorSpec::Updater { runs: runs.iter().map(|r| items(&r["items"])).collect() }),
            ("P".into(), ActorSpec::Http { path: path.clone(), headers, notify: None }),
        ],
        prelude: prelude.iter().map(|r| items(&r["items"])).collect(),
        clock: Some(pair(&input["clock0"])),
        run_clocks: runs.iter().map(|r| pair(&r["clock"])).collect(),
        prelude_clocks: prelude.iter().map(|r| pair(&r["clock"])).collect(),
        prelude_get: Some(path), keep: None,
    })
}

fn ns(c: (i64, i64)) -> i128 { c.0 as i128 * 1_000_000_000 + c.1 as i128 }

/// Per run 'f' first ever / 'c' changed / 'n' unchanged, over prelude then runs.
fn kinds(input: &Value) -> (Vec<char>, Vec<char>) {
    let mut cur: Option<Vec<u64>> = None;
    let mut f = |v: &Value| -> Vec<char> {
        v.as_array().map(|a| a.iter().map(|r| {
            let it = items(&r["items"]);
            let k = match &cur { None => 'f', Some(c) if *c != it => 'c', _ => 'n' };
            cur = Some(it);
            k
        }).collect()).unwrap_or_default()
    };
    let a = f(&input["prelude"]);
    let b = f(&input["runs"]);
    (a, b)
}

pub fn op_line(input: &Value, schedule: &[String]) -> String {
    let (pk, rk) = kinds(input);
    let fmt = |v: &Value, k: &[char]| -> String {
        v.as_array().map(|a| a.iter().zip(k).map(|(r, k)| {
            format!("{}:{}", ns(pair(&r["clock"])), k)
        }).collect::<Vec<_>>().join(",")).unwrap_or_default()
    };
    format!(
        "c16 {} {} {} {} {} {} | {}",
        ns(pair(&input["clock0"])),
        fmt(&input["prelude"], &pk),
        fmt(&input["runs"], &rk),
        input["present"]["from"],
        if input["present"]["etag"].as_bool().unwrap_or(false) { 1 } else { 0 },
        if input["present"]["ims"].as_bool().unwrap_or(false) { 1 } else { 0 },
        schedule.join(" ")
    )
}

/// `"<session hex>-<serial>"` → `same:<serial>` when the session is ours.
fn show_etag(etag: &str, session: u64) -> String {
    let t = etag.trim_matches('"');
    match t.split_once('-') {
        Some((s, n)) if u64::from_str_radix(s, 16).ok() == Some(session) => format!("same:{n}"),
        _ => format!("other:{etag}")
    }
}

fn show_date(date: &str) -> String {
    match chrono::DateTime::parse_from_rfc2822(date) {
        Ok(d) => d.timestamp().to_string(),
        Err(_) => format!("unparsed:{date}")
    }
}

fn show_response(v: &Value, session: u64) -> String {
    if v.get("error").is_some() { return "error".into() }
    let status = v["status"].as_u64().unwrap_or(0);
    if status == 503 { return "503".into() }
    format!(
        "{}:{}:{}", status,
        show_etag(v["etag"].as_str().unwrap_or(""), session),
        show_date(v["last_modified"].as_str().unwrap_or("")),
    )
}

pub fn impl_line(res: &RunResult) -> String {
    let pre: Vec<String> = res.prelude_responses.iter().map(|(st, etag, lm, _)| {
        if *st == 503 { "503".to_string() }
        else { format!("{}:{}:{}", st, show_etag(etag, res.session), show_date(lm)) }
    }).collect();
    let p = match res.results.get("P").map(|s| s.as_str()) {
        Some("unfinished") | None => "unfinished".to_string(),
        Some(s) => show_response(&parse_result(s), res.session),
    };
    format!(
        "pre={} ; {} | P={} U={}", pre.join(","), res.trace.join(" ; "), p,
        res.results.get("U").cloned().unwrap_or("none".into())
    )
}

fn check_run(ctx: &mut Ctx, input: &Value, res: &RunResult) {
    let mut full = input.clone();
    full["schedule"] = json!(res.schedule);
    ctx.case(&full, &op_line(input, &res.schedule), &impl_line(res));
    let Some(p) = res.results.get("P") else { return };
    if p == "unfinished" { return }
    let v = parse_result(p);
    let status = v["status"].as_u64().unwrap_or(0);
    // the serial served when the request took its read lock
    let served = res.trace.iter().find(|s| s.starts_with("P[") && s.contains("http-payload:read-done"))
        .and_then(|s| s.rsplit('=').next())
        .and_then(|s| s.trim_end_matches(['a', 'i']).parse::<u32>().ok());
    let from = input["present"]["from"].as_u64().unwrap_or(0) as usize;
    let Some((pst, petag, _plm, pserial)) = res.prelude_responses.get(from).cloned() else { return };
    ctx.count(&format!("status:{status}"));
    if pst != 200 { ctx.count("prelude-response-not-200"); return }
    let Some(served) = served else {
        ctx.oracle_fail("no-read-step", "the request's read step was not observed", &full, json!(res.trace));
        return
    };
    let position = res.trace.iter().take_while(|s| !s.starts_with("P[http-payload")).filter(|s| s.starts_with("U[")).count();
    ctx.nontrivial(format!(
        "{}/{}/{}/{}/{}", input["present"], kinds(input).1.iter().collect::<String>(),
        pair(&input["clock0"]).1 != 0, position, status
    ));
    if status == 304 && served != pserial {
        ctx.oracle_fail(
            "304-for-old-version",
            "304 Not Modified although the presented validators were issued for another data version \
             than the one being served",
            &full, json!({"presented_serial": pserial, "served_serial": served, "presented_etag": petag,
                          "response": v, "trace": res.trace}));
    }
    if served != pserial {
        // old validators must get the new data: 200 with the served version's ETag
        let want = format!("same:{served}");
        let got = show_etag(v["etag"].as_str().unwrap_or(""), res.session);
        if status == 200 && got != want {
            ctx.oracle_fail("wrong-etag", "200 response whose ETag is not the served version's",
                &full, json!({"served_serial": served, "response": v}));
        }
        if status != 200 && status != 304 {
            ctx.oracle_fail("no-data-for-old-validators",
                "a client presenting old validators did not receive the new data",
                &full, json!({"served_serial": served, "response": v}));
        }
        ctx.count("presented-old-version");
    }
    else {
        ctx.count("presented-served-version");
    }
    if let Some(stuck) = res.stuck.as_ref() {
        ctx.oracle_fail("actor-stuck", "an actor that cannot block did not progress", &full,
            json!({"trace": res.trace, "stuck": stuck}));
    }
}

const T0: i64 = 1_700_000_000;

pub fn generated_inputs(ctx: &mut Ctx) -> Vec<Value> {
    let a = json!([1]);
    let b = json!([1, 2]);
    let c = json!([2]);
    let mut res = Vec::new();
    let nanos_set: &[i64] = &[0, 250_000_000];
    // offset of the scheduled run's clock relative to the last prelude run
    let offsets: &[i64] = if ctx.quick() && !ctx.search { &[0, 1, 5] } else { &[-3, 0, 1, 5] };
    for &n in nanos_set {
        for &off in offsets {
            for change in [true, false] {
                for (etag, ims) in [(true, false), (false, true), (true, true)] {
                    // validators of the version served just before the scheduled run
                    res.push(json!({
                        "clock0": [T0, n],
                        "prelude": [{"items": a, "clock": [T0 + 10, n]}],
                        "runs": [{"items": if change { b.clone() } else { a.clone() }, "clock": [T0 + 10 + off, n]}],
                        "present": {"from": 0, "etag": etag, "ims": ims}, "path": "/json",
                    }));
                    // two prelude runs within the same second; present the older / the newer
                    for from in [0, 1] {
                        res.push(json!({
                            "clock0": [T0, n],
                            "prelude": [{"items": a, "clock": [T0 + 10, n]}, {"items": b, "clock": [T0 + 10, n]}],
                            "runs": [{"items": if change { c.clone() } else { b.clone() }, "clock": [T0 + 10 + off, n]}],
                            "present": {"from": from, "etag": etag, "ims": ims},
                            "path": if from == 0 { "/json" } else { "/csv" },
                        }));
                    }
                }
            }
        }
    }
    res
}

/// The schedules in which the request is not pre-empted between arriving
/// and reading: one per position in the updater's sequence.
fn positions(updater_steps: usize) -> Vec<Vec<String>> {
    (0..=updater_steps).map(|pos| {
        let mut s: Vec<String> = vec!["U".to_string(); pos];
        s.push("P".into());
        s.push("P".into());
        s
    }).collect()
}

pub fn run_c16(ctx: &mut Ctx) {
    ctx.rule = "histories of 1–2 completed runs (fake clock with zero / non-zero sub-second part, runs \
        in the same second, later, earlier) whose real responses supply ETag and Last-Modified; then \
        one more run (changing the data or not) with a conditional request (old ETag / old \
        Last-Modified / both) reading at every position of the updater's lock sequence, including \
        between update and mark_update_done (thorough: every interleaving of both actors' steps); \
        distinct by (validators presented, run kind, sub-second part, position, status)".into();
    let dir = Director::new();
    let inputs = match ctx.replay_inputs() {
        Some(inputs) => inputs,
        None => {
            let mut v = ctx.corpus("C16");
            v.extend(generated_inputs(ctx));
            v
        }
    };
    let mut total = 0;
    let mut fails = 0;
    for input in inputs {
        let Some(sc) = scenario(&input) else { continue };
        if let Some(names) = input["schedule"].as_array() {
            let names: Vec<String> = names.iter().filter_map(|s| s.as_str().map(String::from)).collect();
            let res = dir.run(&sc, &[], Some(&names));
            check_run(ctx, &input, &res);
            total += 1;
            continue
        }
        if ctx.quick() && !ctx.search {
            for names in positions(6 * sc.run_clocks.len()) {
                let res = dir.run(&sc, &[], Some(&names));
                let before = fails;
                check_run(ctx, &input, &res);
                if res.stuck.is_some() { fails += 1 }
                let _ = before;
                total += 1;
            }
        }
        else {
            total += dir.explore(&sc, 100_000, |res| { check_run(ctx, &input, res); true });
        }
        if fails >= 3 { break }
    }
    ctx.extra("schedules_replayed", json!(total));
}
