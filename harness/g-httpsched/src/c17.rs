//! C17: a `/json-delta/notify` long-poll never waits for a change that
//! already happened.
//!
//! Every interleaving of one notify request against the real server step
//! (`Server::process_once`) is replayed on real threads against a live
//! `http_listener`; the oracle is the property itself: if the served version
//! differs from the presented one at some moment after the request arrived
//! (and no notification of an update in progress is still to come), the
//! response must arrive within the deadline without a further update.

use serde_json::{json, Value};
use rvcore::Ctx;
use crate::director::{parse_result, ActorSpec, Director, RunResult, Scenario};

pub const CLOCK: (i64, i64) = (1_700_000_000, 250_000_000);

/// What the request presents, relative to the version served at arrival.
fn presented(kind: &str, session: u64, serial0: u32) -> Option<Option<(u64, u32)>> {
    Some(match kind {
        "current" => Some((session, serial0)),
        "older" => Some((session, serial0.wrapping_sub(1))),
        "older2" => Some((session, serial0.wrapping_sub(2))),
        "older3" => Some((session, serial0.wrapping_sub(3))),
        "next" => Some((session, serial0.wrapping_add(1))),
        "other-session" => Some((session + 1, serial0)),
        "none" => None,
        _ => return None
    })
}

/// Scenario from its JSON description:
/// `{"prelude": [[items]…], "runs": [[items]…], "presented": kind}`.
pub fn scenario(input: &Value) -> Option<Scenario> {
    let sets = |v: &Value| -> Vec<Vec<u64>> {
        v.as_array().map(|a| a.iter().map(|s| {
            s.as_array().map(|x| x.iter().filter_map(|i| i.as_u64()).collect()).unwrap_or_default()
        }).collect()).unwrap_or_default()
    };
    let prelude = sets(&input["prelude"]);
    let runs = sets(&input["runs"]);
    let kind = input["presented"].as_str()?;
    let session = CLOCK.0 as u64;
    // serial after the prelude: number of data changes
    let mut serial0 = 0u32;
    for i in 1..prelude.len() {
        if prelude[i] != prelude[i - 1] { serial0 += 1 }
    }
    let pres = presented(kind, session, serial0)?;
    let path = match pres {
        Some((s, n)) => format!("/json-delta/notify?session={s}&serial={n}"),
        None => "/json-delta/notify".to_string(),
    };
    Some(Scenario {
        actors: vec![
            ("U".into(), ActorSpec::Updater { runs }),
            ("H".into(), ActorSpec::Http { path, headers: vec![], notify: Some(pres) }),
        ],
        prelude, clock: Some(CLOCK), run_clocks: vec![], prelude_clocks: vec![], prelude_get: None, keep: None,
    })
}

fn changes(prelude: &[Vec<u64>], runs: &[Vec<u64>]) -> String {
    // per scheduled run: 'f' first ever, 'c' changed, 'n' unchanged
    let mut cur: Option<&Vec<u64>> = prelude.last();
    let mut out = String::new();
    for r in runs {
        out.push(match cur { None => 'f', Some(c) if c != r => 'c', _ => 'n' });
        cur = Some(r);
    }
    out
}

/// The request line for the Lean model.
pub fn op_line(input: &Value, sc: &Scenario, schedule: &[String]) -> String {
    let ActorSpec::Updater { runs } = &sc.actors[0].1 else { unreachable!() };
    let mut serial0 = 0u32;
    for i in 1..sc.prelude.len() {
        if sc.prelude[i] != sc.prelude[i - 1] { serial0 += 1 }
    }
    format!(
        "c17 {} {} {} {} | {}",
        if sc.prelude.is_empty() { "inactive" } else { "active" },
        serial0,
        input["presented"].as_str().unwrap_or("?"),
        { let c = changes(&sc.prelude, runs); if c.is_empty() { "-".to_string() } else { c } },
        schedule.join(" ")
    )
}

/// The implementation's canonical line: step records, then the results.
pub fn impl_line(res: &RunResult) -> String {
    let h = match res.results.get("H").map(|s| s.as_str()) {
        Some("blocked") => "blocked".to_string(),
        Some("unfinished") => "unfinished".to_string(),
        Some(s) => {
            let v = parse_result(s);
            if v.get("error").is_some() { format!("error") }
            else {
                let body: Value = serde_json::from_str(v["body"].as_str().unwrap_or("")).unwrap_or(Value::Null);
                let session = body["session"].as_u64();
                format!(
                    "{}:{}:{}", v["status"],
                    match session { Some(s) if s == res.session => "same".into(), Some(s) => s.to_string(), None => "-".into() },
                    body["serial"].as_u64().map(|s| s.to_string()).unwrap_or("-".into())
                )
            }
        }
        None => "none".into()
    };
    let u = res.results.get("U").cloned().unwrap_or("none".into());
    format!("{} | H={} U={}", res.trace.join(" ; "), h, u)
}

fn check_run(ctx: &mut Ctx, input: &Value, sc: &Scenario, res: &RunResult) {
    let full = json!({
        "prelude": input["prelude"], "runs": input["runs"], "presented": input["presented"],
        "schedule": res.schedule,
    });
    if res.invalid_schedule {
        ctx.case_oracle_only(&full, "schedule not executable on the implementation");
        ctx.count("invalid-schedule");
        return
    }
    ctx.case(&full, &op_line(input, sc, &res.schedule), &impl_line(res));
    ctx.count(&format!("H:{}", impl_line(res).rsplit("H=").next().unwrap_or("").split(' ').next().unwrap_or("")));
    if res.trace.iter().any(|s| s.contains("blocked")) {
        ctx.count("request-blocked-at-some-point");
        ctx.nontrivial(format!("{}/{}", input["presented"], res.schedule.join("")));
    }
    if let Some(stuck) = res.stuck.as_ref() {
        if stuck == "H" {
            let class = match res.stuck_released_by_update {
                Some(true) => "notify-waits-for-further-update",
                _ => "notify-never-answered",
            };
            ctx.oracle_fail(class,
                "the served version differed from the presented one after the request arrived, \
                 no notification was outstanding, yet the request was not answered within the \
                 deadline (it returned only after a further update)",
                &full, json!({"trace": res.trace, "results": res.results}));
        }
        else {
            ctx.oracle_fail("actor-stuck", "an actor that cannot block did not progress", &full,
                json!({"trace": res.trace, "stuck": stuck}));
        }
    }
    // An answered request must carry the version served when it answered;
    // (checked by C15) — here only: a request that presented a version
    // different from the served one at arrival must not have blocked at all.
}

pub fn generated_inputs(ctx: &Ctx) -> Vec<Value> {
    let a = json!([1]);
    let b = json!([1, 2]);
    let c = json!([2]);
    let mut res = vec![
        // served = presented at arrival, one changing run
        json!({"prelude": [a], "runs": [b], "presented": "current"}),
        // no change: blocks for good, legitimately
        json!({"prelude": [a], "runs": [a], "presented": "current"}),
        // first-ever update: notification without a serial change
        json!({"prelude": [], "runs": [a], "presented": "current"}),
        // presented differs at arrival: never waits
        json!({"prelude": [a, b], "runs": [c], "presented": "older"}),
        json!({"prelude": [a], "runs": [b], "presented": "other-session"}),
        json!({"prelude": [a], "runs": [b], "presented": "none"}),
        // presented becomes current by the update, then blocks
        json!({"prelude": [a], "runs": [b], "presented": "next"}),
    ];
    // net-zero change sequences installed before the request arrives: the data at the presented
    // (older) serial equals the served data, the version does not — the request must not wait
    res.push(json!({"prelude": [a, b, a], "runs": [a], "presented": "older2"}));
    res.push(json!({"prelude": [a, b, a], "runs": [a], "presented": "older"}));
    res.push(json!({"prelude": [a, b, a], "runs": [a], "presented": "current"}));
    res.push(json!({"prelude": [a, b, c, a], "runs": [a], "presented": "older3"}));
    res.push(json!({"prelude": [a, b, c, a], "runs": [a], "presented": "older2"}));
    res.push(json!({"prelude": [a, b, a], "runs": [b], "presented": "older2"}));
    if !ctx.quick() || ctx.search {
        res.push(json!({"prelude": [a], "runs": [b, b], "presented": "current"}));
        res.push(json!({"prelude": [a], "runs": [a, b], "presented": "current"}));
        res.push(json!({"prelude": [a], "runs": [b, c], "presented": "current"}));
        res.push(json!({"prelude": [], "runs": [a, b], "presented": "current"}));
    }
    res
}

pub fn run_c17(ctx: &mut Ctx) {
    ctx.rule = "every interleaving (depth-first, by re-execution on real threads) of one \
        /json-delta/notify request against Server::process_once runs on a live http_listener; \
        steps = every SharedHistory lock acquisition + the points between check/subscribe and \
        before notify; scenarios: presented = current/older/next/other session/none × run changes \
        data / does not / is the first ever (thorough: two runs); non-trivial = the request was \
        blocked at some point; distinct by (presented, schedule)".into();
    let dir = Director::new();
    if let Some(inputs) = ctx.replay_inputs() {
        for input in inputs {
            let Some(sc) = scenario(&input) else { continue };
            let names: Option<Vec<String>> = input["schedule"].as_array().map(|a| {
                a.iter().filter_map(|s| s.as_str().map(String::from)).collect()
            });
            match names {
                Some(names) => {
                    let res = dir.run(&sc, &[], Some(&names));
                    check_run(ctx, &input, &sc, &res);
                }
                None => {
                    dir.explore(&sc, 100_000, |res| { check_run(ctx, &input, &sc, res); true });
                }
            }
        }
        return
    }
    let mut inputs = ctx.corpus("C17");
    inputs.extend(generated_inputs(ctx));
    let mut total = 0;
    let mut fails = 0;
    let mut sampled = false;
    for input in inputs {
        let Some(sc) = scenario(&input) else { continue };
        if let Some(names) = input["schedule"].as_array() {
            let names: Vec<String> = names.iter().filter_map(|s| s.as_str().map(String::from)).collect();
            let res = dir.run(&sc, &[], Some(&names));
            check_run(ctx, &input, &sc, &res);
            total += 1;
            continue
        }
        let limit = ctx.budget(3_000, 200_000);
        // In the quick tier the scenarios in which the request can never wait
        // (it presents something else than the served version) are sampled.
        let never_waits = matches!(input["presented"].as_str(), Some("older" | "older2" | "older3" | "none"));
        if ctx.quick() && !ctx.search && never_waits {
            let mut rng = ctx.rng.fork();
            total += dir.random_schedules(&sc, 40, &mut rng, |res| {
                check_run(ctx, &input, &sc, res);
                if res.stuck.is_some() { fails += 1 }
                fails < 3
            });
            sampled = true;
            continue
        }
        let two_runs = input["runs"].as_array().map(|a| a.len() > 1).unwrap_or(false);
        if two_runs {
            // two runs × one request: > 4 000 interleavings each; sampled
            let mut rng = ctx.rng.fork();
            total += dir.random_schedules(&sc, 2_000, &mut rng, |res| {
                check_run(ctx, &input, &sc, res);
                if res.stuck.is_some() { fails += 1 }
                fails < 3
            });
            sampled = true;
            if fails >= 3 { break }
            continue
        }
        total += dir.explore(&sc, limit, |res| {
            check_run(ctx, &input, &sc, res);
            if res.stuck.is_some() { fails += 1 }
            fails < 3
        });
        if fails >= 3 { break }
    }
    ctx.extra("schedules_replayed", json!(total));
    ctx.extra("exhaustive", json!(!sampled && fails == 0));
}
