//! A scheduler that replays interleavings on real threads.
//!
//! The routinator hook `verif::point(name)` calls [`Sched::on_point`]. A
//! thread that belongs to a registered actor of the current run parks there
//! until the director releases it, so exactly one actor runs at a time and a
//! schedule (a list of actor names: "release this actor until its next
//! point") is replayed deterministically.
//!
//! Actors are recognised by the *name of the calling thread*
//! (`rv<run>:<actor>`): plain threads started with [`Sched::spawn`] and the
//! worker threads of per-actor tokio runtimes built with
//! [`Sched::runtime`]. Threads of other runs pass through every point.

use std::collections::BTreeSet;
use std::sync::{Arc, Condvar, Mutex};
use std::time::{Duration, Instant};

#[derive(Clone, Debug, Eq, PartialEq)]
pub enum AState {
    /// Not started yet.
    Idle,
    /// Released and not yet seen at a point or finished.
    Running,
    /// Waiting at a point for the director.
    Parked(String),
    /// Finished with a result.
    Done(String),
}

#[derive(Debug)]
struct Actor {
    name: String,
    state: AState,
    permits: u32,
    /// Worker threads of the actor's runtime and how many are parked idle.
    workers: i64,
    idle: i64,
}

#[derive(Debug, Default)]
struct Inner {
    run: u64,
    aborted: bool,
    parks: BTreeSet<String>,
    marks: BTreeSet<String>,
    actors: Vec<Actor>,
    /// (actor, event) in global order. Events: `@<point>` parked at a
    /// point, `<point>` passed a marker, `done`.
    log: Vec<(String, String)>,
}

pub struct Sched {
    m: Mutex<Inner>,
    cv: Condvar,
}

/// What the director saw after releasing an actor.
#[derive(Clone, Debug, Eq, PartialEq)]
pub enum Seen {
    Parked(String),
    Done(String),
    /// All worker threads of the actor's runtime went idle, no event.
    Quiescent,
    /// Nothing within the time allowed.
    Timeout,
}

fn parse_thread_name(name: &str) -> Option<(u64, &str)> {
    let rest = name.strip_prefix("rv")?;
    let (run, actor) = rest.split_once(':')?;
    Some((run.parse().ok()?, actor))
}

impl Sched {
    /// Creates the scheduler and installs it as routinator's point handler.
    pub fn install() -> Arc<Sched> {
        let sched = Arc::new(Sched { m: Mutex::new(Inner::default()), cv: Condvar::new() });
        let handler = sched.clone();
        routinator::verif::set_point_handler(Some(Arc::new(move |name: &str| {
            handler.on_point(name)
        })));
        sched
    }

    fn on_point(&self, name: &str) {
        let thread = std::thread::current();
        let Some((run, actor)) = thread.name().and_then(parse_thread_name) else { return };
        let mut g = self.m.lock().unwrap();
        if g.run != run || g.aborted { return }
        let Some(idx) = g.actors.iter().position(|a| a.name == actor) else { return };
        if g.marks.contains(name) {
            g.log.push((actor.to_string(), name.to_string()));
            return
        }
        if !g.parks.contains(name) { return }
        g.log.push((actor.to_string(), format!("@{name}")));
        g.actors[idx].state = AState::Parked(name.to_string());
        self.cv.notify_all();
        loop {
            if g.run != run || g.aborted { return }
            if g.actors[idx].permits > 0 {
                g.actors[idx].permits -= 1;
                return
            }
            g = self.cv.wait(g).unwrap();
        }
    }

    /// Starts a new run; everything still parked from the previous run is
    /// let go.
    pub fn begin(&self, actors: &[&str], parks: &[&str], marks: &[&str]) -> u64 {
        let mut g = self.m.lock().unwrap();
        g.run += 1;
        g.aborted = false;
        g.parks = parks.iter().map(|s| s.to_string()).collect();
        g.marks = marks.iter().map(|s| s.to_string()).collect();
        g.actors = actors.iter().map(|name| Actor {
            name: name.to_string(), state: AState::Idle, permits: 0, workers: 0, idle: 0,
        }).collect();
        g.log.clear();
        self.cv.notify_all();
        g.run
    }

    /// Ends the run: all parked threads continue without stopping again.
    pub fn abort(&self) {
        let mut g = self.m.lock().unwrap();
        g.aborted = true;
        self.cv.notify_all();
    }

    pub fn thread_name(run: u64, actor: &str) -> String { format!("rv{run}:{actor}") }

    /// Runs `f` on a new thread belonging to `actor`; its return value
    /// becomes the actor's result.
    pub fn spawn(
        self: &Arc<Self>, run: u64, actor: &str,
        f: impl FnOnce() -> String + Send + 'static,
    ) {
        self.set_state(actor, AState::Running);
        let me = self.clone();
        let name = actor.to_string();
        std::thread::Builder::new().name(Self::thread_name(run, actor)).spawn(move || {
            let res = f();
            me.finish(run, &name, res);
        }).expect("spawn actor thread");
    }

    /// A multi-thread tokio runtime whose workers belong to `actor`.
    pub fn runtime(self: &Arc<Self>, run: u64, actor: &str, workers: usize) -> tokio::runtime::Runtime {
        {
            let mut g = self.m.lock().unwrap();
            if let Some(a) = g.actors.iter_mut().find(|a| a.name == actor) {
                a.workers = workers as i64;
                a.idle = 0;
            }
        }
        let (me1, me2) = (self.clone(), self.clone());
        let (n1, n2) = (actor.to_string(), actor.to_string());
        tokio::runtime::Builder::new_multi_thread()
            .worker_threads(workers)
            .thread_name(Self::thread_name(run, actor))
            .on_thread_park(move || me1.idle_change(run, &n1, 1))
            .on_thread_unpark(move || me2.idle_change(run, &n2, -1))
            .enable_all()
            .build().expect("tokio runtime")
    }

    fn idle_change(&self, run: u64, actor: &str, by: i64) {
        let mut g = self.m.lock().unwrap();
        if g.run != run { return }
        if let Some(a) = g.actors.iter_mut().find(|a| a.name == actor) {
            a.idle += by;
        }
        self.cv.notify_all();
    }

    /// Marks the actor finished (for actors whose completion is observed by
    /// a helper thread, e.g. an HTTP client).
    pub fn finish(&self, run: u64, actor: &str, result: String) {
        let mut g = self.m.lock().unwrap();
        if g.run != run { return }
        g.log.push((actor.to_string(), "done".to_string()));
        if let Some(a) = g.actors.iter_mut().find(|a| a.name == actor) {
            a.state = AState::Done(result);
        }
        self.cv.notify_all();
    }

    pub fn set_state(&self, actor: &str, state: AState) {
        let mut g = self.m.lock().unwrap();
        if let Some(a) = g.actors.iter_mut().find(|a| a.name == actor) {
            a.state = state;
        }
    }

    pub fn state(&self, actor: &str) -> AState {
        let g = self.m.lock().unwrap();
        g.actors.iter().find(|a| a.name == actor).map(|a| a.state.clone()).unwrap_or(AState::Idle)
    }

    /// Lets a parked actor continue.
    pub fn release(&self, actor: &str) {
        let mut g = self.m.lock().unwrap();
        if let Some(a) = g.actors.iter_mut().find(|a| a.name == actor) {
            debug_assert!(matches!(a.state, AState::Parked(_)));
            a.permits += 1;
            a.state = AState::Running;
        }
        self.cv.notify_all();
    }

    /// Waits until the actor is parked or done. With `quiescent`, also
    /// returns once all workers of the actor's runtime are idle.
    pub fn wait(&self, actor: &str, timeout: Duration, quiescent: bool) -> Seen {
        let deadline = Instant::now() + timeout;
        let mut g = self.m.lock().unwrap();
        loop {
            if let Some(a) = g.actors.iter().find(|a| a.name == actor) {
                match &a.state {
                    AState::Parked(p) => return Seen::Parked(p.clone()),
                    AState::Done(r) => return Seen::Done(r.clone()),
                    _ => {}
                }
                if quiescent && a.workers > 0 && a.idle >= a.workers {
                    return Seen::Quiescent
                }
            }
            let now = Instant::now();
            if now >= deadline { return Seen::Timeout }
            g = self.cv.wait_timeout(g, deadline - now).unwrap().0;
        }
    }

    /// The event log so far as `actor:event` items.
    pub fn trace(&self) -> Vec<String> {
        let g = self.m.lock().unwrap();
        g.log.iter().map(|(a, e)| format!("{a}{}{e}", if e.starts_with('@') { "" } else { ":" })).collect()
    }

    /// Appends a director-side event to the log.
    pub fn note(&self, actor: &str, event: &str) {
        let mut g = self.m.lock().unwrap();
        g.log.push((actor.to_string(), event.to_string()));
    }
}

impl Sched {
    pub fn raw_log(&self) -> Vec<(String, String)> {
        self.m.lock().unwrap().log.clone()
    }
}
