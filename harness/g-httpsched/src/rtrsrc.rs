//! Direct calls of `SharedHistory`'s `PayloadSource` implementation (the RTR
//! server's view of the data), gated by `ready()` exactly like
//! `rpki::rtr::server::Connection::{reset, serial}`.
use rpki::rtr::{Action, PayloadRef, Serial, State};
use rpki::rtr::server::{PayloadDiff, PayloadSet, PayloadSource};
use serde_json::{json, Value};
use crate::world::World;

fn item_of(p: PayloadRef) -> Option<u64> {
    match p {
        PayloadRef::Origin(o) => Some(u64::from(o.asn.into_u32()).wrapping_sub(64500)),
        _ => None
    }
}

/// Calls: `reset`, `serial:<session16>:<serial>`, `notify`. Returns a JSON
/// array with one result per call.
pub fn run_calls(world: &World, calls: &[String]) -> String {
    let h = &world.history;
    let mut out: Vec<Value> = Vec::new();
    for call in calls {
        let parts: Vec<&str> = call.split(':').collect();
        match parts[0] {
            "reset" => {
                if !h.ready() { out.push(json!({"kind": "not-ready"})); continue }
                let (state, mut set) = h.full();
                let mut items = Vec::new();
                while let Some(p) = set.next() {
                    items.push(item_of(p).map(|i| json!(i)).unwrap_or(json!("other")));
                }
                out.push(json!({"kind": "full", "session": state.session(),
                    "serial": u32::from(state.serial()), "items": items}));
            }
            "serial" => {
                let session: u16 = parts.get(1).and_then(|s| s.parse().ok()).unwrap_or(0);
                let serial: u32 = parts.get(2).and_then(|s| s.parse().ok()).unwrap_or(0);
                if !h.ready() { out.push(json!({"kind": "not-ready"})); continue }
                match h.diff(State::from_parts(session, Serial::from(serial))) {
                    None => out.push(json!({"kind": "refused"})),
                    Some((state, mut diff)) => {
                        let (mut ann, mut wd) = (Vec::new(), Vec::new());
                        while let Some((p, action)) = diff.next() {
                            let item = item_of(p).map(|i| json!(i)).unwrap_or(json!("other"));
                            match action { Action::Announce => ann.push(item), Action::Withdraw => wd.push(item) }
                        }
                        out.push(json!({"kind": "delta", "session": state.session(), "from": serial,
                            "serial": u32::from(state.serial()), "announced": ann, "withdrawn": wd}));
                    }
                }
            }
            "notify" => {
                let state = h.notify();
                out.push(json!({"kind": "version", "session": state.session(),
                    "serial": u32::from(state.serial())}));
            }
            _ => out.push(json!({"kind": "bad-call"}))
        }
    }
    Value::Array(out).to_string()
}
