//! C15: every response pairs its serial with that serial's data.
//!
//! All interleavings of the real server step with one request of each kind:
//! HTTP data, HTTP delta, HTTP notify answer (live `http_listener`), RTR reset
//! / serial / notify (`SharedHistory`'s `PayloadSource` impl, gated by
//! `ready()` like the rpki RTR server). The oracle knows which data set was
//! installed with which serial and demands exactly that set / change set.

use std::collections::BTreeSet;
use serde_json::{json, Value};
use rvcore::Ctx;
use crate::director::{parse_result, ActorSpec, Director, RunResult, Scenario};

pub const CLOCK: (i64, i64) = (1_700_000_000, 250_000_000);

/// Data set `id` (≥ 10): a sliding window of two items, so that every change
/// both announces and withdraws.
pub fn items_of(id: u64) -> Vec<u64> {
    let k = id.saturating_sub(10);
    vec![k + 1, k + 2]
}

fn ids(v: &Value) -> Vec<u64> {
    v.as_array().map(|a| a.iter().filter_map(|x| x.as_u64()).collect()).unwrap_or_default()
}

/// serial → data id after the prelude and the scheduled runs (ground truth).
fn versions(prelude: &[u64], runs: &[u64]) -> Vec<u64> {
    let mut res: Vec<u64> = Vec::new();
    for id in prelude.iter().chain(runs.iter()) {
        if res.last() != Some(id) { res.push(*id) }
    }
    res
}

pub fn scenario(input: &Value) -> Option<Scenario> {
    let prelude = ids(&input["prelude"]);
    let runs = ids(&input["runs"]);
    let session = CLOCK.0 as u64;
    let kind = input["request"]["kind"].as_str()?;
    let client = input["request"]["client"].as_u64().unwrap_or(0);
    let spec = match kind {
        "data" => ActorSpec::Http { path: "/json".into(), headers: vec![], notify: None },
        "delta" => ActorSpec::Http {
            path: format!("/json-delta?session={session}&serial={client}"), headers: vec![], notify: None },
        "delta-foreign" => ActorSpec::Http {
            path: format!("/json-delta?session={}&serial={client}", session + 1), headers: vec![], notify: None },
        "delta-noversion" => ActorSpec::Http { path: "/json-delta".into(), headers: vec![], notify: None },
        "notify" => ActorSpec::Http { path: "/json-delta/notify".into(), headers: vec![], notify: Some(None) },
        "rtr-reset" => ActorSpec::Rtr { calls: vec!["reset".into()] },
        "rtr-serial" => ActorSpec::Rtr { calls: vec![format!("serial:{}:{client}", session as u16)] },
        "rtr-serial-foreign" => ActorSpec::Rtr {
            calls: vec![format!("serial:{}:{client}", (session as u16).wrapping_add(1))] },
        "rtr-notify" => ActorSpec::Rtr { calls: vec!["notify".into()] },
        _ => return None
    };
    let mut actors = vec![
        ("U".to_string(), ActorSpec::Updater { runs: runs.iter().map(|i| items_of(*i)).collect() }),
        ("Q".to_string(), spec),
    ];
    if let Some(kind2) = input["request2"]["kind"].as_str() {
        let mut second = input.clone();
        second["request"] = input["request2"].clone();
        second["request2"] = Value::Null;
        let _ = kind2;
        if let Some(sc2) = scenario(&second) {
            actors.push(("Q2".to_string(), sc2.actors[1].1.clone()));
        }
    }
    Some(Scenario {
        actors,
        prelude: prelude.iter().map(|i| items_of(*i)).collect(),
        clock: Some(CLOCK), run_clocks: vec![], prelude_clocks: vec![], prelude_get: None,
        keep: input["keep"].as_u64().map(|k| k as usize),
    })
}

fn req_words(r: &Value) -> String {
    format!("{} {}", r["kind"].as_str().unwrap_or("?"), r["client"].as_u64().unwrap_or(0))
}

pub fn op_line(input: &Value, schedule: &[String]) -> String {
    let list = |v: &Value| -> String {
        let l = ids(v);
        if l.is_empty() { "-".to_string() } else { l.iter().map(|x| x.to_string()).collect::<Vec<_>>().join(",") }
    };
    let mut reqs = req_words(&input["request"]);
    if input["request2"]["kind"].is_string() {
        reqs = format!("{} {}", reqs, req_words(&input["request2"]));
    }
    format!(
        "c15 {} {} {} {} | {}",
        input["keep"].as_u64().unwrap_or(10), list(&input["prelude"]), list(&input["runs"]),
        reqs, schedule.join(" ")
    )
}

fn id_of(set: &BTreeSet<u64>, known: &[u64]) -> String {
    for id in known {
        if items_of(*id).into_iter().collect::<BTreeSet<_>>() == *set { return id.to_string() }
    }
    "?".into()
}

fn set_of(v: &Value) -> Option<BTreeSet<u64>> {
    let mut res = BTreeSet::new();
    for x in v.as_array()? { res.insert(x.as_u64()?); }
    Some(res)
}

/// Items of a JSON list of `{"asn": "AS64501", …}` objects.
fn asn_items(v: &Value) -> Option<BTreeSet<u64>> {
    let mut res = BTreeSet::new();
    for x in v.as_array()? {
        let asn = x["asn"].as_str()?.trim_start_matches("AS").parse::<u64>().ok()?;
        res.insert(asn.checked_sub(64500)?);
    }
    Some(res)
}

/// A response in the model's vocabulary plus the raw facts for the oracle.
#[derive(Debug)]
enum Obs {
    None,
    Full { serial: u64, set: Option<BTreeSet<u64>> },
    Delta { from: u64, serial: u64, ann: Option<BTreeSet<u64>>, wd: Option<BTreeSet<u64>> },
    Version { serial: u64 },
    Refused,
    Bad(String),
}

fn observe_http(kind: &str, v: &Value, session: u64) -> Obs {
    if v.get("error").is_some() { return Obs::Bad("client-error".into()) }
    let status = v["status"].as_u64().unwrap_or(0);
    if status == 503 { return Obs::None }
    if status != 200 { return Obs::Bad(format!("status-{status}")) }
    let body: Value = match serde_json::from_str(v["body"].as_str().unwrap_or("")) {
        Ok(b) => b, Err(_) => return Obs::Bad("body-not-json".into())
    };
    match kind {
        "data" => {
            let etag = v["etag"].as_str().unwrap_or("").trim_matches('"').to_string();
            let Some((s, n)) = etag.split_once('-') else { return Obs::Bad("etag".into()) };
            if u64::from_str_radix(s, 16).ok() != Some(session) { return Obs::Bad("foreign-session".into()) }
            let Ok(serial) = n.parse::<u64>() else { return Obs::Bad("etag-serial".into()) };
            Obs::Full { serial, set: asn_items(&body["roas"]) }
        }
        "notify" => {
            if body["session"].as_u64() != Some(session) { return Obs::Bad("foreign-session".into()) }
            Obs::Version { serial: body["serial"].as_u64().unwrap_or(u64::MAX) }
        }
        _ => {
            if body["session"].as_str().and_then(|s| s.parse::<u64>().ok()) != Some(session) {
                return Obs::Bad("foreign-session".into())
            }
            let serial = body["serial"].as_u64().unwrap_or(u64::MAX);
            if body["reset"].as_bool() == Some(true) {
                Obs::Full { serial, set: asn_items(&body["announced"]) }
            } else {
                Obs::Delta {
                    from: body["fromSerial"].as_u64().unwrap_or(u64::MAX), serial,
                    ann: asn_items(&body["announced"]), wd: asn_items(&body["withdrawn"]),
                }
            }
        }
    }
}

fn observe_rtr(v: &Value, session: u64) -> Vec<Obs> {
    let mut out = Vec::new();
    for r in v.as_array().cloned().unwrap_or_default() {
        let sess_ok = r["session"].as_u64().map(|s| s == (session as u16) as u64).unwrap_or(true);
        if !sess_ok { out.push(Obs::Bad("foreign-session".into())); continue }
        out.push(match r["kind"].as_str().unwrap_or("") {
            "not-ready" => Obs::None,
            "refused" => Obs::Refused,
            "version" => Obs::Version { serial: r["serial"].as_u64().unwrap_or(u64::MAX) },
            "full" => Obs::Full { serial: r["serial"].as_u64().unwrap_or(u64::MAX), set: set_of(&r["items"]) },
            "delta" => Obs::Delta {
                from: r["from"].as_u64().unwrap_or(u64::MAX), serial: r["serial"].as_u64().unwrap_or(u64::MAX),
                ann: set_of(&r["announced"]), wd: set_of(&r["withdrawn"]),
            },
            other => Obs::Bad(other.to_string()),
        });
    }
    out
}

/// Canonical text of an observation (model vocabulary) and, if the property
/// fails on it, why.
fn judge(obs: &Obs, gt: &[u64], known: &[u64]) -> (String, Option<(&'static str, String)>) {
    let data_at = |serial: u64| -> Option<BTreeSet<u64>> {
        gt.get(serial as usize).map(|id| items_of(*id).into_iter().collect())
    };
    match obs {
        Obs::None => ("none".into(), None),
        Obs::Refused => ("refused".into(), None),
        Obs::Version { serial } => (format!("version:{serial}"), None),
        Obs::Bad(why) => (format!("bad:{why}"), Some(("malformed-response", why.clone()))),
        Obs::Full { serial, set } => {
            let Some(set) = set else { return ("full:?".into(), Some(("malformed-response", "items".into()))) };
            let text = format!("full:{serial}:{}", id_of(set, known));
            match data_at(*serial) {
                Some(want) if want == *set => (text, None),
                Some(want) => (text, Some(("serial-with-other-data",
                    format!("serial {serial} served with {set:?}, but its data set is {want:?}")))),
                None => (text, Some(("unknown-serial", format!("serial {serial} was never installed")))),
            }
        }
        Obs::Delta { from, serial, ann, wd } => {
            let (Some(ann), Some(wd)) = (ann, wd) else {
                return ("delta:?".into(), Some(("malformed-response", "items".into())))
            };
            let (Some(f), Some(t)) = (data_at(*from), data_at(*serial)) else {
                return (format!("delta:{from}:{serial}:?:?"),
                    Some(("unknown-serial", format!("change set {from} -> {serial}: a serial that was never installed"))))
            };
            let applicable = wd.is_subset(&f) && ann.is_disjoint(&f);
            let mut res = f.clone();
            for x in wd { res.remove(x); }
            for x in ann { res.insert(*x); }
            let text = if from == serial && ann.is_empty() && wd.is_empty() {
                format!("same:{from}:{serial}")
            } else {
                format!("delta:{from}:{serial}:{}:{}", id_of(&f, known),
                    if applicable { id_of(&res, known) } else { "?".into() })
            };
            let exact = *ann == t.difference(&f).cloned().collect::<BTreeSet<_>>()
                && *wd == f.difference(&t).cloned().collect::<BTreeSet<_>>();
            if !exact {
                (text, Some(("change-set-of-other-serial", format!(
                    "change set {from} -> {serial} is +{ann:?} -{wd:?}, but the data sets are {f:?} and {t:?}"))))
            } else { (text, None) }
        }
    }
}

/// Whether the history had a snapshot when the actor made its last step
/// (the served sample of that step record ends in `a`; a request does not
/// change it).
fn active_at_answer(name: &str, res: &RunResult) -> Option<bool> {
    let tag = format!("{name}[");
    res.trace.iter().rev().find(|rec| {
        rec.split('+').any(|part| part.starts_with(&tag) && part.contains("done"))
    }).and_then(|rec| rec.rsplit('=').next()).map(|v| v.ends_with('a'))
}

fn actor_result(
    name: &str, req: &Value, res: &RunResult, gt: &[u64], known: &[u64],
) -> (String, Vec<(&'static str, String)>) {
    let kind = req["kind"].as_str().unwrap_or("");
    let Some(raw) = res.results.get(name) else { return ("none".into(), vec![]) };
    if raw == "unfinished" || raw == "blocked" { return (raw.clone(), vec![]) }
    let v = parse_result(raw);
    let obs = if kind.starts_with("rtr-") { observe_rtr(&v, res.session) }
        else { vec![observe_http(kind, &v, res.session)] };
    let mut texts = Vec::new();
    let mut fails = Vec::new();
    let active = active_at_answer(name, res);
    for o in &obs {
        let (t, f) = judge(o, gt, known);
        if active == Some(false) && matches!(o, Obs::Full { .. } | Obs::Delta { .. }) {
            fails.push(("served-before-first-update", format!(
                "a data / change-set response ({t}) was given before the first validation completed")));
        }
        texts.push(t);
        if let Some(f) = f { fails.push(f) }
    }
    (texts.join(","), fails)
}

pub fn check_run(ctx: &mut Ctx, input: &Value, res: &RunResult) {
    let mut full = input.clone();
    full["schedule"] = json!(res.schedule);
    let prelude = ids(&input["prelude"]);
    let runs = ids(&input["runs"]);
    let gt = versions(&prelude, &runs);
    let mut known = gt.clone();
    known.sort(); known.dedup();
    let (q, mut fails) = actor_result("Q", &input["request"], res, &gt, &known);
    let mut line = format!("{} | Q={}", res.trace.join(" ; "), q);
    if input["request2"]["kind"].is_string() {
        let (q2, f2) = actor_result("Q2", &input["request2"], res, &gt, &known);
        line.push_str(&format!(" Q2={q2}"));
        fails.extend(f2);
    }
    line.push_str(&format!(" U={}", res.results.get("U").cloned().unwrap_or("none".into())));
    ctx.case(&full, &op_line(input, &res.schedule), &line);
    ctx.count(&format!("kind:{}", input["request"]["kind"].as_str().unwrap_or("?")));
    let position = res.trace.iter().take_while(|s| !s.starts_with("Q[")).count();
    ctx.nontrivial(format!("{}/{}/{}/{}", req_words(&input["request"]), prelude.len(), position, q));
    for (class, reason) in fails {
        ctx.oracle_fail(class, &reason, &full, json!({"trace": res.trace, "results": res.results}));
    }
    if let Some(stuck) = res.stuck.as_ref() {
        ctx.oracle_fail("actor-stuck", "an actor that cannot block did not progress", &full,
            json!({"trace": res.trace, "stuck": stuck}));
    }
}

pub fn generated_inputs(ctx: &Ctx) -> Vec<Value> {
    let mut res = Vec::new();
    let all_kinds = ["data", "delta", "delta-noversion", "delta-foreign", "notify",
                     "rtr-reset", "rtr-serial", "rtr-serial-foreign", "rtr-notify"];
    let core_kinds = ["data", "delta", "rtr-reset", "rtr-serial"];
    let thorough = !ctx.quick() || ctx.search;
    for prelude in [vec![10u64], vec![], vec![10, 11]] {
        let serial0 = prelude.len().saturating_sub(1) as u64;
        let next = 10 + prelude.len() as u64;
        let pre_kinds = ["data", "delta", "delta-noversion", "notify", "rtr-reset", "rtr-serial"];
        let kinds: &[&str] = if thorough || prelude.len() == 1 { &all_kinds }
            else if prelude.is_empty() { &pre_kinds } else { &core_kinds };
        for kind in kinds {
            let clients: Vec<u64> = if *kind == "delta" || *kind == "rtr-serial" {
                let mut c = vec![serial0];
                if serial0 > 0 { c.push(serial0 - 1) }
                if thorough || prelude.len() == 1 { c.push(serial0 + 1) }
                c
            } else { vec![serial0] };
            for client in clients {
                res.push(json!({"keep": 10, "prelude": prelude, "runs": [next],
                    "request": {"kind": kind, "client": client}}));
            }
        }
    }
    // a run that does not change the data; a history that retains one delta;
    // a merged change set (client two versions behind after the run)
    for kind in ["delta", "rtr-serial"] {
        res.push(json!({"keep": 10, "prelude": [10, 11], "runs": [11], "request": {"kind": kind, "client": 1}}));
        res.push(json!({"keep": 1, "prelude": [10, 11], "runs": [12], "request": {"kind": kind, "client": 0}}));
        res.push(json!({"keep": 10, "prelude": [10, 11, 12], "runs": [13], "request": {"kind": kind, "client": 1}}));
    }
    res.push(json!({"keep": 10, "prelude": [10, 11], "runs": [11], "request": {"kind": "data", "client": 1}}));
    // history-size 0: one delta is retained all the same (repaired push_delta)
    for (kind, client) in [("delta", 0), ("delta", 1), ("rtr-serial", 1), ("data", 1)] {
        res.push(json!({"keep": 0, "prelude": [10, 11], "runs": [12], "request": {"kind": kind, "client": client}}));
    }
    res.push(json!({"keep": 0, "prelude": [], "runs": [10], "request": {"kind": "delta", "client": 0}}));
    if thorough {
        for kind in ["delta", "rtr-serial"] {
            for client in [0, 2] {
                res.push(json!({"keep": 10, "prelude": [10, 11, 12], "runs": [13], "request": {"kind": kind, "client": client}}));
            }
            for client in [0, 1, 2] {
                res.push(json!({"keep": 2, "prelude": [10, 11, 12], "runs": [13], "request": {"kind": kind, "client": client}}));
            }
            res.push(json!({"keep": 1, "prelude": [10, 11], "runs": [12], "request": {"kind": kind, "client": 1}}));
        }
        res.push(json!({"keep": 10, "prelude": [10], "runs": [11, 12], "request": {"kind": "delta", "client": 0}}));
        res.push(json!({"keep": 10, "prelude": [10], "runs": [11, 12], "request": {"kind": "rtr-reset", "client": 0}}));
        for (k1, k2) in [("data", "rtr-serial"), ("delta", "rtr-reset"), ("data", "delta")] {
            res.push(json!({"keep": 10, "prelude": [10, 11], "runs": [12],
                "request": {"kind": k1, "client": 1}, "request2": {"kind": k2, "client": 1}}));
        }
    }
    res
}

pub fn run_c15(ctx: &mut Ctx) {
    ctx.rule = "every interleaving (depth-first, by re-execution on real threads) of Server::process_once \
        (parked at every SharedHistory lock acquisition and before notify) with one request of each kind \
        (HTTP /json, /json-delta with current/older/future/foreign/no version, /json-delta/notify answer \
        on a live http_listener; RTR reset, serial, notify through SharedHistory's PayloadSource impl \
        behind the ready() gate) on histories of 0–2 (thorough 3) versions, keep 10, 1 and 0 (thorough also 2), \
        a changing or non-changing run (thorough: two runs, two concurrent requests); distinct by \
        (request, history length, position of the request's first step, result)".into();
    let dir = Director::new();
    let inputs = match ctx.replay_inputs() {
        Some(inputs) => inputs,
        None => {
            let mut v = ctx.corpus("C15");
            v.extend(generated_inputs(ctx));
            v
        }
    };
    let mut total = 0;
    let mut fails = 0;
    for input in inputs {
        let Some(sc) = scenario(&input) else { continue };
        if let Some(names) = input["schedule"].as_array() {
            let names: Vec<String> = names.iter().filter_map(|s| s.as_str().map(String::from)).collect();
            let res = dir.run(&sc, &[], Some(&names));
            check_run(ctx, &input, &res);
            total += 1;
            continue
        }
        let limit = ctx.budget(2_000, 50_000);
        if sc.actors.len() > 2 {
            // two concurrent requests: sampled
            let mut rng = ctx.rng.fork();
            total += dir.random_schedules(&sc, ctx.budget(200, 600), &mut rng, |res| {
                check_run(ctx, &input, res); true
            });
            continue
        }
        if ctx.quick() && !ctx.search && input["request"]["kind"] == "notify" {
            // the answer step of the notify handler; its interleavings are C17's subject
            let mut rng = ctx.rng.fork();
            total += dir.random_schedules(&sc, 60, &mut rng, |res| { check_run(ctx, &input, res); true });
            continue
        }
        total += dir.explore(&sc, limit, |res| {
            let before = res.stuck.is_some();
            check_run(ctx, &input, res);
            if before { fails += 1 }
            fails < 3
        });
        if fails >= 3 { break }
    }
    ctx.extra("schedules_replayed", json!(total));
}
