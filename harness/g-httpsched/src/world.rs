//! The real parts under test: a `SharedHistory`, the server's per-run step,
//! a live `http_listener`, a minimal blocking HTTP/1.1 client.

use std::io::{Read, Write};
use std::net::{SocketAddr, TcpListener, TcpStream};
use std::path::PathBuf;
use std::sync::Arc;
use std::time::Duration;
use routinator::config::Config;
use routinator::engine::Engine;
use routinator::metrics::RtrServerMetrics;
use routinator::operation::Server;
use routinator::payload::SharedHistory;
use routinator::slurm::LocalExceptions;
use rpki::rtr::server::NotifySender;

/// Things created once per process.
pub struct Base {
    pub config: Config,
    pub engine: Arc<Engine>,
    _dir: tempfile::TempDir,
}

impl Base {
    pub fn new() -> Self {
        let dir = tempfile::tempdir().expect("tempdir");
        let cache: PathBuf = dir.path().join("cache");
        std::fs::create_dir_all(&cache).unwrap();
        let mut config = Config::default_with_paths(dir.path().join("routinator.conf"), cache);
        config.no_rir_tals = true;
        config.enable_bgpsec = true;
        config.validation_threads = 1;
        let mut engine = Engine::new(&config, false).unwrap_or_else(|_| panic!("engine"));
        engine.ignite().unwrap_or_else(|_| panic!("ignite"));
        Base { config, engine: Arc::new(engine), _dir: dir }
    }
}

/// The data set number `k` as SLURM assertions: `k` origins.
pub fn exceptions_for(items: &[u64]) -> LocalExceptions {
    let list: Vec<String> = items.iter().map(|i| {
        format!(
            "{{\"asn\": {}, \"prefix\": \"10.{}.{}.0/24\", \"maxPrefixLength\": 24}}",
            64500 + i, (i / 256) % 256, i % 256
        )
    }).collect();
    let json = format!(
        "{{\"slurmVersion\": 1, \"validationOutputFilters\": {{\"prefixFilters\": [], \
         \"bgpsecFilters\": []}}, \"locallyAddedAssertions\": {{\"prefixAssertions\": [{}], \
         \"bgpsecAssertions\": []}}}}",
        list.join(", ")
    );
    LocalExceptions::from_json(&json, false).expect("slurm json")
}

/// One server instance: history + notify sender shared by the updater and
/// the listeners.
#[derive(Clone)]
pub struct World {
    pub history: SharedHistory,
    pub notify: NotifySender,
}

impl World {
    pub fn with_keep(base: &Base, keep: Option<usize>) -> Self {
        let mut config = base.config.clone();
        if let Some(keep) = keep { config.history_size = keep }
        World { history: SharedHistory::from_config(&config), notify: NotifySender::new() }
    }

    /// The real server step (`Server::process_once`) with the given data.
    pub fn process_once(&self, base: &Base, items: &[u64]) -> Result<(), String> {
        let exceptions = exceptions_for(items);
        let mut notify = self.notify.clone();
        Server::verif_process_once(
            &base.config, &base.engine, &self.history, &mut notify, &exceptions, false
        ).map_err(|_| "run-failed".to_string())
    }

    pub fn version(&self) -> (u64, u32) {
        let (session, serial) = self.history.read().session_and_serial();
        (session, u32::from(serial))
    }

    /// Starts the real `http_listener` on a fresh loopback port on `rt`.
    pub fn http(&self, base: &Base, rt: &tokio::runtime::Runtime) -> Result<SocketAddr, String> {
        for _ in 0..20 {
            let addr = {
                let probe = TcpListener::bind("127.0.0.1:0").map_err(|e| e.to_string())?;
                probe.local_addr().map_err(|e| e.to_string())?
            };
            let mut config = base.config.clone();
            config.http_listen = vec![addr];
            let fut = {
                let _guard = rt.enter();
                routinator::http::http_listener(
                    self.history.clone(), Arc::new(RtrServerMetrics::new(false)), None,
                    &config, self.notify.clone(),
                )
            };
            match fut {
                Ok(fut) => {
                    rt.spawn(fut);
                    return Ok(addr)
                }
                Err(_) => continue
            }
        }
        Err("cannot bind http listener".into())
    }
}


//------------ HTTP client ---------------------------------------------------

#[derive(Clone, Debug, Default)]
pub struct HttpResponse {
    pub status: u16,
    pub headers: Vec<(String, String)>,
    pub body: Vec<u8>,
}

impl HttpResponse {
    pub fn header(&self, name: &str) -> Option<&str> {
        self.headers.iter().find(|(n, _)| n.eq_ignore_ascii_case(name)).map(|(_, v)| v.as_str())
    }
}

/// Sends one request with `Connection: close` and reads the whole reply.
/// `timeout` bounds every socket read.
pub fn http_get(
    addr: SocketAddr, path: &str, headers: &[(String, String)], timeout: Duration,
) -> Result<HttpResponse, String> {
    let mut sock = TcpStream::connect_timeout(&addr, Duration::from_secs(5))
        .map_err(|e| format!("connect: {e}"))?;
    sock.set_read_timeout(Some(timeout)).ok();
    sock.set_nodelay(true).ok();
    let mut req = format!("GET {path} HTTP/1.1\r\nHost: localhost\r\nConnection: close\r\n");
    for (n, v) in headers {
        req.push_str(&format!("{n}: {v}\r\n"));
    }
    req.push_str("\r\n");
    sock.write_all(req.as_bytes()).map_err(|e| format!("write: {e}"))?;
    let mut raw = Vec::new();
    let mut buf = [0u8; 65536];
    loop {
        match sock.read(&mut buf) {
            Ok(0) => break,
            Ok(n) => raw.extend_from_slice(&buf[..n]),
            Err(e) => return Err(format!("read: {e}")),
        }
    }
    parse_response(&raw)
}

fn parse_response(raw: &[u8]) -> Result<HttpResponse, String> {
    let split = raw.windows(4).position(|w| w == b"\r\n\r\n").ok_or("no header end")?;
    let head = std::str::from_utf8(&raw[..split]).map_err(|_| "non-utf8 head")?;
    let mut lines = head.split("\r\n");
    let status_line = lines.next().ok_or("no status line")?;
    let status: u16 = status_line.split(' ').nth(1).and_then(|s| s.parse().ok()).ok_or("bad status")?;
    let mut headers = Vec::new();
    for line in lines {
        if let Some((n, v)) = line.split_once(':') {
            headers.push((n.trim().to_string(), v.trim().to_string()));
        }
    }
    let rest = &raw[split + 4..];
    let chunked = headers.iter().any(|(n, v)| {
        n.eq_ignore_ascii_case("transfer-encoding") && v.to_ascii_lowercase().contains("chunked")
    });
    let body = if chunked { dechunk(rest)? } else { rest.to_vec() };
    Ok(HttpResponse { status, headers, body })
}

fn dechunk(mut data: &[u8]) -> Result<Vec<u8>, String> {
    let mut out = Vec::new();
    loop {
        let eol = data.windows(2).position(|w| w == b"\r\n").ok_or("chunk: no size line")?;
        let size_str = std::str::from_utf8(&data[..eol]).map_err(|_| "chunk: size")?;
        let size = usize::from_str_radix(size_str.split(';').next().unwrap_or("").trim(), 16)
            .map_err(|_| "chunk: size parse")?;
        data = &data[eol + 2..];
        if size == 0 { return Ok(out) }
        if data.len() < size + 2 { return Err("chunk: truncated".into()) }
        out.extend_from_slice(&data[..size]);
        data = &data[size + 2..];
    }
}
