//! Runs a scenario (one updater, some requests) under the scheduler, either
//! following a given schedule or enumerating all schedules depth-first by
//! re-execution.
//!
//! A schedule is a list of actor names; entry `A` means "let `A` run from
//! where it is parked (or start it) until it parks again, finishes or
//! blocks". Where an actor parks is decided by the real code (every
//! `SharedHistory` lock acquisition and the explicit points), so a source
//! change that adds a lock section automatically adds interleavings.

use std::collections::BTreeMap;
use std::net::SocketAddr;
use std::sync::Arc;
use std::time::Duration;
use serde_json::{json, Value};
use crate::sched::{AState, Sched, Seen};
use crate::world::{http_get, Base, World};

pub const PARKS: &[&str] = &[
    "history:read", "history:write",
    "http-notify:subscribed", "http-notify:checked",
    "server:marked-done",
];
pub const MARKS: &[&str] = &[
    "server:updated", "server:notified", "http-notify:woken", "http-payload:read-done",
];

#[derive(Clone, Debug)]
pub enum ActorSpec {
    /// Calls `Server::process_once` once per entry with that data set.
    Updater { runs: Vec<Vec<u64>> },
    /// One GET against a live `http_listener`.
    Http { path: String, headers: Vec<(String, String)>, notify: Option<Option<(u64, u32)>> },
    /// Direct calls of `SharedHistory`'s `PayloadSource` impl:
    /// "ready", "notify", "full", "diff:<serial>".
    Rtr { calls: Vec<String> },
}

#[derive(Clone, Debug)]
pub struct Scenario {
    pub actors: Vec<(String, ActorSpec)>,
    /// Updater runs executed before the schedule starts (unscheduled).
    pub prelude: Vec<Vec<u64>>,
    /// Fake clock (secs, nanos) at start; None = leave the clock alone.
    pub clock: Option<(i64, i64)>,
    /// Clock values set by the updater before each of its scheduled runs'
    /// `mark_update_done` … (index = run); empty = clock untouched.
    pub run_clocks: Vec<(i64, i64)>,
    pub prelude_clocks: Vec<(i64, i64)>,
    /// After each prelude run, GET this path (unconditionally) and remember
    /// the response; request headers of the scheduled actors may refer to
    /// them as `{etag:K}` / `{lm:K}`.
    pub prelude_get: Option<String>,
    /// `history-size` of the history (None = the default).
    pub keep: Option<usize>,
}

#[derive(Clone, Debug, Default)]
pub struct RunResult {
    pub schedule: Vec<String>,
    pub trace: Vec<String>,
    pub raw_trace: Vec<String>,
    pub results: BTreeMap<String, String>,
    /// An actor that had to make progress but did not within the deadline.
    pub stuck: Option<String>,
    /// Whether a stuck notify request returned after a further update.
    pub stuck_released_by_update: Option<bool>,
    pub invalid_schedule: bool,
    pub session: u64,
    /// (status, etag, last-modified, served serial) per prelude run.
    pub prelude_responses: Vec<(u16, String, String, u32)>,
    /// Number of enabled actors at each decision (for DFS).
    pub widths: Vec<usize>,
}

pub struct Director {
    pub sched: Arc<Sched>,
    pub base: Base,
    /// How long an actor that must make progress may take.
    pub deadline: Duration,
    /// How long to wait for an actor that cannot block.
    pub patience: Duration,
}

struct Live {
    world: World,
    run: u64,
    addrs: BTreeMap<String, SocketAddr>,
    runtimes: Vec<tokio::runtime::Runtime>,
    /// Per HTTP actor: runtime handle and its number of alive tasks while
    /// no request is in flight.
    handles: BTreeMap<String, (tokio::runtime::Handle, usize)>,
    blocked: BTreeMap<String, bool>,
    /// For notify requests: served version differed from the presented one
    /// at some moment since the request was started.
    differed: BTreeMap<String, bool>,
    started: BTreeMap<String, bool>,
    run_start_version: Option<((u64, u32), bool)>,
    seen_runs: usize,
    /// A receiver subscribed before anything runs: counts every `notify()`.
    probe: rpki::rtr::server::NotifyReceiver,
    sends: u64,
    sends_at_arrival: BTreeMap<String, u64>,
    /// Log position up to which events were put into `steps`.
    cut: usize,
    prelude_responses: Vec<(u16, String, String, u32)>,
}

impl Director {
    pub fn new() -> Self {
        Director { sched: Sched::install(), base: Base::new(), deadline: Duration::from_secs(12), patience: Duration::from_secs(90) }
    }

    fn sample(&self, live: &Live) -> ((u64, u32), bool) {
        let h = live.world.history.read();
        let (session, serial) = h.session_and_serial();
        ((session, u32::from(serial)), h.is_active())
    }

    /// Runs the scenario following `prefix`, then always the first enabled
    /// actor.
    pub fn run(&self, sc: &Scenario, prefix: &[usize], names: Option<&[String]>) -> RunResult {
        self.run_with(sc, prefix, names, false)
    }

    pub fn run_with(
        &self, sc: &Scenario, prefix: &[usize], names: Option<&[String]>, modulo: bool
    ) -> RunResult {
        if let Some((s, n)) = sc.clock { rvcore::clock::set(s, n) }
        let world = World::with_keep(&self.base, sc.keep);
        // Unscheduled prelude on this thread (no actor name ⇒ no parking).
        let mut prelude_responses = Vec::new();
        {
            let pre_rt = sc.prelude_get.as_ref().map(|_| {
                tokio::runtime::Builder::new_multi_thread().worker_threads(1)
                    .thread_name("prelude").enable_all().build().expect("prelude runtime")
            });
            let pre_addr = pre_rt.as_ref().and_then(|rt| world.http(&self.base, rt).ok());
            for (i, items) in sc.prelude.iter().enumerate() {
                if let Some((s, n)) = sc.prelude_clocks.get(i) { rvcore::clock::set(*s, *n) }
                let _ = world.process_once(&self.base, items);
                if let (Some(path), Some(addr)) = (sc.prelude_get.as_ref(), pre_addr) {
                    let serial = world.version().1;
                    match http_get(addr, path, &[], Duration::from_secs(30)) {
                        Ok(resp) => prelude_responses.push((
                            resp.status,
                            resp.header("etag").unwrap_or("").to_string(),
                            resp.header("last-modified").unwrap_or("").to_string(),
                            serial,
                        )),
                        Err(_) => prelude_responses.push((0, String::new(), String::new(), serial)),
                    }
                }
            }
            if let Some(rt) = pre_rt { rt.shutdown_background() }
        }
        let actor_names: Vec<&str> = sc.actors.iter().map(|(n, _)| n.as_str()).collect();
        let run = self.sched.begin(&actor_names, PARKS, MARKS);
        let probe_rx = world.notify.subscribe();
        let mut live = Live {
            world, run, addrs: BTreeMap::new(), runtimes: Vec::new(), handles: BTreeMap::new(),
            blocked: BTreeMap::new(), differed: BTreeMap::new(), started: BTreeMap::new(),
            run_start_version: None, seen_runs: 0,
            probe: probe_rx, sends: 0, sends_at_arrival: BTreeMap::new(), cut: 0,
            prelude_responses: prelude_responses.clone(),
        };
        let mut res = RunResult::default();
        res.session = self.sample(&live).0.0;
        res.prelude_responses = prelude_responses;
        // Listeners first, so that "start" is just sending the request.
        for (name, spec) in &sc.actors {
            if let ActorSpec::Http { .. } = spec {
                let rt = self.sched.runtime(run, name, 2);
                match live.world.http(&self.base, &rt) {
                    Ok(addr) => { live.addrs.insert(name.clone(), addr); }
                    Err(err) => {
                        res.results.insert(name.clone(), format!("harness-error:{err}"));
                    }
                }
                live.runtimes.push(rt);
            }
        }
        // Wait until the listeners' workers are idle: nothing is in flight.
        for (i, (name, _)) in sc.actors.iter().filter(|(n, _)| live.addrs.contains_key(n)).enumerate() {
            let _ = self.sched.wait(name, Duration::from_secs(2), true);
            let handle = live.runtimes[i].handle().clone();
            let alive = handle.metrics().num_alive_tasks();
            live.handles.insert(name.clone(), (handle, alive));
        }

        let mut depth = 0;
        let mut cursor = 0;   // position in `names`
        loop {
            let enabled: Vec<String> = sc.actors.iter().map(|(n, _)| n.clone()).filter(|n| {
                !live.blocked.get(n).copied().unwrap_or(false) && matches!(
                    self.sched.state(n), AState::Idle | AState::Parked(_)
                )
            }).collect();
            if enabled.is_empty() { break }
            let choice = match names {
                Some(list) => {
                    // A listed actor that is not enabled (a schedule recorded
                    // on a tree with other points) is skipped; after the
                    // list, the first enabled actor runs.
                    let mut pick = 0;
                    while cursor < list.len() {
                        let want = &list[cursor];
                        cursor += 1;
                        if let Some(i) = enabled.iter().position(|n| n == want) { pick = i; break }
                    }
                    pick
                }
                None => if depth < prefix.len() {
                    if modulo { prefix[depth] % enabled.len() } else { prefix[depth] }
                } else { 0 }
            };
            if choice >= enabled.len() { res.invalid_schedule = true; break }
            res.widths.push(enabled.len());
            let actor = enabled[choice].clone();
            res.schedule.push(actor.clone());
            depth += 1;
            if !self.step(sc, &mut live, &actor, &mut res) { break }
        }

        // A blocked notify request is fine at the end unless it has to return.
        for (name, _) in &sc.actors {
            match self.sched.state(name) {
                AState::Done(r) => { res.results.insert(name.clone(), r); }
                _ => {
                    if live.blocked.get(name).copied().unwrap_or(false) {
                        res.results.insert(name.clone(), "blocked".into());
                    }
                    else {
                        res.results.entry(name.clone()).or_insert("unfinished".into());
                    }
                }
            }
        }
        if let Some(stuck) = res.stuck.clone() {
            // Does a further update release it? (Confirms that the request
            // was waiting for a further update.)
            if matches!(spec_of(sc, &stuck), Some(ActorSpec::Http { notify: Some(_), .. })) {
                let next = vec![9_999u64, (self.sample(&live).0.1 as u64) + 1];
                let w = live.world.clone();
                let _ = w.process_once(&self.base, &next);
                let seen = self.sched.wait(&stuck, self.deadline, false);
                res.stuck_released_by_update = Some(!matches!(seen, Seen::Timeout | Seen::Quiescent));
            }
        }
        res.raw_trace = self.sched.trace();
        self.sched.abort();
        for rt in live.runtimes.drain(..) { rt.shutdown_background(); }
        res
    }

    /// One step of `actor`; returns false if the run has to stop.
    fn step(&self, sc: &Scenario, live: &mut Live, actor: &str, res: &mut RunResult) -> bool {
        let spec = spec_of(sc, actor).cloned().expect("actor spec");
        // Whether the actor may block in this step. Never when it is being
        // started: every request reaches a point or finishes first (and the
        // "all workers idle" signal is only meaningful once a worker of the
        // actor's runtime is known to be running, i.e. after a release).
        let may_block = match self.sched.state(actor) {
            AState::Idle => { self.start(sc, live, actor, &spec); false }
            AState::Parked(_) => {
                let may = self.may_block(sc, live, actor, &spec);
                self.sched.release(actor);
                may
            }
            _ => return false
        };
        let t0 = std::time::Instant::now();
        let seen = if may_block {
            self.sched.wait(actor, Duration::from_secs(3), true)
        } else if self.is_notify(&spec) {
            self.sched.wait(actor, self.deadline, false)
        } else {
            // cannot block at all: only a harness problem could stop it
            self.sched.wait(actor, self.patience, false)
        };
        if t0.elapsed() > Duration::from_millis(500) && std::env::var("RV_SLOW").is_ok() {
            eprintln!("slow step: {actor} {:?} -> {seen:?}", t0.elapsed());
        }
        let mut ok = true;
        // All workers idle but the connection's task is gone: the request
        // has been answered, the client just has not reported it yet.
        let seen = match seen {
            Seen::Quiescent if self.request_task_gone(live, actor) => {
                self.sched.wait(actor, self.deadline, false)
            }
            other => other
        };
        match seen {
            Seen::Parked(_) | Seen::Done(_) => {}
            Seen::Quiescent | Seen::Timeout if may_block => {
                live.blocked.insert(actor.to_string(), true);
                self.sched.note(actor, "blocked");
            }
            _ => {
                if self.is_notify(&spec) {
                    // Expected to come back (a notification was sent since it
                    // arrived) but did not: blocked. Whether that violates
                    // the property is decided in `after_step`.
                    live.blocked.insert(actor.to_string(), true);
                    self.sched.note(actor, "blocked");
                }
                else {
                    res.stuck = Some(actor.to_string());
                    self.sched.note(actor, "stuck");
                    ok = false;
                }
            }
        }
        let ok = ok && self.after_step(sc, live, res);
        self.cut_step(sc, live, actor, res);
        ok
    }

    fn request_task_gone(&self, live: &Live, actor: &str) -> bool {
        match live.handles.get(actor) {
            Some((handle, base)) => handle.metrics().num_alive_tasks() <= *base,
            None => false
        }
    }

    fn is_notify(&self, spec: &ActorSpec) -> bool {
        matches!(spec, ActorSpec::Http { notify: Some(_), .. })
    }

    /// Counts the notifications sent so far (the probe subscribed before
    /// anything ran).
    fn poll_probe(&self, live: &mut Live) {
        use std::future::Future;
        use std::task::{Context, Poll, Waker};
        loop {
            let mut cx = Context::from_waker(Waker::noop());
            let ready = {
                let fut = live.probe.recv();
                let mut fut = std::pin::pin!(fut);
                matches!(fut.as_mut().poll(&mut cx), Poll::Ready(()))
            };
            if ready { live.sends += 1 } else { break }
        }
    }

    /// Samples the served version and looks after blocked requests.
    fn after_step(&self, sc: &Scenario, live: &mut Live, res: &mut RunResult) -> bool {
        let now = self.sample(live);
        self.poll_probe(live);
        let runs = self.sched.trace().iter().filter(|e| e.ends_with(":run")).count();
        if runs > live.seen_runs {
            live.seen_runs = runs;
            live.run_start_version = Some(now);
        }
        for (name, spec) in &sc.actors {
            if let ActorSpec::Http { notify: Some(presented), .. } = spec {
                if live.started.get(name).copied().unwrap_or(false) {
                    let differs = match presented { Some(v) => *v != now.0, None => true };
                    if differs { live.differed.insert(name.clone(), true); }
                }
            }
        }
        let blocked: Vec<String> = live.blocked.iter().filter(|(_, b)| **b).map(|(n, _)| n.clone()).collect();
        for name in blocked {
            let must = self.must_return_now(sc, live, &name);
            let expect = must || self.sent_since_arrival(live, &name) > 0;
            let seen = if expect {
                self.sched.wait(&name, self.deadline, false)
            } else {
                self.sched.wait(&name, Duration::from_millis(0), false)
            };
            match seen {
                Seen::Parked(_) | Seen::Done(_) => {
                    live.blocked.insert(name.clone(), false);
                }
                _ if must => {
                    res.stuck = Some(name.clone());
                    self.sched.note(&name, "stuck");
                    return false
                }
                _ => {}
            }
        }
        let now = self.sample(live);
        self.sched.note("v", &format!("{}{}", now.0.1, if now.1 { "a" } else { "i" }));
        true
    }

    /// Moves the events logged since the last step into `res.trace` as one
    /// step record: the stepped actor's events first, then the others' in
    /// scenario order (only a woken request can run beside the stepped
    /// actor), then the served serial.
    fn cut_step(&self, sc: &Scenario, live: &mut Live, actor: &str, res: &mut RunResult) {
        let all = self.sched.raw_log();
        let new = &all[live.cut.min(all.len())..];
        live.cut = all.len();
        let mut parts = Vec::new();
        let mut order: Vec<&str> = vec![actor];
        for (n, _) in &sc.actors { if n != actor { order.push(n.as_str()) } }
        for a in order {
            let evs: Vec<&str> = new.iter().filter(|(x, _)| x == a).map(|(_, e)| e.as_str()).collect();
            if a == actor || !evs.is_empty() {
                parts.push(format!("{a}[{}]", evs.join(",")));
            }
        }
        let v = new.iter().rev().find(|(x, _)| x == "v").map(|(_, e)| e.clone()).unwrap_or_default();
        res.trace.push(format!("{}={v}", parts.join("+")));
    }

    fn sent_since_arrival(&self, live: &Live, actor: &str) -> u64 {
        live.sends - live.sends_at_arrival.get(actor).copied().unwrap_or(live.sends)
    }

    /// The updater has installed data in its current run and not yet passed
    /// `notify`.
    fn notify_owed(&self, sc: &Scenario, live: &Live) -> bool {
        for (name, spec) in &sc.actors {
            if let ActorSpec::Updater { .. } = spec {
                if let AState::Parked(_) = self.sched.state(name) {
                    if let Some(start) = live.run_start_version {
                        if self.sample(live) != start { return true }
                    }
                }
            }
        }
        false
    }

    /// The property's own condition: the served version differed from the
    /// presented one at some moment since arrival and no notification of an
    /// update in progress is still to come.
    fn must_return_now(&self, sc: &Scenario, live: &Live, actor: &str) -> bool {
        live.differed.get(actor).copied().unwrap_or(false) && !self.notify_owed(sc, live)
    }

    fn may_block(&self, sc: &Scenario, live: &Live, actor: &str, spec: &ActorSpec) -> bool {
        // A notify request can only wait right after its version check.
        self.is_notify(spec)
            && self.sched.state(actor) == AState::Parked("http-notify:checked".into())
            && !self.must_return_now(sc, live, actor)
            && self.sent_since_arrival(live, actor) == 0
    }

    fn start(&self, sc: &Scenario, live: &mut Live, actor: &str, spec: &ActorSpec) {
        let run = live.run;
        live.started.insert(actor.to_string(), true);
        match spec {
            ActorSpec::Updater { runs } => {
                let world = live.world.clone();
                let runs = runs.clone();
                let clocks = sc.run_clocks.clone();
                let base_config = self.base.config.clone();
                let engine = self.base.engine.clone();
                live.run_start_version = Some(self.sample(live));
                let sched = self.sched.clone();
                let name = actor.to_string();
                self.sched.spawn(run, actor, move || {
                    let mut out = Vec::new();
                    for (i, items) in runs.iter().enumerate() {
                        if let Some((s, n)) = clocks.get(i) { rvcore::clock::set(*s, *n) }
                        sched.note(&name, "run");
                        let exceptions = crate::world::exceptions_for(items);
                        let mut notify = world.notify.clone();
                        let r = routinator::operation::Server::verif_process_once(
                            &base_config, &engine, &world.history, &mut notify, &exceptions, false
                        );
                        out.push(if r.is_ok() { "ok" } else { "failed" });
                    }
                    out.join(",")
                });
            }
            ActorSpec::Http { path, headers, notify } => {
                if let Some(presented) = notify {
                    let now = self.sample(live).0;
                    let differs = match presented { Some(v) => *v != now, None => true };
                    live.differed.insert(actor.to_string(), differs);
                    live.sends_at_arrival.insert(actor.to_string(), live.sends);
                }
                self.sched.set_state(actor, AState::Running);
                let Some(addr) = live.addrs.get(actor).copied() else {
                    self.sched.finish(run, actor, "harness-error:no-listener".into());
                    return
                };
                let subst = |v: &str| -> String {
                    let mut out = v.to_string();
                    for (k, (_, etag, lm, _)) in live.prelude_responses.iter().enumerate() {
                        out = out.replace(&format!("{{etag:{k}}}"), etag);
                        out = out.replace(&format!("{{lm:{k}}}"), lm);
                    }
                    out
                };
                let (path, headers) = (path.clone(), headers.iter().map(|(n, v)| (n.clone(), subst(v))).collect::<Vec<_>>());
                let sched = self.sched.clone();
                let name = actor.to_string();
                std::thread::Builder::new().name(format!("cl{run}:{actor}")).spawn(move || {
                    let r = http_get(addr, &path, &headers, Duration::from_secs(60));
                    let s = match r {
                        Ok(resp) => json!({
                            "status": resp.status,
                            "etag": resp.header("etag"),
                            "last_modified": resp.header("last-modified"),
                            "body": String::from_utf8_lossy(&resp.body),
                        }).to_string(),
                        Err(err) => json!({"error": err}).to_string(),
                    };
                    sched.finish(run, &name, s);
                }).expect("client thread");
            }
            ActorSpec::Rtr { calls } => {
                let world = live.world.clone();
                let calls = calls.clone();
                self.sched.spawn(run, actor, move || crate::rtrsrc::run_calls(&world, &calls));
            }
        }
    }

    /// `n` random schedules (uniform choice among the enabled actors at every
    /// decision).
    pub fn random_schedules(
        &self, sc: &Scenario, n: usize, rng: &mut rvcore::Rng, mut f: impl FnMut(&RunResult) -> bool
    ) -> usize {
        let mut count = 0;
        for _ in 0..n {
            // choices beyond the number of enabled actors are reduced modulo
            let prefix: Vec<usize> = (0..64).map(|_| rng.below(1 << 16) as usize).collect();
            let res = self.run_with(sc, &prefix, None, true);
            count += 1;
            if !f(&res) { break }
        }
        count
    }

    /// All schedules of the scenario, depth-first, each by re-execution.
    pub fn explore(&self, sc: &Scenario, limit: usize, mut f: impl FnMut(&RunResult) -> bool) -> usize {
        let mut prefix: Vec<usize> = Vec::new();
        let mut count = 0;
        loop {
            let res = self.run(sc, &prefix, None);
            count += 1;
            let stop = !f(&res);
            if stop || count >= limit { return count }
            // next prefix: the choices made, backtracked
            let mut choices: Vec<usize> = prefix.clone();
            choices.resize(res.widths.len(), 0);
            let mut i = choices.len();
            loop {
                if i == 0 { return count }
                i -= 1;
                if choices[i] + 1 < res.widths[i] {
                    choices[i] += 1;
                    choices.truncate(i + 1);
                    break
                }
            }
            prefix = choices;
        }
    }
}

fn spec_of<'a>(sc: &'a Scenario, actor: &str) -> Option<&'a ActorSpec> {
    sc.actors.iter().find(|(n, _)| n == actor).map(|(_, s)| s)
}

pub fn parse_result(s: &str) -> Value {
    serde_json::from_str(s).unwrap_or(Value::Null)
}
