//! Group "httpsched": schedule properties C17, C16, C15.
mod sched;
mod world;
mod director;
mod rtrsrc;
mod c17;
mod c16;
mod c15;

fn run(name: &str, ctx: &mut rvcore::Ctx) -> bool {
    match name {
        "c17" => c17::run_c17(ctx),
        "c16" => c16::run_c16(ctx),
        "c15" => c15::run_c15(ctx),
        _ => return false
    }
    true
}

fn main() { rvcore::main_with(run, rvcore::no_special) }
