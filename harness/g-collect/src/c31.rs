//! C31: no fetches to dubious hosts unless allowed.
//!
//! * classification: `UriExt::has_dubious_authority` on rsync and HTTPS URIs
//!   over a catalogue of host forms;
//! * gates: the real `rsync::Run::load_module` and `rrdp::Run::load_repository`
//!   with `allow_dubious_hosts` on and off. Observed: invocations of the rsync
//!   command (the harness binary in `fake-rsync` mode logs them), `CONNECT`
//!   requests arriving at a local HTTP proxy every RRDP request is sent
//!   through, and the collector's own metrics (`Rejected` vs. attempted).

use std::io::{Read, Write};
use std::net::TcpListener;
use std::path::{Path, PathBuf};
use std::sync::{Arc, Mutex};
use routinator::collector::{Collector, HttpStatus};
use routinator::metrics::Metrics;
use routinator::utils::uri::UriExt;
use serde_json::{json, Value};
use rvcore::Ctx;
use crate::uris;

//------------ The oracle's own notion of a dubious host ---------------------

/// RFC 3986 `IPv4address`: four decimal octets without leading zeros.
fn is_ipv4_literal(a: &str) -> bool {
    let parts: Vec<&str> = a.split('.').collect();
    parts.len() == 4 && parts.iter().all(|p| {
        !p.is_empty() && p.len() <= 3 && p.bytes().all(|b| b.is_ascii_digit())
            && (p.len() == 1 || !p.starts_with('0'))
            && p.parse::<u32>().map(|v| v <= 255).unwrap_or(false)
    })
}

/// What the property calls a host that must not be contacted: the name
/// `localhost` (host names are case-insensitive), an IP address literal
/// (dotted quad; every IPv6 literal contains a colon), an explicit port
/// (a colon).
pub fn expected_dubious(a: &str) -> bool {
    a.eq_ignore_ascii_case("localhost") || a.contains(':') || is_ipv4_literal(a)
}

//------------ Host forms ----------------------------------------------------

pub const HOST_FORMS: &[&str] = &[
    // names
    "example.net", "EXAMPLE.NET", "rpki.example.org", "rpki.example.org.", "a", "xn--bcher-kva.example",
    "localhost", "LOCALHOST", "Localhost", "lOcAlHoSt", "localhosT", "localhost.", "LOCALHOST.",
    "localhost.localdomain", "notlocalhost", "localhost1", "xlocalhost", "local-host", "localhos",
    "foo.localhost", "ip6-localhost",
    // IPv4 literals and near misses
    "192.0.2.1", "127.0.0.1", "0.0.0.0", "255.255.255.255", "10.0.0.1", "1.1.1.1", "9.9.9.9",
    "256.1.1.1", "1.2.3", "1.2.3.4.5", "01.2.3.4", "1.2.3.04", "001.2.3.4", "1.2.3.4.", ".1.2.3.4",
    "1..2.3", "1.2.3.a", "0x7f.0.0.1", "2130706433", "127.1", "1.2.3.1000", "00.0.0.0", "0.0.0.00",
    "1.2.3.4a", "a1.2.3.4", "1.2.3.-4", "1,2,3,4", "192.0.2.1.example.net",
    // ports
    "host:873", "host:443", "HOST:8443", "host:0", "host:65535", "host:65536", "localhost:8080",
    "LOCALHOST:8080", "192.0.2.1:873", "host:", ":873", "h:1:2", "host:rsync", "example.net:443",
    // IPv6 literals (unbracketed: brackets are not URI characters for rpki)
    "::1", "::", "2001:db8::1", "2001:DB8::1", "::ffff:192.0.2.1", "fe80::1%25eth0", "1:2:3:4:5:6:7:8",
    "[::1]", "[::1]:873", "[2001:db8::1]",
    // odd but legal characters
    "%6cocalhost", "localhost%00", "~localhost", "localhost;x", "a;b", "h,h", "_", "-", "...", "h_1",
];

fn url_parseable(authority: &str) -> bool {
    // what reqwest's URL parser accepts as an https authority without rewriting the host
    let (host, port) = match authority.rsplit_once(':') {
        Some((h, p)) => (h, Some(p)),
        None => (authority, None),
    };
    if host.is_empty() || host.contains(':') { return false }
    if !host.bytes().all(|b| b.is_ascii_alphanumeric() || b == b'.' || b == b'-') { return false }
    if host.split('.').any(|l| l.is_empty()) && !host.ends_with('.') { return false }
    if host.starts_with('.') || host.contains("..") { return false }
    // numeric-looking last label: the URL parser treats the host as an IPv4 address (or fails)
    let last = host.trim_end_matches('.').rsplit('.').next().unwrap_or("");
    if last.bytes().all(|b| b.is_ascii_digit()) || last.starts_with("0x") {
        if !is_ipv4_literal(host) { return false }
    }
    match port {
        None => true,
        Some(p) => p.is_empty() || (p.bytes().all(|b| b.is_ascii_digit()) && p.parse::<u32>().map(|v| v <= 65535).unwrap_or(false)),
    }
}

//------------ The proxy that sees every RRDP connection attempt -------------

pub struct ProxyLog {
    pub port: u16,
    log: Arc<Mutex<Vec<String>>>,
}

impl ProxyLog {
    pub fn start() -> Self {
        let listener = TcpListener::bind("127.0.0.1:0").expect("bind proxy");
        let port = listener.local_addr().unwrap().port();
        let log = Arc::new(Mutex::new(Vec::new()));
        let log2 = log.clone();
        std::thread::spawn(move || {
            for conn in listener.incoming() {
                let Ok(mut conn) = conn else { continue };
                let _ = conn.set_read_timeout(Some(std::time::Duration::from_secs(5)));
                let mut buf = Vec::new();
                let mut chunk = [0u8; 1024];
                while !buf.windows(4).any(|w| w == b"\r\n\r\n") && buf.len() < 8192 {
                    match conn.read(&mut chunk) {
                        Ok(0) | Err(_) => break,
                        Ok(n) => buf.extend_from_slice(&chunk[..n]),
                    }
                }
                let text = String::from_utf8_lossy(&buf);
                let line = text.lines().next().unwrap_or("").to_string();
                log2.lock().unwrap().push(line);
                let _ = conn.write_all(b"HTTP/1.1 502 Bad Gateway\r\nContent-Length: 0\r\nConnection: close\r\n\r\n");
            }
        });
        ProxyLog { port, log }
    }

    pub fn take(&self) -> Vec<String> { std::mem::take(&mut *self.log.lock().unwrap()) }
}

//------------ The real collectors -------------------------------------------

pub struct Gates {
    pub rsync_log: PathBuf,
    pub proxy: ProxyLog,
    pub filtering: Collector,
    pub allowing: Collector,
}

impl Gates {
    pub fn new(dir: &Path) -> Self {
        let _ = std::fs::remove_dir_all(dir);
        std::fs::create_dir_all(dir).unwrap();
        let rsync_log = dir.join("rsync.log");
        std::env::set_var("VERIF_RSYNC_LOG", &rsync_log);
        std::env::set_var("VERIF_RSYNC_EXIT", "1");
        let proxy = ProxyLog::start();
        let make = |name: &str, allow: bool| {
            let cache = dir.join(name);
            std::fs::create_dir_all(&cache).unwrap();
            let mut config = crate::c30::fake_rsync_config(&cache);
            config.allow_dubious_hosts = allow;
            config.rrdp_proxies = vec![format!("http://127.0.0.1:{}", proxy.port)];
            config.rrdp_timeout = Some(std::time::Duration::from_secs(10));
            config.rrdp_connect_timeout = Some(std::time::Duration::from_secs(5));
            let mut collector = Collector::new(&config).expect("collector");
            collector.ignite().expect("ignite");
            collector
        };
        let filtering = make("filtering", false);
        let allowing = make("allowing", true);
        Gates { rsync_log, proxy, filtering, allowing }
    }

    fn take_rsync_log(&self) -> Vec<String> {
        let res = std::fs::read_to_string(&self.rsync_log).unwrap_or_default()
            .lines().map(String::from).collect();
        let _ = std::fs::remove_file(&self.rsync_log);
        res
    }
}

//------------ Cases ---------------------------------------------------------

fn classify_case(ctx: &mut Ctx, input: &Value) {
    let scheme = input["classify"][0].as_str().unwrap_or("");
    let text = input["classify"][1].as_str().unwrap_or("");
    let (authority, dubious) = match scheme {
        "rsync" => match uris::rsync(text) {
            Some(u) => (u.authority().to_string(), u.has_dubious_authority()),
            None => { ctx.count("unparseable-uri"); return }
        },
        _ => match uris::https(text) {
            Some(n) => (n.authority().to_string(), n.has_dubious_authority()),
            None => { ctx.count("unparseable-uri"); return }
        },
    };
    ctx.case(input, &format!("c31 classify {scheme} {text}"), &format!("dubious={}", dubious as u8));
    ctx.count(if dubious { "classified-dubious" } else { "classified-fine" });
    if expected_dubious(&authority) && !dubious {
        let class = if authority.eq_ignore_ascii_case("localhost") { "localhost-case" } else { "not-classified" };
        ctx.oracle_fail(
            class, &format!("authority {authority:?} is localhost / an IP literal / has a port but is not classified as dubious"),
            input, json!({"authority": authority, "has_dubious_authority": dubious}),
        );
    }
    ctx.nontrivial(format!("classify:{scheme}:{}", authority.to_ascii_lowercase()));
}

fn gate_case(ctx: &mut Ctx, gates: &Gates, input: &Value) {
    let filter = input["filter"].as_bool().unwrap_or(true);
    let collector = if filter { &gates.filtering } else { &gates.allowing };
    let Some(reqs) = input["reqs"].as_array() else { return };
    let run = collector.start();
    let _ = gates.take_rsync_log();
    let _ = gates.proxy.take();
    let mut op = format!("c31 run {}", filter as u8);
    // per request: (kind, uri text, authority, network observation)
    let mut seen: Vec<(String, String, String, Vec<String>)> = Vec::new();
    let mut rrdp_results = Vec::new();
    for req in reqs {
        let kind = req["t"].as_str().unwrap_or("");
        let text = req["uri"].as_str().unwrap_or("");
        match kind {
            "m" => {
                let Some(u) = uris::rsync(text) else { ctx.count("unparseable-uri"); return };
                run.verif_rsync().expect("rsync enabled").load_module(&u);
                seen.push((kind.into(), text.into(), u.authority().into(), gates.take_rsync_log()));
                rrdp_results.push(String::new());
            }
            _ => {
                let Some(n) = uris::https(text) else { ctx.count("unparseable-uri"); return };
                let res = run.verif_rrdp().expect("rrdp enabled").load_repository(&n);
                use routinator::collector::verif_api::LoadResult;
                rrdp_results.push(match res {
                    Ok(LoadResult::Unavailable) => "U", Ok(LoadResult::Stale) => "S",
                    Ok(LoadResult::Current) => "C", Ok(LoadResult::Updated(_)) => "D",
                    Err(_) => "E",
                }.to_string());
                seen.push((kind.into(), text.into(), n.authority().into(), gates.proxy.take()));
            }
        }
        op.push_str(&format!(" {kind}:{text}"));
    }
    let mut metrics = Metrics::new();
    run.done(&mut metrics);
    // metrics: which repositories / modules were attempted
    let mut attempted_rrdp: Vec<(String, bool)> = metrics.rrdp.iter().map(|m| {
        (m.notify_uri.as_str().to_string(), !matches!(m.notify_status, HttpStatus::Rejected))
    }).collect();
    let mut rsync_runs: Vec<String> = metrics.rsync.iter().map(|m| m.module.as_str().to_string()).collect();
    let mut out = Vec::new();
    for (i, (kind, text, authority, net)) in seen.iter().enumerate() {
        let dubious = expected_dubious(authority);
        if kind == "m" {
            let spawned = !net.is_empty();
            // the module as handed to rsync
            let u = uris::rsync(text).unwrap();
            let module = u.canonical_module().into_owned();
            if spawned && !net.iter().all(|l| l.contains(&module)) {
                ctx.oracle_fail("rsync-wrong-module", "rsync was started for another module", input, json!({"log": net, "expected": module}));
            }
            let in_metrics = rsync_runs.iter().position(|m| *m == module).map(|p| { rsync_runs.remove(p); true }).unwrap_or(false);
            if in_metrics != spawned { ctx.count("note:rsync metrics and process log differ") }
            out.push(format!("m{}", spawned as u8));
            ctx.count(if spawned { "rsync-fetch" } else { "rsync-no-fetch" });
            if filter && dubious && spawned {
                ctx.oracle_fail(
                    if authority.eq_ignore_ascii_case("localhost") { "localhost-case" } else { "rsync-fetch-to-dubious-host" },
                    &format!("rsync was started for the dubious authority {authority:?} although dubious hosts are not allowed"),
                    input, json!({"request": i, "rsync_invocations": net}),
                );
            }
        }
        else {
            let connected = !net.is_empty();
            let attempted = attempted_rrdp.iter().position(|(u, _)| u == text)
                .map(|p| attempted_rrdp.remove(p).1).unwrap_or(false);
            if connected && !attempted { ctx.count("note:connection without attempt in metrics") }
            if attempted && !connected && url_parseable(authority) {
                ctx.oracle_fail("observation-broken", "an update attempt for a well-formed host did not reach the proxy", input, json!({"request": i}));
            }
            out.push(format!("r{}{}", attempted as u8, rrdp_results[i]));
            ctx.count(if connected { "rrdp-connect" } else if attempted { "rrdp-attempt-without-connection" } else { "rrdp-no-fetch" });
            if filter && dubious && (connected || attempted) {
                ctx.oracle_fail(
                    if authority.eq_ignore_ascii_case("localhost") { "localhost-case" } else { "rrdp-fetch-to-dubious-host" },
                    &format!("an RRDP request was started for the dubious authority {authority:?} although dubious hosts are not allowed"),
                    input, json!({"request": i, "proxy_log": net, "attempted": attempted}),
                );
            }
        }
    }
    ctx.case(input, &op, &out.join(" "));
    ctx.nontrivial(format!("gate:{}:{}", filter, out.join("")));
}

fn gen_inputs(ctx: &mut Ctx) -> Vec<Value> {
    let mut res = Vec::new();
    // exhaustive over the catalogue
    for host in HOST_FORMS {
        for (scheme, text) in [
            ("rsync", format!("rsync://{host}/repo/")), ("https", format!("https://{host}/rrdp/notification.xml")),
        ] {
            res.push(json!({"classify": [scheme, text]}));
            for filter in [true, false] {
                let t = if scheme == "rsync" { "m" } else { "r" };
                res.push(json!({"filter": filter, "reqs": [{"t": t, "uri": text}]}));
            }
        }
    }
    // sequences on one run: repeated and case-variant requests, mixed transports
    let n = ctx.budget(120, 1500);
    for _ in 0..n {
        let filter = ctx.rng.chance(2, 3);
        let len = ctx.rng.range(2, 4);
        let base = *ctx.rng.pick(HOST_FORMS);
        let mut reqs = Vec::new();
        for _ in 0..len {
            let host: String = match ctx.rng.below(4) {
                0 => base.to_string(),
                1 => base.to_ascii_uppercase(),
                2 => base.to_ascii_lowercase(),
                _ => ctx.rng.pick(HOST_FORMS).to_string(),
            };
            let module = *ctx.rng.pick(&["repo", "Repo", "m"]);
            if ctx.rng.chance(1, 2) {
                reqs.push(json!({"t": "m", "uri": format!("rsync://{host}/{module}/a/b.cer")}));
            }
            else {
                let path = *ctx.rng.pick(&["/n.xml", "/N.xml", "/rrdp/notification.xml"]);
                reqs.push(json!({"t": "r", "uri": format!("https://{host}{path}")}));
            }
        }
        res.push(json!({"filter": filter, "reqs": reqs}));
    }
    res
}

pub fn run_c31(ctx: &mut Ctx) {
    ctx.rule = "every host form of a fixed catalogue (names, localhost in all letter cases and with trailing dots, \
        dotted quads and near misses, ports, IPv6 forms, bracketed forms (rejected by the URI parser), odd characters) \
        as authority of an rsync and an HTTPS URI: classification, and one load_module / load_repository with \
        allow-dubious-hosts off and on (exhaustive over the catalogue); plus random sequences of 2–4 requests on \
        one run (repeats, case variants, both transports); non-trivial = distinct (kind, authority) and gate \
        outcome signatures".into();
    let gates = Gates::new(&ctx.out.join("gates"));
    let inputs = match ctx.replay_inputs() {
        Some(inputs) => inputs,
        None => {
            let mut res = ctx.corpus("C31");
            res.extend(gen_inputs(ctx));
            res
        }
    };
    for input in &inputs {
        if input.get("classify").is_some() { classify_case(ctx, input) }
        else { gate_case(ctx, &gates, input) }
    }
    ctx.extra("host_forms", json!(HOST_FORMS.len()));
    let _ = std::fs::remove_dir_all(ctx.out.join("gates"));
}
