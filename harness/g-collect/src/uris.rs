//! Generators for syntactically valid rsync and HTTPS URIs, and the URI
//! equivalences the C30 oracle uses.

use std::str::FromStr;
use rpki::uri;
use rvcore::Rng;

pub const HEX64: &str =
    "0123456789abcdef0123456789abcdef0123456789abcdef0123456789abcdef";

/// Authorities valid for both schemes.
pub const HOSTS: &[&str] = &[
    "example.net", "Example.NET", "EXAMPLE.net", "rpki.example.org", "rpki.example.org.",
    "a", "A", "b", "h-1.x", "xn--bcher-kva.example", "192.0.2.1", "host:873", "HOST:873",
    "localhost", "LOCALHOST", "%41.example", "~h", "a;b", "h,h", "rsync", "Rsync", "rrdp",
    "stored", "tmp", "ta", "https", "a-1", "a-2", "rsync-1", "...", "..a", "a..", "-", "_",
    "rsync:", "h=1", "!$&'()*+", HEX64,
];

/// Authorities only `Https` accepts.
pub const ODD_HTTPS_HOSTS: &[&str] = &["", ".", ".."];

pub const MODULES: &[&str] = &[
    "repo", "Repo", "REPO", "m", "n", "ta", "rsync", "rrdp", "%2e%2e", "~", "mod;x", "a-1",
    "...", "..m", "module.with.dots", "x,y", HEX64,
];

pub const SEGS: &[&str] = &[
    "a", "A", "b", "b.cer", "x.mft", "x.MFT", "%2F", "%2e%2e", "%2E%2E", "~", ";", "...",
    "..a", "a..", "-", "deep", "rsync", "stored", "a;b", "a=b", "a,b", "0", HEX64,
];

pub const HTTPS_PATHS: &[&str] = &[
    "", "/", "/n.xml", "/N.xml", "/notification.xml", "/a/b/notification.xml", "//x", "/..",
    "/../x", "/./x", "/a/../b", "/a/", "/a", "/%2e%2e/x", "/ta/ta.cer", "/ta/ta.cer/", "/;", "/~",
];

pub const RSYNC_SCHEMES: &[&str] = &["rsync://", "rsync://", "rsync://", "RSYNC://", "Rsync://"];
pub const HTTPS_SCHEMES: &[&str] = &["https://", "https://", "https://", "HTTPS://", "Https://"];

#[derive(Clone, Debug)]
pub struct RsyncParts {
    pub scheme: String,
    pub auth: String,
    pub module: String,
    pub segs: Vec<String>,
    pub dir: bool,
}

impl RsyncParts {
    pub fn render(&self) -> String {
        let mut res = format!("{}{}/{}/", self.scheme, self.auth, self.module);
        res.push_str(&self.segs.join("/"));
        if self.dir && !self.segs.is_empty() { res.push('/') }
        res
    }
}

pub fn gen_rsync(rng: &mut Rng) -> RsyncParts {
    let depth = match rng.below(8) { 0 => 0, 1 | 2 => 1, 3 | 4 => 2, 5 => 3, 6 => 5, _ => 9 };
    RsyncParts {
        scheme: rng.pick(RSYNC_SCHEMES).to_string(),
        auth: rng.pick(HOSTS).to_string(),
        module: rng.pick(MODULES).to_string(),
        segs: (0..depth).map(|_| rng.pick(SEGS).to_string()).collect(),
        dir: rng.chance(1, 4),
    }
}

fn flip_case(s: &str, rng: &mut Rng) -> String {
    s.chars().map(|c| {
        if rng.chance(1, 2) {
            if c.is_ascii_lowercase() { c.to_ascii_uppercase() } else { c.to_ascii_lowercase() }
        } else { c }
    }).collect()
}

/// A close relative of `u`: the generator of pairs that differ in exactly
/// one respect (or in none that matters).
pub fn mutate_rsync(u: &RsyncParts, rng: &mut Rng) -> RsyncParts {
    let mut v = u.clone();
    match rng.below(14) {
        0 => { }
        1 => v.auth = flip_case(&u.auth, rng),
        2 => v.scheme = rng.pick(RSYNC_SCHEMES).to_string(),
        3 => v.dir = !u.dir,
        4 => v.module = rng.pick(MODULES).to_string(),
        5 => v.module = flip_case(&u.module, rng),
        6 => v.auth = rng.pick(HOSTS).to_string(),
        7 => if !v.segs.is_empty() {
            let i = rng.below(v.segs.len() as u64) as usize;
            v.segs[i] = rng.pick(SEGS).to_string();
        } else { v.segs.push(rng.pick(SEGS).to_string()) },
        8 => if !v.segs.is_empty() {
            let i = rng.below(v.segs.len() as u64) as usize;
            v.segs[i] = flip_case(&u.segs[i], rng);
        } else { v.module = flip_case(&u.module, rng) },
        9 => { v.segs.pop(); }
        10 => v.segs.push(rng.pick(SEGS).to_string()),
        // shift the boundaries: module becomes first segment etc.
        11 => { v.segs.insert(0, u.module.clone()); v.module = u.auth.clone(); }
        12 => if !v.segs.is_empty() { v.module = v.segs.remove(0); },
        _ => if v.segs.len() >= 2 {
            let a = v.segs.remove(0);
            v.segs[0] = format!("{}%2F{}", a, v.segs[0]);
        } else { v.dir = !u.dir },
    }
    v
}

#[derive(Clone, Debug)]
pub struct HttpsParts {
    pub scheme: String,
    pub auth: String,
    pub path: String,
}

impl HttpsParts {
    pub fn render(&self) -> String { format!("{}{}{}", self.scheme, self.auth, self.path) }
}

pub fn gen_https(rng: &mut Rng) -> HttpsParts {
    let auth = if rng.chance(1, 5) { rng.pick(ODD_HTTPS_HOSTS) } else { rng.pick(HOSTS) };
    HttpsParts {
        scheme: rng.pick(HTTPS_SCHEMES).to_string(),
        auth: auth.to_string(),
        path: rng.pick(HTTPS_PATHS).to_string(),
    }
}

pub fn mutate_https(u: &HttpsParts, rng: &mut Rng) -> HttpsParts {
    let mut v = u.clone();
    match rng.below(9) {
        0 => { }
        1 => v.auth = flip_case(&u.auth, rng),
        2 => v.scheme = rng.pick(HTTPS_SCHEMES).to_string(),
        3 => v.path = rng.pick(HTTPS_PATHS).to_string(),
        4 => v.path = flip_case(&u.path, rng),
        5 => v.auth = rng.pick(HOSTS).to_string(),
        6 => v.auth = rng.pick(ODD_HTTPS_HOSTS).to_string(),
        7 => v.path = format!("{}/", u.path),
        // move the boundary between authority and path
        _ => if let Some(rest) = u.path.strip_prefix('/') {
            if !rest.is_empty() && !rest.contains('/') {
                v.auth = format!("{}{}", u.auth, rest); v.path = String::new();
            }
        },
    }
    v
}

pub fn rsync(s: &str) -> Option<uri::Rsync> { uri::Rsync::from_str(s).ok() }
pub fn https(s: &str) -> Option<uri::Https> { uri::Https::from_str(s).ok() }

/// The rsync URI equivalence of C30: authority up to ASCII case, module and
/// path equal, a single trailing slash ignored. (rpki's `Eq` additionally
/// distinguishes the trailing slash; the file system cannot.)
pub fn rsync_equiv(u: &uri::Rsync, v: &uri::Rsync) -> bool {
    u.canonical_authority() == v.canonical_authority()
        && u.module_name() == v.module_name()
        && u.path().strip_suffix('/').unwrap_or(u.path())
            == v.path().strip_suffix('/').unwrap_or(v.path())
}

/// The HTTPS URI equivalence of C30 = rpki's `Eq for Https`.
pub fn https_equiv(m: &uri::Https, n: &uri::Https) -> bool { m == n }

/// A canonical name of the equivalence class.
pub fn rsync_class(u: &uri::Rsync) -> String {
    format!("{}/{}/{}", u.canonical_authority(), u.module_name(),
        u.path().strip_suffix('/').unwrap_or(u.path()))
}
pub fn https_class(n: &uri::Https) -> String {
    format!("{}{}", n.canonical_authority(), n.path())
}
