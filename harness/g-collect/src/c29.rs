//! C29: the RRDP-to-rsync fallback table against the real
//! `collector::Run::repository` with real transports: an HTTPS server that
//! serves (or refuses) a small RRDP repository, the fake clock for the
//! best-before time of the local copy, the fake rsync command.
//!
//! Two families of rows:
//! * the full product policy × outcome × RRDP on/off × rsync on/off ×
//!   rpkiNotify present/absent (96 rows);
//! * rows with a local copy and a failing update where the configuration
//!   (`refresh`, `rrdp-fallback-time`) and the clock change between the
//!   successful update that stored the copy and the failing one.
//!
//! The oracle never trusts the implementation's own classification: it
//! decodes the best-before time actually stored in the archive, compares it
//! with the (fake) clock and demands the statement's table for the outcome
//! class that follows.

use std::path::{Path, PathBuf};
use std::str::FromStr;
use std::sync::Arc;
use rpki::crypto::softsigner::OpenSslSigner;
use rpki::crypto::{DigestAlgorithm, PublicKeyFormat, Signer};
use rpki::repository::cert::{KeyUsage, Overclaim, TbsCert};
use rpki::repository::resources::Prefix;
use rpki::repository::tal::{TalInfo, TalUri};
use rpki::repository::x509::{Time, Validity};
use rpki::uri;
use routinator::collector::{Collector, RrdpArchive};
use routinator::collector::verif_api::LoadResult;
use routinator::config::{Config, FallbackPolicy};
use routinator::engine::CaCert;
use serde_json::{json, Value};
use rvcore::Ctx;

pub const T0: i64 = 1_800_000_000;
const REFRESH: u64 = 600;
const FALLBACK: u64 = 3600;
const NS: &str = "http://www.ripe.net/rpki/rrdp";

fn hex(data: &[u8]) -> String { data.iter().map(|b| format!("{b:02x}")).collect() }

/// Two trust-anchor-style CA certificates that differ only in rpkiNotify.
pub struct Cas {
    pub with_notify: Arc<CaCert>,
    pub without_notify: Arc<CaCert>,
    pub notify: uri::Https,
    pub ca_repository: uri::Rsync,
}

pub fn make_cas(notify: &str, ca_repository: &str) -> Cas {
    let signer = OpenSslSigner::new();
    let key = signer.create_key(PublicKeyFormat::Rsa).expect("create key");
    let public = signer.get_key_info(&key).expect("key info");
    let notify = uri::Https::from_str(notify).expect("notify uri");
    let ca_repository = uri::Rsync::from_str(ca_repository).expect("rsync uri");
    let make = |with: bool| {
        let mut cert = TbsCert::new(
            1u64.into(), public.to_subject_name(),
            Validity::new(Time::utc(2020, 1, 2, 0, 0, 0), Time::utc(2090, 1, 1, 0, 0, 0)),
            None, public.clone(), KeyUsage::Ca, Overclaim::Refuse,
        );
        cert.set_basic_ca(Some(true));
        cert.set_ca_repository(Some(ca_repository.clone()));
        cert.set_rpki_manifest(Some(ca_repository.join(b"ca.mft").unwrap()));
        if with { cert.set_rpki_notify(Some(notify.clone())) }
        cert.build_v4_resource_blocks(|b| b.push(Prefix::from_v4_str("10.0.0.0/8").unwrap()));
        let cert = cert.into_cert(&signer, &key).expect("sign");
        let cert = cert.validate_ta(TalInfo::from_name("c29".into()).into_arc(), false)
            .expect("validate TA");
        CaCert::root(
            cert, TalUri::Rsync(ca_repository.join(b"ta.cer").unwrap()), 0
        ).expect("CaCert")
    };
    Cas { with_notify: make(true), without_notify: make(false), notify, ca_repository }
}

/// The DER encoding of a well-formed trust anchor certificate (fresh key).
pub fn make_ta_der(ca_repository: &str) -> Vec<u8> {
    let signer = OpenSslSigner::new();
    let key = signer.create_key(PublicKeyFormat::Rsa).expect("create key");
    let public = signer.get_key_info(&key).expect("key info");
    let ca_repository = uri::Rsync::from_str(ca_repository).expect("rsync uri");
    let mut cert = TbsCert::new(
        1u64.into(), public.to_subject_name(),
        Validity::new(Time::utc(2020, 1, 2, 0, 0, 0), Time::utc(2090, 1, 1, 0, 0, 0)),
        None, public.clone(), KeyUsage::Ca, Overclaim::Refuse,
    );
    cert.set_basic_ca(Some(true));
    cert.set_ca_repository(Some(ca_repository.clone()));
    cert.set_rpki_manifest(Some(ca_repository.join(b"ca.mft").unwrap()));
    cert.build_v4_resource_blocks(|b| b.push(Prefix::from_v4_str("10.0.0.0/8").unwrap()));
    cert.into_cert(&signer, &key).expect("sign").to_captured().into_bytes().to_vec()
}

/// A one-object RRDP repository on the test server.
pub fn serve_repository(srv: &httpsrv::Server, dir: &str) {
    let session = "9df4b597-af9e-4dca-bdda-719cce2c4e28";
    let object = rpki::util::base64::Xml.encode(b"an object");
    let snapshot = format!(
        "<snapshot xmlns=\"{NS}\" version=\"1\" session_id=\"{session}\" serial=\"1\">\n  \
         <publish uri=\"rsync://rsync.example/repo/ca/a.bin\">{object}</publish>\n</snapshot>\n"
    );
    let hash = DigestAlgorithm::sha256().digest(snapshot.as_bytes());
    let notification = format!(
        "<notification xmlns=\"{NS}\" version=\"1\" session_id=\"{session}\" serial=\"1\">\n  \
         <snapshot uri=\"{}\" hash=\"{}\"/>\n</notification>\n",
        srv.url(&format!("{dir}/snapshot.xml")), hex(hash.as_ref())
    );
    srv.set(&format!("{dir}/snapshot.xml"), httpsrv::Response::ok(snapshot));
    srv.set(&format!("{dir}/notification.xml"), httpsrv::Response::ok(notification));
}

pub fn refuse_repository(srv: &httpsrv::Server, dir: &str) {
    srv.set(&format!("{dir}/notification.xml"), httpsrv::Response::status(404));
    srv.remove(&format!("{dir}/snapshot.xml"));
}

pub fn base_config(cache: &Path) -> Config {
    let mut config = crate::c30::fake_rsync_config(cache);
    config.allow_dubious_hosts = true;
    config.rrdp_root_certs = vec![httpsrv::ca_cert_path()];
    config.refresh = std::time::Duration::from_secs(REFRESH);
    config.rrdp_fallback_time = std::time::Duration::from_secs(FALLBACK);
    config.rrdp_timeout = Some(std::time::Duration::from_secs(20));
    config
}

fn policy_of(name: &str) -> Option<FallbackPolicy> {
    Some(match name {
        "never" => FallbackPolicy::Never,
        "stale" => FallbackPolicy::Stale,
        "new" => FallbackPolicy::New,
        _ => return None
    })
}

/// The statement's table, written down independently of the code.
fn expected_transport(policy: &str, outcome: &str, rrdp: bool, rsync: bool, notify: bool) -> &'static str {
    if notify && rrdp && outcome == "updated" { return "rrdp" }
    let wants_rsync = !notify || !rrdp
        || (outcome == "unavailable" && (policy == "new" || policy == "stale"))
        || (outcome == "stale" && policy == "stale");
    if wants_rsync && rsync { "rsync" } else { "none" }
}

struct Env {
    dir: PathBuf,
    srv: httpsrv::Server,
    cas: Cas,
    rsync_log: PathBuf,
    n: usize,
    /// CAs announcing other (dubious) rpkiNotify URIs, made on demand
    dubious_cas: std::collections::HashMap<String, Cas>,
}

fn take_rsync_log(path: &Path) -> Vec<String> {
    let res = std::fs::read_to_string(path).unwrap_or_default().lines().map(String::from).collect();
    let _ = std::fs::remove_file(path);
    res
}

/// The best-before time stored in the local copy of the repository, if
/// there is a local copy (read from the archive file itself).
fn stored_best_before(config: &Config, notify: &uri::Https) -> Option<i64> {
    // the only archive in this row's cache: cache/rrdp/<authority>/<hash>.bin
    for dir in std::fs::read_dir(config.cache_dir.join("rrdp")).ok()?.flatten() {
        if dir.file_name() == "tmp" || !dir.path().is_dir() { continue }
        for file in std::fs::read_dir(dir.path()).ok()?.flatten() {
            if file.path().extension().map(|e| e == "bin").unwrap_or(false) {
                let archive = RrdpArchive::open(Arc::new(file.path())).ok()?;
                let state = archive.load_state().ok()?;
                if state.rpki_notify != *notify { return None }
                return Some(state.best_before_ts)
            }
        }
    }
    None
}

/// What lies between the successful update that stored the copy and the row.
struct Between {
    prep_refresh: u64,
    prep_fallback: u64,
    refresh: u64,
    fallback: u64,
    clock: String,
}

fn run_row(ctx: &mut Ctx, env: &mut Env, input: &Value) {
    let (Some(policy), Some(outcome)) = (input["policy"].as_str(), input["outcome"].as_str()) else { return };
    let (Some(rrdp), Some(rsync), Some(notify)) =
        (input["rrdp"].as_bool(), input["rsync"].as_bool(), input["notify"].as_bool()) else { return };
    let Some(fallback_policy) = policy_of(policy) else { return };
    // Rows with dubious hosts NOT allowed and an rpkiNotify URI with a dubious authority:
    // the CA announces RRDP, the load is rejected without a request (`Unavailable`).
    let dubious_notify = input["dubious_notify"].as_str().map(String::from);
    if let Some(text) = dubious_notify.as_ref() {
        let Ok(parsed) = uri::Https::from_str(text) else { return };
        if !crate::c31::expected_dubious(parsed.authority()) { return }
        if !env.dubious_cas.contains_key(text) {
            env.dubious_cas.insert(text.clone(), make_cas(text, "rsync://rsync.example/repo/ca/"));
        }
    }
    let rejected = dubious_notify.is_some() && rrdp && notify;
    // `copy` = a local copy and a failing update; current or stale is decided by the stored
    // best-before time and the clock, not by the row's label.
    if !["updated", "current", "stale", "unavailable", "copy"].contains(&outcome) { return }
    let between = {
        let b = &input["between"];
        let num = |key: &str, default: u64| b[key].as_u64().unwrap_or(default);
        Between {
            prep_refresh: num("prep_refresh", REFRESH), prep_fallback: num("prep_fallback", FALLBACK),
            refresh: num("refresh", REFRESH), fallback: num("fallback", FALLBACK),
            clock: b["clock"].as_str().map(String::from).unwrap_or_else(|| match outcome {
                "stale" => "beyond".into(),
                _ => "within".into(),
            }),
        }
    };
    env.n += 1;
    let cache = env.dir.join(format!("row{}", env.n));
    let _ = std::fs::remove_dir_all(&cache);
    std::fs::create_dir_all(&cache).unwrap();
    rvcore::clock::set(T0, 0);
    let secs = std::time::Duration::from_secs;

    // The world that produces the outcome.
    let dir = "/rrdp";
    let has_copy = ["current", "stale", "copy"].contains(&outcome);
    if has_copy {
        // a successful update at T0, under the configuration of that time, leaves a local copy
        serve_repository(&env.srv, dir);
        let mut prep = base_config(&cache);
        prep.refresh = secs(between.prep_refresh);
        prep.rrdp_fallback_time = secs(between.prep_fallback);
        let mut collector = Collector::new(&prep).expect("collector");
        collector.ignite().expect("ignite");
        let run = collector.start();
        match run.verif_rrdp().expect("rrdp").load_repository(&env.cas.notify) {
            Ok(LoadResult::Updated(_)) => { }
            _ => {
                ctx.oracle_fail("setup-broken", "the preparatory RRDP update did not succeed", input, json!({}));
                return
            }
        }
    }
    let update_ok = outcome == "updated";
    if update_ok { serve_repository(&env.srv, dir) } else { refuse_repository(&env.srv, dir) }

    // The row's configuration …
    let mut config = base_config(&cache);
    config.refresh = secs(between.refresh);
    config.rrdp_fallback_time = secs(between.fallback);
    config.rrdp_fallback = fallback_policy;
    config.disable_rrdp = !rrdp;
    config.disable_rsync = !rsync;
    config.allow_dubious_hosts = dubious_notify.is_none();
    let cas = match dubious_notify.as_ref() { Some(text) => &env.dubious_cas[text], None => &env.cas };
    // … what is stored …
    let stored = stored_best_before(&config, &cas.notify);
    if has_copy != stored.is_some() {
        ctx.oracle_fail("setup-broken", "local copy missing or unexpected", input, json!({"stored": stored}));
        return
    }
    // … and the clock.
    let now = match (between.clock.as_str(), stored) {
        ("back", _) => T0 - 500,
        ("edge-1", Some(bb)) => bb - 1,
        ("edge", Some(bb)) => bb,
        ("edge+1", Some(bb)) => bb + 1,
        ("beyond", Some(bb)) => bb + 5000,
        ("beyond", None) => T0 + 20_000,
        _ => T0 + 10,
    };
    rvcore::clock::set(now, 0);
    let _ = env.srv.take_log();
    let _ = take_rsync_log(&env.rsync_log);

    // The row itself.
    let mut collector = Collector::new(&config).expect("collector");
    collector.ignite().expect("ignite");
    let run = collector.start();
    let ca = if notify { &cas.with_notify } else { &cas.without_notify };
    let transport = match run.repository(ca) {
        Ok(Some(repo)) => if repo.is_rrdp() { "rrdp" } else { "rsync" },
        Ok(None) => "none",
        Err(_) => "error",
    };
    let http_log = env.srv.take_log();
    // was the RRDP runner consulted for this CA? On the wire: a notification request; for a
    // rejected URI there is none, the runner's record of handled repositories tells.
    let asked = if dubious_notify.is_some() {
        run.verif_rrdp().map(|r| r.was_updated(&cas.notify)).unwrap_or(false)
    } else {
        http_log.iter().any(|r| r.path.ends_with("/notification.xml"))
    };
    if dubious_notify.is_some() && !http_log.is_empty() {
        ctx.oracle_fail("dubious-request", "a request was sent although the host is dubious", input, json!({}));
    }
    let rsync_log = take_rsync_log(&env.rsync_log);
    let spawned = !rsync_log.is_empty();
    // what the RRDP runner concluded (cached on the run, no second fetch)
    let observed_outcome = if asked {
        match run.verif_rrdp().map(|r| r.load_repository(&cas.notify)) {
            Some(Ok(LoadResult::Updated(_))) => "updated",
            Some(Ok(LoadResult::Current)) => "current",
            Some(Ok(LoadResult::Stale)) => "stale",
            Some(Ok(LoadResult::Unavailable)) => "unavailable",
            _ => "error",
        }
    } else { "-" };
    if env.srv.take_log().iter().any(|r| r.path.ends_with("/notification.xml")) {
        ctx.oracle_fail("second-fetch", "the repository was fetched twice on one run", input, json!({}));
    }
    drop(run);
    rvcore::clock::set(T0, 0);

    let b = |x: bool| x as u8;
    ctx.case(
        input,
        &format!(
            "c29 {policy} {} {} {} {} {} {now} {} {} {}", b(rrdp), b(rsync), b(notify), b(update_ok),
            stored.map(|v| v.to_string()).unwrap_or_else(|| "-".into()), between.refresh, between.fallback,
            b(rejected)
        ),
        &format!("transport={transport} asks={} outcome={observed_outcome}", b(asked)),
    );
    ctx.count(&format!("transport:{transport}"));
    ctx.count(&format!("outcome:{observed_outcome}"));

    // The outcome class by the statement's words, from what is stored and the clock:
    // "current copy" = the stored best-before time has not passed, "expired" = it has.
    // In the very second of the best-before time the statement does not decide; the
    // implementation's answer is taken there.
    let truth = if rejected { "unavailable" } else if update_ok { "updated" } else {
        match stored {
            None => "unavailable",
            Some(bb) if now < bb => "current",
            Some(bb) if now > bb => "stale",
            Some(_) => if observed_outcome == "-" { "current" } else { observed_outcome },
        }
    };
    ctx.count(&format!("truth:{truth}"));
    ctx.nontrivial(format!(
        "{policy}/{truth}/{rrdp}/{rsync}/{notify}/{:?}/{}/{}/{}", dubious_notify,
        between.refresh.cmp(&between.prep_refresh) as i8,
        between.fallback.cmp(&between.prep_fallback) as i8, between.clock
    ));
    if ["current", "stale"].contains(&outcome) && outcome != truth {
        ctx.oracle_fail("setup-broken", "the row did not produce the outcome it is named after", input,
            json!({"stored_best_before": stored, "now": now, "truth": truth}));
    }

    let expected = expected_transport(policy, truth, rrdp, rsync, notify);
    let changed = between.refresh != between.prep_refresh || between.fallback != between.prep_fallback
        || between.clock == "back";
    let class = format!(
        "row:{policy}/{truth}/rrdp={}/rsync={}/notify={}{}{}", b(rrdp), b(rsync), b(notify),
        if changed { "/config-or-clock-changed" } else { "" },
        if dubious_notify.is_some() { "/dubious-notify" } else { "" }
    );
    if transport != expected {
        ctx.oracle_fail(
            &class,
            &format!(
                "transport used is {transport}, the policy table says {expected} (update {}, stored best-before {}, now {now}: {truth})",
                if update_ok { "succeeded" } else { "failed" },
                stored.map(|v| v.to_string()).unwrap_or_else(|| "none".into()),
            ),
            input, json!({"transport": transport, "expected": expected, "rsync_spawned": spawned,
                "rrdp_asked": asked, "rrdp_outcome": observed_outcome, "stored_best_before": stored, "now": now}),
        );
    }
    // the wire agrees with the answer
    if (transport == "rsync") != spawned {
        ctx.oracle_fail(
            &format!("{class}:wire"),
            &format!("transport {transport} but rsync {} started", if spawned { "was" } else { "was not" }),
            input, json!({"rsync_log": rsync_log}),
        );
    }
    if spawned && !rsync_log.iter().all(|l| l.contains("rsync://rsync.example/repo/")) {
        ctx.oracle_fail(&format!("{class}:wire"), "rsync was started for another module", input, json!({"rsync_log": rsync_log}));
    }
    if asked != (rrdp && notify) {
        ctx.oracle_fail(
            &format!("{class}:wire"),
            &format!("RRDP {} consulted", if asked { "was" } else { "was not" }),
            input, json!({"requests": http_log.iter().map(|r| r.path.clone()).collect::<Vec<_>>()}),
        );
    }
    let _ = std::fs::remove_dir_all(&cache);
}

pub fn all_rows() -> Vec<Value> {
    let mut res = Vec::new();
    for policy in ["never", "stale", "new"] {
        for outcome in ["updated", "current", "stale", "unavailable"] {
            for rrdp in [true, false] {
                for rsync in [true, false] {
                    for notify in [true, false] {
                        res.push(json!({
                            "policy": policy, "outcome": outcome,
                            "rrdp": rrdp, "rsync": rsync, "notify": notify
                        }));
                    }
                }
            }
        }
    }
    res
}

/// Rows with a local copy and a failing update where configuration and clock
/// change between the update that stored the copy and the failing one:
/// refresh and rrdp-fallback-time each unchanged / lowered / raised, the
/// clock stepped back, shortly after, one second before / at / after the
/// stored best-before time, far beyond it.
pub fn between_rows() -> Vec<Value> {
    const PREP_REFRESH: u64 = 3000;
    const PREP_FALLBACK: u64 = 9000;
    let mut res = Vec::new();
    for policy in ["never", "stale", "new"] {
        for refresh in [PREP_REFRESH, 600, 8000] {
            for fallback in [PREP_FALLBACK, 1200, 30_000] {
                for clock in ["back", "within", "edge-1", "edge", "edge+1", "beyond"] {
                    res.push(json!({
                        "policy": policy, "outcome": "copy", "rrdp": true, "rsync": true, "notify": true,
                        "between": {
                            "prep_refresh": PREP_REFRESH, "prep_fallback": PREP_FALLBACK,
                            "refresh": refresh, "fallback": fallback, "clock": clock
                        }
                    }));
                }
            }
        }
    }
    // the other switches once with everything lowered
    for (rrdp, rsync, notify) in [(true, false, true), (false, true, true), (true, true, false)] {
        for clock in ["within", "beyond"] {
            res.push(json!({
                "policy": "stale", "outcome": "copy", "rrdp": rrdp, "rsync": rsync, "notify": notify,
                "between": {
                    "prep_refresh": PREP_REFRESH, "prep_fallback": PREP_FALLBACK,
                    "refresh": 600, "fallback": 1200, "clock": clock
                }
            }));
        }
    }
    res
}

/// CAs announcing RRDP at a dubious authority while dubious hosts are not allowed.
pub fn dubious_rows() -> Vec<Value> {
    let mut res = Vec::new();
    for notify in [
        "https://localhost/rrdp/notification.xml", "https://127.0.0.1:1/notification.xml",
        "https://192.0.2.1/notification.xml", "https://rrdp.example.net:8443/notification.xml",
        "https://LOCALHOST/notification.xml",
    ] {
        for policy in ["never", "new", "stale"] {
            for rsync in [true, false] {
                res.push(json!({
                    "policy": policy, "outcome": "unavailable", "rrdp": true, "rsync": rsync, "notify": true,
                    "dubious_notify": notify
                }));
            }
        }
    }
    // and with RRDP disabled / the twin CA without rpkiNotify
    res.push(json!({"policy": "never", "outcome": "unavailable", "rrdp": false, "rsync": true, "notify": true,
        "dubious_notify": "https://rrdp.example.net:8443/notification.xml"}));
    res.push(json!({"policy": "never", "outcome": "unavailable", "rrdp": true, "rsync": true, "notify": false,
        "dubious_notify": "https://rrdp.example.net:8443/notification.xml"}));
    res
}

pub fn run_c29(ctx: &mut Ctx) {
    ctx.rule = "(a) the full product fallback policy × RRDP outcome × RRDP enabled × rsync enabled × rpkiNotify present \
        (96 rows) and (b) 168 rows with a local copy and a failing update where refresh and rrdp-fallback-time are each \
        unchanged / lowered / raised and the clock is stepped back / shortly after / one second before, at, after the \
        stored best-before / far beyond, between the update that stored the copy and the failing one; exhaustive in \
        both tiers, order shuffled by the seed; (c) 32 rows with dubious hosts not allowed and an rpkiNotify URI at a \
        dubious authority (localhost in two cases, IP literals, explicit port) × policy × rsync on/off; each row is produced with real transports (HTTPS server serving or \
        refusing a one-object RRDP repository, preparatory successful update, fake clock, fake rsync command); the \
        outcome class is derived from the best-before time decoded from the archive and the clock; observed: transport \
        handed back, rsync spawns, notification requests, the runner's LoadResult".into();
    let dir = ctx.out.join("c29");
    let _ = std::fs::remove_dir_all(&dir);
    std::fs::create_dir_all(&dir).unwrap();
    let rsync_log = dir.join("rsync.log");
    std::env::set_var("VERIF_RSYNC_LOG", &rsync_log);
    std::env::set_var("VERIF_RSYNC_EXIT", "0");
    rvcore::clock::set(T0, 0);
    let srv = httpsrv::Server::start();
    let cas = make_cas(&srv.url("/rrdp/notification.xml"), "rsync://rsync.example/repo/ca/");
    let mut env = Env { dir: dir.clone(), srv, cas, rsync_log, n: 0, dubious_cas: Default::default() };
    let inputs = match ctx.replay_inputs() {
        Some(inputs) => inputs,
        None => {
            let mut res = ctx.corpus("C29");
            let mut rows = all_rows();
            rows.extend(between_rows());
            rows.extend(dubious_rows());
            ctx.rng.shuffle(&mut rows);
            res.extend(rows);
            res
        }
    };
    for input in &inputs { run_row(ctx, &mut env, input) }
    ctx.extra("rows", json!(env.n));
    rvcore::clock::disable();
    let _ = std::fs::remove_dir_all(&dir);
}
