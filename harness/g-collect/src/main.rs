//! Group "collect": C30 (paths), C31 (dubious hosts), C29 (fallback policy), C38 (size limit).
mod uris;
mod c30;
mod c31;
mod c29;
mod c38;

fn run(name: &str, ctx: &mut rvcore::Ctx) -> bool {
    match name {
        "c38" => c38::run_c38(ctx),
        "c30" => c30::run_c30(ctx),
        "c31" => c31::run_c31(ctx),
        "c29" => c29::run_c29(ctx),
        _ => return false
    }
    true
}

/// Sub-process modes: the binary doubles as the fake rsync command.
/// `rsync -h` (the start-up probe) succeeds; `fake-rsync <args…>` appends its
/// arguments to `$VERIF_RSYNC_LOG` and exits with `$VERIF_RSYNC_EXIT` (default 1).
fn special(name: &str, args: &[String]) -> Option<i32> {
    match name {
        "-h" => Some(0),
        // `--no-motd` is the first of routinator's default rsync arguments (`rsync-args` unset).
        "fake-rsync" | "--no-motd" => {
            if let Ok(path) = std::env::var("VERIF_RSYNC_LOG") {
                use std::io::Write;
                if let Ok(mut file) = std::fs::OpenOptions::new().create(true).append(true).open(path) {
                    let _ = writeln!(file, "{} {}", name, args.join(" "));
                }
            }
            Some(std::env::var("VERIF_RSYNC_EXIT").ok().and_then(|s| s.parse().ok()).unwrap_or(1))
        }
        _ => None
    }
}

fn main() { rvcore::main_with(run, special) }

/// Routinator's log messages on stderr when `VERIF_LOG` is set (debugging aid).
pub struct StderrLog;
impl log::Log for StderrLog {
    fn enabled(&self, _: &log::Metadata) -> bool { true }
    fn log(&self, record: &log::Record) {
        if record.level() <= log::Level::Warn { eprintln!("[{}] {}", record.level(), record.args()) }
    }
    fn flush(&self) { }
}
pub fn init_log() {
    if std::env::var("VERIF_LOG").is_ok() {
        static LOGGER: StderrLog = StderrLog;
        let _ = log::set_logger(&LOGGER);
        log::set_max_level(log::LevelFilter::Warn);
    }
}
