//! Group "collect": C30 (paths), C31 (dubious hosts), C29 (fallback policy), C38 (size limit).
mod uris;
mod c30;
mod c31;
mod c29;

fn run(name: &str, ctx: &mut rvcore::Ctx) -> bool {
    match name {
        "c30" => c30::run_c30(ctx),
        "c31" => c31::run_c31(ctx),
        "c29" => c29::run_c29(ctx),
        _ => return false
    }
    true
}

/// Sub-process modes: the binary doubles as the fake rsync command.
/// `rsync -h` (the start-up probe) succeeds; `fake-rsync <args…>` appends its
/// arguments to `$VERIF_RSYNC_LOG` and exits with `$VERIF_RSYNC_EXIT` (default 1).
fn special(name: &str, args: &[String]) -> Option<i32> {
    match name {
        "-h" => Some(0),
        "fake-rsync" => {
            if let Ok(path) = std::env::var("VERIF_RSYNC_LOG") {
                use std::io::Write;
                if let Ok(mut file) = std::fs::OpenOptions::new().create(true).append(true).open(path) {
                    let _ = writeln!(file, "{}", args.join(" "));
                }
            }
            Some(std::env::var("VERIF_RSYNC_EXIT").ok().and_then(|s| s.parse().ok()).unwrap_or(1))
        }
        _ => None
    }
}

fn main() { rvcore::main_with(run, special) }
