//! C30: remote URIs map to confined, distinct local paths.
//!
//! Every case is a list of *items* (a path function applied to URIs). Each
//! item is evaluated with the real routinator code; the oracle normalises
//! the resulting path lexically and demands (1) that it lies below the
//! cache (dump) directory and (2) that two items with the same normalised
//! path are of the same kind and have equivalent URIs — within the case and
//! across the whole run. Selected items are also performed for real (files
//! are created) and the sandbox is scanned afterwards.

use std::collections::{BTreeMap, HashMap};
use std::path::{Path, PathBuf};
use std::sync::Arc;
use bytes::Bytes;
use rpki::repository::tal::TalUri;
use rpki::repository::x509::{Serial, Time};
use rpki::uri;
use routinator::collector::Collector;
use routinator::collector::RrdpArchive;
use routinator::collector::verif_codec::RepositoryState;
use routinator::config::Config;
use routinator::store::{Store, StoredManifest, StoredObject};
use routinator::utils::dump::DumpRegistry;
use serde_json::{json, Value};
use rvcore::Ctx;
use crate::uris::{self, *};

//------------ Normalisation (the oracle's own) ------------------------------

/// Lexical normalisation of an absolute path string.
pub fn norm(path: &str) -> Vec<String> {
    let mut res: Vec<String> = Vec::new();
    for comp in path.split('/') {
        match comp {
            "" | "." => { }
            ".." => { res.pop(); }
            other => res.push(other.to_string()),
        }
    }
    res
}

fn show_norm(n: &[String]) -> String { format!("/{}", n.join("/")) }

//------------ The real code under test --------------------------------------

pub struct World {
    pub sandbox: PathBuf,
    pub cache: PathBuf,
    pub dump: PathBuf,
    pub config: Config,
    pub store: Store,
    pub collector: Collector,
}

pub fn fake_rsync_config(cache: &Path) -> Config {
    let mut config = Config::default_with_paths(cache.join("routinator.conf"), cache.to_path_buf());
    config.rsync_command = std::env::current_exe().unwrap().to_string_lossy().into_owned();
    config.rsync_args = Some(vec!["fake-rsync".into()]);
    config
}

impl World {
    pub fn new(sandbox: PathBuf) -> Self {
        let _ = std::fs::remove_dir_all(&sandbox);
        let cache = sandbox.join("cache");
        let dump = sandbox.join("dump");
        std::fs::create_dir_all(&cache).unwrap();
        std::fs::create_dir_all(&dump).unwrap();
        let config = fake_rsync_config(&cache);
        let store = Store::new(&config).expect("store");
        let collector = Collector::new(&config).expect("collector");
        World { sandbox, cache, dump, config, store, collector }
    }

    /// Everything below the sandbox that is not below `cache` or `dump`.
    pub fn strays(&self) -> Vec<String> {
        let mut res = Vec::new();
        if let Ok(dir) = std::fs::read_dir(&self.sandbox) {
            for entry in dir.flatten() {
                let name = entry.file_name().to_string_lossy().into_owned();
                if name != "cache" && name != "dump" { res.push(name) }
            }
        }
        res
    }
}

fn walk(dir: &Path, out: &mut Vec<PathBuf>) {
    if let Ok(rd) = std::fs::read_dir(dir) {
        for entry in rd.flatten() {
            let path = entry.path();
            if path.is_dir() { walk(&path, out) } else { out.push(path) }
        }
    }
}

//------------ Items ---------------------------------------------------------

/// One evaluated item.
struct Eval {
    /// kind for the distinctness oracle (module paths count as rsync files)
    kind: &'static str,
    /// equivalence class of the subject
    class: String,
    /// raw path string with the base replaced by `/C` or `/D`
    shown: String,
    /// normalised, base replaced likewise
    normed: Vec<String>,
    op: String,
}

fn rebase(raw: &str, base: &Path, letter: &str) -> Option<String> {
    let base = base.to_str()?;
    let rest = raw.strip_prefix(base)?;
    if !(rest.is_empty() || rest.starts_with('/')) { return None }
    Some(format!("/{letter}{rest}"))
}

/// Evaluates an item with the real path functions. `Err` = the item is not
/// applicable (URI rejected by rpki's parser).
fn eval_item(world: &World, item: &Value) -> Result<(Eval, String), String> {
    let kind = item["k"].as_str().ok_or("no kind")?;
    let arg = |i: usize| item["a"][i].as_str().unwrap_or("");
    let bad = |what: &str| format!("unparseable {what}");
    let rsync_coll = world.collector.verif_rsync().ok_or("no rsync collector")?;
    let (path, okind, class): (PathBuf, &'static str, String) = match kind {
        "ta-rsync" => {
            let u = uris::rsync(arg(0)).ok_or(bad("rsync uri"))?;
            let class = rsync_class(&u);
            (world.store.verif_ta_path(&TalUri::Rsync(u)), "ta-rsync", class)
        }
        "ta-https" => {
            let n = uris::https(arg(0)).ok_or(bad("https uri"))?;
            let class = https_class(&n);
            (world.store.verif_ta_path(&TalUri::Https(n)), "ta-https", class)
        }
        "point" => {
            let m = uris::rsync(arg(1)).ok_or(bad("rsync uri"))?;
            if arg(0) == "-" {
                (world.store.verif_point_path(None, &m), "point-rsync", rsync_class(&m))
            }
            else {
                let n = uris::https(arg(0)).ok_or(bad("https uri"))?;
                let class = format!("{} {}", https_class(&n), rsync_class(&m));
                (world.store.verif_point_path(Some(n), &m), "point-rrdp", class)
            }
        }
        "rsync-file" => {
            let u = uris::rsync(arg(0)).ok_or(bad("rsync uri"))?;
            (rsync_coll.verif_uri_path(&u), "rsync-file", rsync_class(&u))
        }
        "rsync-module" => {
            let u = uris::rsync(arg(0)).ok_or(bad("rsync uri"))?;
            let class = format!("{}/{}/", u.canonical_authority(), u.module_name());
            (rsync_coll.verif_module_path(&u), "rsync-file", class)
        }
        "rrdp-archive" => {
            let n = uris::https(arg(0)).ok_or(bad("https uri"))?;
            let rrdp = world.collector.verif_rrdp().ok_or("no rrdp collector")?;
            let path = rrdp.verif_repository_path(&n).map_err(|_| "repository_path failed")?;
            (path, "rrdp-archive", https_class(&n))
        }
        _ => return Err(format!("unknown kind {kind}"))
    };
    let raw = path.to_str().ok_or("non-utf8 path")?.to_string();
    let shown = rebase(&raw, &world.cache, "C").unwrap_or_else(|| format!("!{raw}"));
    let normed = norm(&shown);
    let op = match kind {
        "point" => format!("c30 point {} {}", arg(0), arg(1)),
        _ => format!("c30 {} {}", kind, arg(0)),
    };
    Ok((Eval { kind: okind, class, shown, normed, op }, raw))
}

/// The real operation behind an item, performed on the file system.
fn perform(world: &World, item: &Value, marker: &[u8]) -> Option<&'static str> {
    let kind = item["k"].as_str()?;
    let arg = |i: usize| item["a"][i].as_str().unwrap_or("");
    match kind {
        "ta-rsync" | "ta-https" => {
            let uri = TalUri::from_string(arg(0).to_string()).ok()?;
            let run = world.store.start();
            if run.update_ta(&uri, marker).is_err() { return Some("fs-error") }
            match run.load_ta(&uri) {
                Ok(Some(data)) if data.as_ref() == marker => Some("ta-written"),
                _ => Some("ta-readback-differs"),
            }
        }
        "point" => {
            let m = uris::rsync(arg(1))?;
            let n = if arg(0) == "-" { None } else { Some(uris::https(arg(0))?) };
            match world.store.verif_repository(n).get_point(&m) {
                Ok(_) => Some("point-created"),
                Err(_) => Some("fs-error"),
            }
        }
        _ => None
    }
}

//------------ Generation ----------------------------------------------------

fn item(k: &str, a: &[&str]) -> Value { json!({"k": k, "a": a}) }

fn gen_case(ctx: &mut Ctx, i: usize) -> Value {
    let rng = &mut ctx.rng;
    match i % 4 {
        0 | 1 => {
            let u = gen_rsync(rng);
            let v = mutate_rsync(&u, rng);
            let (u, v) = (u.render(), v.render());
            let mut items = Vec::new();
            for k in ["ta-rsync", "rsync-file", "rsync-module"] {
                items.push(item(k, &[&u]));
                items.push(item(k, &[&v]));
            }
            items.push(item("point", &["-", &u]));
            items.push(item("point", &["-", &v]));
            json!({"fam": "rsync", "items": items})
        }
        2 => {
            let m = gen_https(rng);
            let n = mutate_https(&m, rng);
            let (m, n) = (m.render(), n.render());
            let mut items = Vec::new();
            for k in ["ta-https", "rrdp-archive"] {
                items.push(item(k, &[&m]));
                items.push(item(k, &[&n]));
            }
            let mft = gen_rsync(rng).render();
            items.push(item("point", &[&m, &mft]));
            items.push(item("point", &[&n, &mft]));
            json!({"fam": "https", "items": items, "dumpreg": [m, n, m]})
        }
        _ => {
            let m = gen_https(rng);
            let n = if rng.chance(1, 2) { mutate_https(&m, rng) } else { m.clone() };
            let u = gen_rsync(rng);
            let v = mutate_rsync(&u, rng);
            let (m, n, u, v) = (m.render(), n.render(), u.render(), v.render());
            let items = vec![
                item("point", &[&m, &u]), item("point", &[&n, &v]),
                item("point", &["-", &u]), item("point", &[&m, &v]),
                item("ta-https", &[&m]), item("rrdp-archive", &[&n]),
                item("ta-rsync", &[&u]), item("rsync-file", &[&v]),
            ];
            json!({"fam": "point", "items": items})
        }
    }
}

fn gen_dump_case(ctx: &mut Ctx, single: bool) -> Value {
    let rng = &mut ctx.rng;
    let nrepos = if single { 1 } else { rng.range(2, 4) as usize };
    let mut repos = Vec::new();
    let shared = gen_rsync(rng);
    // the rsync repository
    let mut all = vec![None];
    let first = gen_https(rng);
    for r in 0..nrepos {
        let mut n = if r == 0 { first.clone() } else { mutate_https(&first, rng) };
        if single && rng.chance(1, 4) { n.auth = rng.pick(ODD_HTTPS_HOSTS).to_string() }
        // a dump holds what was fetched: keep to authorities a server can have
        // (`tmp`: the RRDP collector keeps its temporary files in `rrdp/tmp` and neither dumps
        // nor keeps archives found there — a server called `tmp` is re-fetched every time;
        // recorded in notes/C30.md, no file is shared.)
        // Exception: a single repository with an odd authority is kept in every third
        // single-repository case — stored points can be written without any fetch, and the
        // dump must still stay inside the dump directory (confinement only).
        let keep_odd = single && ODD_HTTPS_HOSTS.contains(&n.auth.as_str()) && rng.chance(2, 3);
        if !keep_odd && (ODD_HTTPS_HOSTS.contains(&n.auth.as_str()) || n.auth.len() > 40
            || n.auth.eq_ignore_ascii_case("tmp"))
        {
            n.auth = rng.pick(&["rsync", "Rsync", "a", "A", "a-1", "example.net"]).to_string();
        }
        all.push(Some(n.render()));
    }
    for notify in all {
        let mut points = Vec::new();
        for p in 0..2 {
            // directories are relatives of one shared directory; leaf names come from a
            // small set so that objects of different directories can meet, while no object is
            // a directory for another one
            let mut dir = if p == 0 { shared.clone() } else { mutate_rsync(&shared, rng) };
            dir.dir = false;
            dir.segs.truncate(4);
            let mut mft = dir.clone();
            mft.segs.push(rng.pick(&["m.mft", "M.mft", "n.mft"]).to_string());
            let mut objs = Vec::new();
            for _ in 0..rng.range(1, 3) {
                let mut o = if rng.chance(1, 2) { dir.clone() } else { mutate_rsync(&dir, rng) };
                o.dir = false;
                o.segs.truncate(5);
                o.segs.push(rng.pick(&["o.cer", "O.cer", "p.roa", "m.mft"]).to_string());
                objs.push(o.render());
            }
            points.push(json!({"mft": mft.render(), "objs": objs}));
        }
        repos.push(json!({"notify": notify, "points": points}));
    }
    json!({"fam": if single { "dump1" } else { "dumpn" }, "repos": repos})
}

//------------ Running -------------------------------------------------------

struct Seen {
    kind: &'static str,
    class: String,
    item: Value,
}

fn run_items(ctx: &mut Ctx, world: &World, global: &mut HashMap<String, Seen>, input: &Value, do_fs: bool) {
    let items = match input["items"].as_array() { Some(a) => a.clone(), None => return };
    let mut local: BTreeMap<String, (usize, &'static str, String)> = BTreeMap::new();
    for (idx, it) in items.iter().enumerate() {
        let (ev, raw) = match eval_item(world, it) {
            Ok(x) => x,
            Err(why) => { ctx.count(&format!("skipped:{why}")); continue }
        };
        ctx.count(&format!("kind:{}", ev.kind));
        ctx.case(input, &ev.op, &format!("{} => {}", ev.shown, show_norm(&ev.normed)));
        // (1) confinement
        if ev.shown.starts_with('!') || ev.normed.first().map(|s| s.as_str()) != Some("C") {
            ctx.oracle_fail(
                &format!("escape:{}", ev.kind),
                &format!("path {raw} of item {idx} leaves the cache directory"),
                input, json!({"item": it, "path": raw, "normalised": show_norm(&ev.normed)}),
            );
        }
        if ev.shown.contains("/../") { ctx.count("dotdot-component") }
        // (2) distinctness within the case
        let key = show_norm(&ev.normed);
        if let Some((j, okind, oclass)) = local.get(&key) {
            if *okind != ev.kind || *oclass != ev.class {
                ctx.oracle_fail(
                    &format!("shared-file:{}", if *okind == ev.kind { ev.kind.to_string() } else { format!("{okind}+{}", ev.kind) }),
                    &format!("items {j} and {idx} are not equivalent but map to the same file {key}"),
                    input, json!({"a": items[*j], "b": it, "path": key}),
                );
            }
            else { ctx.count("equivalent-pair-same-path") }
        }
        else {
            local.insert(key.clone(), (idx, ev.kind, ev.class.clone()));
        }
        // … and across the run
        match global.get(&key) {
            Some(seen) if seen.kind != ev.kind || seen.class != ev.class => {
                let pair = json!({"fam": "pair", "items": [seen.item, it]});
                ctx.oracle_fail(
                    &format!("shared-file:{}", if seen.kind == ev.kind { ev.kind.to_string() } else { format!("{}+{}", seen.kind, ev.kind) }),
                    &format!("inequivalent items of different cases map to the same file {key}"),
                    &pair, json!({"path": key}),
                );
            }
            Some(_) => { }
            None => { global.insert(key, Seen { kind: ev.kind, class: ev.class.clone(), item: it.clone() }); }
        }
        ctx.nontrivial(format!("{}:{}", ev.kind, ev.normed.len()));
        // (3) the real operation
        if do_fs {
            let marker = format!("{}|{}", ev.kind, ev.class);
            if let Some(what) = perform(world, it, marker.as_bytes()) {
                ctx.count(&format!("fs:{what}"));
                if what == "ta-readback-differs" {
                    ctx.oracle_fail("ta-readback", "stored trust anchor does not read back", input, json!({"item": it}));
                }
            }
        }
    }
    if !local.is_empty() {
        let inequiv = items.len().saturating_sub(local.len());
        let _ = inequiv;
    }
    // dump registry (function level)
    if let Some(list) = input["dumpreg"].as_array() {
        let uris: Vec<String> = list.iter().filter_map(|v| v.as_str().map(String::from)).collect();
        run_dumpreg(ctx, input, &uris);
    }
}

fn run_dumpreg(ctx: &mut Ctx, input: &Value, list: &[String]) {
    let base = PathBuf::from("/D/x");
    let mut reg = DumpRegistry::new(base.clone());
    let mut names = Vec::new();
    let mut parsed = Vec::new();
    for s in list {
        let Some(n) = uris::https(s) else { ctx.count("skipped:unparseable https uri"); return };
        let path = reg.get_repo_path(Some(&n));
        let raw = path.to_str().unwrap_or("").to_string();
        let name = raw.strip_prefix("/D/x/").map(String::from)
            .or_else(|| (raw == "/D/x").then(String::new));
        let Some(name) = name else {
            ctx.oracle_fail("escape:dump-registry", "registry path outside its base", input, json!({"path": raw}));
            return
        };
        names.push(name);
        parsed.push(n);
    }
    let rsync_dir = reg.get_repo_path(None);
    ctx.case(
        input, &format!("c30 dumpreg {}", list.join(" ")),
        &names.iter().map(|n| format!("={n}")).collect::<Vec<_>>().join(" "),
    );
    for i in 0..names.len() {
        if base.join(&names[i]) == rsync_dir {
            ctx.oracle_fail(
                "dump-rsync-name-collision",
                "an RRDP repository is dumped into the rsync repository's directory",
                input, json!({"uri": list[i], "dir": names[i]}),
            );
        }
        for j in 0..i {
            let same = names[i] == names[j];
            let equiv = https_equiv(&parsed[i], &parsed[j]);
            if same && !equiv {
                ctx.oracle_fail(
                    "dump-registry-shared-dir", "inequivalent rpkiNotify URIs share a dump directory",
                    input, json!({"a": list[j], "b": list[i], "dir": names[i]}),
                );
            }
            if equiv && !same {
                ctx.oracle_fail(
                    "dump-registry-unstable", "one repository is given two dump directories",
                    input, json!({"a": list[j], "b": list[i]}),
                );
            }
        }
    }
    ctx.count("dumpreg");
}

/// A real store + RRDP collector dump.
fn run_dump(ctx: &mut Ctx, sandbox: &Path, input: &Value) {
    let world = World::new(sandbox.to_path_buf());
    let single = input["fam"] == "dump1";
    let Some(repos) = input["repos"].as_array() else { return };
    // expected: (tree, repo class, object class) -> markers of its members
    let mut expected: BTreeMap<(String, String, String), Vec<String>> = BTreeMap::new();
    let mut ops: Vec<(String, usize, String, String)> = Vec::new(); // (tree, repo index, uri, marker)
    let mut has_rsync_auth = false;
    let mut archive_failed = false;
    let mut seen_mft = std::collections::HashSet::new();
    let mut has_odd = false;
    let mut counter = 0usize;
    let rrdp = world.collector.verif_rrdp().expect("rrdp collector");
    let mut reg_names: Vec<Option<String>> = Vec::new();
    for (repo_i, repo) in repos.iter().enumerate() {
        let notify = repo["notify"].as_str().and_then(uris::https);
        if repo["notify"].is_string() && notify.is_none() { ctx.count("skipped:unparseable https uri"); return }
        let repo_class = notify.as_ref().map(https_class).unwrap_or_else(|| "-".into());
        reg_names.push(notify.as_ref().map(|n| {
            let a = n.canonical_authority().into_owned();
            if ODD_HTTPS_HOSTS.contains(&a.as_str()) { has_odd = true }
            if a == "rsync" { has_rsync_auth = true; "rsync-1".to_string() } else { a }
        }));
        let stored_repo = world.store.verif_repository(notify.clone());
        let mut archive = match notify.as_ref() {
            Some(n) => {
                let Ok(path) = rrdp.verif_repository_path(n) else { ctx.count("fs-error"); return };
                match RrdpArchive::create(Arc::new(path)) {
                    Ok(mut archive) => {
                        let state = RepositoryState {
                            rpki_notify: n.clone(), session: uuid::Uuid::nil(), serial: 1,
                            updated_ts: 0, best_before_ts: 0, last_modified_ts: None,
                            etag: None, delta_state: Default::default(),
                        };
                        if archive.publish_state(&state).is_err() { ctx.count("fs-error"); return }
                        Some(archive)
                    }
                    Err(_) => { ctx.count("fs-error"); return }
                }
            }
            None => None
        };
        let mut published = std::collections::HashSet::new();
        for point in repo["points"].as_array().cloned().unwrap_or_default() {
            let Some(mft) = point["mft"].as_str().and_then(uris::rsync) else { ctx.count("skipped:unparseable rsync uri"); return };
            // one publication point per manifest URI (a second one is an update of the first)
            if !seen_mft.insert((repo_class.clone(), rsync_class(&mft))) {
                ctx.count("dump:duplicate-manifest-skipped");
                continue
            }
            let mut objs = Vec::new();
            for o in point["objs"].as_array().cloned().unwrap_or_default() {
                let Some(u) = o.as_str().and_then(uris::rsync) else { ctx.count("skipped:unparseable rsync uri"); return };
                objs.push(u);
            }
            let mut mk = |tree: &str, u: &uri::Rsync| {
                counter += 1;
                let marker = format!("M{counter:05}|{tree}|{repo_class}|{}", u.as_str());
                expected.entry((tree.to_string(), repo_class.clone(), rsync_class(u)))
                    .or_default().push(marker.clone());
                ops.push((tree.to_string(), repo_i, u.as_str().to_string(), marker.clone()));
                marker
            };
            // the store
            let Ok(mut sp) = stored_repo.get_point(&mft) else { ctx.count("fs-error"); continue };
            let crl_uri = objs[0].clone();
            let manifest = StoredManifest {
                not_after: Time::utc(2040, 1, 1, 0, 0, 0),
                manifest_number: Serial::from(1u64),
                this_update: Time::utc(2020, 1, 1, 0, 0, 0),
                ca_repository: mft.clone(),
                manifest: Bytes::from(mk("store", &mft)),
                crl_uri: crl_uri.clone(),
                crl: Bytes::from(mk("store", &crl_uri)),
            };
            let mut rest: Vec<StoredObject> = objs[1..].iter().map(|u| {
                StoredObject::new(u.clone(), Bytes::from(mk("store", u)), None)
            }).collect();
            rest.reverse();
            if sp.update(&world.store, manifest, || Ok(rest.pop())).is_err() { ctx.count("fs-error"); continue }
            // the RRDP archive
            if let Some(archive) = archive.as_mut() {
                for u in std::iter::once(&mft).chain(objs.iter()) {
                    // an archive holds one object per URI (as written)
                    if !published.insert(u.as_str().to_string()) { continue }
                    let marker = mk("rrdp", u);
                    if archive.publish_object(u, marker.as_bytes()).is_err() {
                        archive_failed = true;
                    }
                }
            }
        }
        drop(archive);
    }
    let store_ok = world.store.dump(&world.dump).is_ok();
    let rrdp_ok = rrdp.dump(&world.dump).is_ok();
    ctx.count(if store_ok && rrdp_ok { "dump-ok" } else { "dump-failed" });
    // what is there
    let mut files = Vec::new();
    walk(&world.dump, &mut files);
    let mut by_marker: HashMap<String, Vec<String>> = HashMap::new();
    for f in &files {
        if let Ok(data) = std::fs::read(f) {
            if data.starts_with(b"M") {
                by_marker.entry(String::from_utf8_lossy(&data).into_owned())
                    .or_default().push(f.to_string_lossy().into_owned());
            }
        }
    }
    let strays = world.strays();
    if !strays.is_empty() {
        ctx.oracle_fail("escape:dump-run", "files outside the cache and dump directories", input, json!({"strays": strays}));
    }
    if has_odd { ctx.count("dump:odd-authority(confinement only)") }
    if store_ok && rrdp_ok && !archive_failed && !has_odd {
        for ((tree, repo, class), markers) in &expected {
            if markers.is_empty() { continue }
            let found = markers.iter().filter(|m| by_marker.contains_key(*m)).count();
            if found == 0 {
                ctx.oracle_fail(
                    if has_rsync_auth && (repo == "-" || repo == "rsync" || repo.starts_with("rsync/")) {
                        "dump-rsync-name-collision"
                    } else { "dump-shared-file" },
                    &format!("the dumped {tree} object {class} of repository {repo} was overwritten by an inequivalent one"),
                    input, json!({"tree": tree, "repository": repo, "object": class}),
                );
            }
        }
    }
    // correspondence: the OS-resolved place of every surviving object (single repository per tree only)
    let dump_str = world.dump.to_string_lossy().into_owned();
    if single {
        let mut idx = 0;
        for (tree, repo_i, uri, marker) in ops.iter() {
            let reg = match &reg_names[*repo_i] { Some(n) => n.clone(), None => "rsync".into() };
            let Some(paths) = by_marker.get(marker) else { continue };
            for p in paths {
                let shown = format!("/D{}", p.strip_prefix(&dump_str).unwrap_or(p));
                let op = format!("c30 dump-{} ={} {}", tree, reg, uri);
                ctx.case(input, &op, &format!("=> {shown}"));
                idx += 1;
            }
        }
        ctx.count_n("dump-objects-compared", idx as u64);
    }
    else {
        ctx.case_oracle_only(input, &format!("{} files", files.len()));
    }
    ctx.nontrivial(format!("dump:{}:{}", repos.len(), files.len().min(20)));
    let _ = std::fs::remove_dir_all(&world.sandbox);
}

pub fn run_c30(ctx: &mut Ctx) {
    ctx.rule = "cases = lists of (path function, URI…) items over generated rsync/HTTPS URIs: a URI and a \
        one-edit relative (host case, scheme case, trailing slash, module, one segment, boundary shifts, \
        %-escapes, HTTPS authorities '', '.', '..'), evaluated by routinator's real path functions \
        (store TA/point/RRDP paths, rsync collector module/file paths, RRDP archive path, DumpRegistry) and \
        real store/collector dumps; non-trivial = distinct (kind, depth) signatures and dump shapes".into();
    let sandbox = ctx.out.join("sbx");
    let world = World::new(sandbox.join("main"));
    let mut global: HashMap<String, Seen> = HashMap::new();
    let inputs: Vec<Value> = match ctx.replay_inputs() {
        Some(inputs) => inputs,
        None => {
            let mut res = ctx.corpus("C30");
            let n = ctx.budget(2500, 60_000);
            for i in 0..n { res.push(gen_case(ctx, i)) }
            let nd = ctx.budget(40, 400);
            for i in 0..nd { res.push(gen_dump_case(ctx, i % 2 == 0)) }
            res
        }
    };
    let mut dump_no = 0;
    for (i, input) in inputs.iter().enumerate() {
        match input["fam"].as_str() {
            Some("dump1") | Some("dumpn") => {
                dump_no += 1;
                run_dump(ctx, &sandbox.join(format!("d{dump_no}")), input);
            }
            _ => run_items(ctx, &world, &mut global, input, i % 5 == 0 || ctx.replay.is_some()),
        }
    }
    // the sandbox after all real operations
    let strays = world.strays();
    if !strays.is_empty() {
        ctx.oracle_fail(
            "escape:fs", "real operations created entries outside the cache directory",
            &json!({"fam": "all"}), json!({"strays": strays}),
        );
    }
    let mut files = Vec::new();
    walk(&world.cache, &mut files);
    ctx.extra("files_created_in_cache", json!(files.len()));
    ctx.extra("distinct_normalised_paths", json!(global.len()));
    let _ = std::fs::remove_dir_all(&sandbox);
}
