//! C38: the object size limit is applied exactly as configured.
//!
//! * `read`: `LimitedDataRead` over a scripted reader (adversarial chunk
//!   boundaries, failures) — model-compared chunk by chunk;
//! * `ta`: HTTPS trust anchor download (`rrdp::Run::load_ta`) from the test
//!   server, bodies of size L−1, L, L+1, with `Content-Length`, chunked and
//!   close-delimited;
//! * `object`: RRDP objects in snapshots and deltas through a real
//!   `load_repository`;
//! * `config`: `max-object-size` from config file and command line, then a
//!   download with the resulting configuration;
//! * `rsync-arg`: the `--max-size` argument on the rsync command line.

use std::io::Read;
use std::path::{Path, PathBuf};
use std::str::FromStr;
use rpki::crypto::DigestAlgorithm;
use rpki::repository::cert::Cert;
use rpki::uri;
use routinator::collector::Collector;
use routinator::collector::verif_api::{LimitedDataRead, LimitedDataReadError, LoadResult};
use routinator::config::Config;
use serde_json::{json, Value};
use rvcore::Ctx;
use crate::c29::{base_config, T0};

const DEFAULT_LIMIT: u64 = 20_000_000;
const NS: &str = "http://www.ripe.net/rpki/rrdp";

fn pattern(n: usize) -> Vec<u8> { (0..n).map(|i| (i % 251) as u8).collect() }
fn hex(data: &[u8]) -> String { data.iter().map(|b| format!("{b:02x}")).collect() }
fn show_limit(l: Option<u64>) -> String { l.map(|l| l.to_string()).unwrap_or_else(|| "none".into()) }
fn limit_of(v: &Value) -> Option<u64> { v.as_u64() }

//------------ read: the scripted reader -------------------------------------

enum Step { Data(usize), Fail }

struct ScriptReader {
    steps: Vec<Step>,
    pos: usize,
    left_in_step: usize,
    offset: usize,
    /// what was actually returned per call (a chunk may be cut by the buffer size)
    actual: Vec<String>,
}

impl ScriptReader {
    fn new(script: &[Value]) -> Self {
        let steps: Vec<Step> = script.iter().map(|v| match v.as_u64() {
            Some(n) => Step::Data(n as usize),
            None => Step::Fail,
        }).collect();
        let left = match steps.first() { Some(Step::Data(n)) => *n, _ => 0 };
        ScriptReader { steps, pos: 0, left_in_step: left, offset: 0, actual: Vec::new() }
    }
    fn advance(&mut self) {
        self.pos += 1;
        self.left_in_step = match self.steps.get(self.pos) { Some(Step::Data(n)) => *n, _ => 0 };
    }
}

impl Read for ScriptReader {
    fn read(&mut self, buf: &mut [u8]) -> std::io::Result<usize> {
        loop {
            match self.steps.get(self.pos) {
                None => return Ok(0),
                Some(Step::Fail) => {
                    self.advance();
                    self.actual.push("F".into());
                    return Err(std::io::Error::other("scripted failure"))
                }
                Some(Step::Data(_)) => {
                    if self.left_in_step == 0 { self.advance(); continue }
                    let n = self.left_in_step.min(buf.len());
                    if n == 0 { return Ok(0) }
                    for (i, slot) in buf[..n].iter_mut().enumerate() {
                        *slot = ((self.offset + i) % 251) as u8;
                    }
                    self.offset += n;
                    self.left_in_step -= n;
                    self.actual.push(n.to_string());
                    return Ok(n)
                }
            }
        }
    }
}

fn read_case(ctx: &mut Ctx, input: &Value) {
    let limit = limit_of(&input["limit"]);
    let Some(script) = input["script"].as_array() else { return };
    let total: usize = script.iter().filter_map(|v| v.as_u64()).sum::<u64>() as usize;
    let has_fail = script.iter().any(|v| v.as_u64().is_none());
    let uri = "rsync://example.net/repo/object";
    // read_all, as the RRDP code uses it
    let outcome = LimitedDataRead::new(ScriptReader::new(script), &uri, limit).read_all();
    // the same again by hand to see what stays buffered
    let mut reader = ScriptReader::new(script);
    let mut buffered = Vec::new();
    let (res2, err2) = {
        let mut lim = LimitedDataRead::new(&mut reader, &uri, limit);
        let res = lim.read_to_end(&mut buffered);
        (res.is_ok(), lim.take_err())
    };
    let line = match (&outcome, res2, &err2) {
        (Ok(data), true, None) => {
            if *data != pattern(total) || buffered != *data {
                ctx.oracle_fail("accepted-content-differs", "accepted content is not the body", input, json!({"len": data.len()}));
            }
            format!("ok {}", data.len())
        }
        (Err(LimitedDataReadError::LargeObject(_)), false, Some(LimitedDataReadError::LargeObject(_))) =>
            format!("large {}", buffered.len()),
        (Err(LimitedDataReadError::Read(_)), false, Some(LimitedDataReadError::Read(_))) =>
            format!("readerr {}", buffered.len()),
        _ => "inconsistent".to_string(),
    };
    ctx.case(input, &format!("c38 read {} {}", show_limit(limit), reader.actual.join(" ")), &line);
    ctx.count(&format!("read:{}", line.split(' ').next().unwrap_or("")));
    // the property
    let fits = limit.map(|l| total as u64 <= l).unwrap_or(true);
    let accepted = outcome.is_ok();
    if !has_fail && accepted != fits {
        ctx.oracle_fail(
            if limit.is_none() { "read-unlimited-refused" } else if accepted { "read-oversize-accepted" } else { "read-fitting-refused" },
            &format!("object of {total} bytes with limit {} was {}", show_limit(limit), if accepted { "accepted" } else { "refused" }),
            input, json!({"result": line}),
        );
    }
    if has_fail && accepted {
        ctx.oracle_fail("read-failure-accepted", "a failed read produced an object", input, json!({"result": line}));
    }
    if let Some(l) = limit {
        if buffered.len() as u64 > l {
            ctx.oracle_fail("buffer-over-limit", "more than the limit was buffered", input, json!({"buffered": buffered.len()}));
        }
    }
    if buffered[..] != pattern(total)[..buffered.len().min(total)] || buffered.len() > total {
        ctx.oracle_fail("buffer-not-prefix", "buffered bytes are not the beginning of the body", input, json!({}));
    }
    ctx.nontrivial(format!("read:{}:{}", show_limit(limit), line));
}

//------------ HTTPS ---------------------------------------------------------

struct Env {
    dir: PathBuf,
    srv: httpsrv::Server,
    cert: Vec<u8>,
    n: usize,
    rsync_log: PathBuf,
}

fn collector_for(cache: &Path, limit: Option<u64>) -> Collector {
    std::fs::create_dir_all(cache).unwrap();
    let mut config = base_config(cache);
    config.max_object_size = limit;
    let mut collector = Collector::new(&config).expect("collector");
    collector.ignite().expect("ignite");
    collector
}

fn framing_of(input: &Value, size: usize) -> (httpsrv::Framing, Option<u64>) {
    match input["framing"].as_str().unwrap_or("cl") {
        "chunked" => {
            let cuts = input["chunks"].as_array().map(|a| {
                a.iter().filter_map(|v| v.as_u64()).map(|v| v as usize).collect()
            }).unwrap_or_default();
            (httpsrv::Framing::Chunked(cuts), None)
        }
        "close" => (httpsrv::Framing::Close, None),
        _ => (httpsrv::Framing::ContentLength, Some(size as u64)),
    }
}

fn classify_ta(res: &Option<bytes::Bytes>, body: &[u8]) -> &'static str {
    match res {
        None => "none",
        Some(b) if b.as_ref() == body => "full",
        Some(b) if b.len() < body.len() && body.starts_with(b.as_ref()) => "partial",
        Some(_) => "garbage",
    }
}

fn ta_oracle(ctx: &mut Ctx, input: &Value, limit: Option<u64>, body: &[u8], res: &Option<bytes::Bytes>, class: &str, cl: Option<u64>) {
    let size = body.len() as u64;
    let fits = limit.map(|l| size <= l).unwrap_or(true);
    if (class == "full") != fits {
        let slug = if limit.is_none() {
            if cl.is_some() { "ta-unlimited-content-length-refused" } else { "ta-unlimited-refused" }
        } else if class == "full" { "ta-oversize-accepted" } else { "ta-fitting-refused" };
        ctx.oracle_fail(
            slug,
            &format!("trust anchor of {size} bytes, limit {}, Content-Length {}: download gave {class}",
                show_limit(limit), cl.map(|c| c.to_string()).unwrap_or_else(|| "absent".into())),
            input, json!({"class": class, "returned": res.as_ref().map(|b| b.len())}),
        );
    }
    if class == "garbage" {
        ctx.oracle_fail("ta-garbage", "the download returned bytes that are not the beginning of the body", input, json!({}));
    }
    if let (Some(l), Some(b)) = (limit, res.as_ref()) {
        if b.len() as u64 > l {
            ctx.oracle_fail("buffer-over-limit", "more than the limit was kept", input, json!({"kept": b.len()}));
        }
    }
}

fn ta_case(ctx: &mut Ctx, env: &mut Env, input: &Value) {
    let limit = limit_of(&input["limit"]);
    let use_cert = input["body"] == "cert";
    let body = if use_cert { env.cert.clone() } else { pattern(input["size"].as_u64().unwrap_or(0) as usize) };
    let (framing, cl) = framing_of(input, body.len());
    env.n += 1;
    let path = format!("/ta/{}.cer", env.n);
    env.srv.set(&path, httpsrv::Response::ok(body.clone()).framing(framing));
    let collector = collector_for(&env.dir.join("ta-cache"), limit);
    let run = collector.start();
    let uri = uri::Https::from_str(&env.srv.url(&path)).unwrap();
    let res = run.verif_rrdp().expect("rrdp").load_ta(&uri);
    env.srv.remove(&path);
    let class = classify_ta(&res, &body);
    ctx.case(
        input,
        &format!("c38 ta {} {} {}", show_limit(limit), cl.map(|c| c.to_string()).unwrap_or_else(|| "-".into()), body.len()),
        class,
    );
    ctx.count(&format!("ta:{class}"));
    ta_oracle(ctx, input, limit, &body, &res, class, cl);
    if use_cert {
        let usable = res.as_ref().map(|b| Cert::decode(b.clone()).is_ok()).unwrap_or(false);
        let fits = limit.map(|l| body.len() as u64 <= l).unwrap_or(true);
        if usable != fits {
            ctx.oracle_fail(
                if usable { "ta-oversize-usable" } else if limit.is_none() { "ta-unlimited-content-length-refused" } else { "ta-fitting-unusable" },
                &format!("trust anchor certificate of {} bytes with limit {} is {}usable", body.len(), show_limit(limit), if usable { "" } else { "not " }),
                input, json!({"class": class}),
            );
        }
        ctx.count(if usable { "ta-cert-usable" } else { "ta-cert-unusable" });
    }
    ctx.nontrivial(format!("ta:{}:{}:{}", show_limit(limit), input["framing"], class));
}

//------------ RRDP objects --------------------------------------------------

const BIG_URI: &str = "rsync://rsync.example/repo/ca/big.bin";
const SMALL_URI: &str = "rsync://rsync.example/repo/ca/small.bin";
const SESSION: &str = "7c3a0b1e-5a8d-4c1e-9a53-0d1c2b3a4f5e";

fn publish(uri: &str, data: &[u8]) -> String {
    format!("  <publish uri=\"{uri}\">{}</publish>\n", rpki::util::base64::Xml.encode(data))
}

fn document(root: &str, serial: u64, elems: &str) -> String {
    format!("<{root} xmlns=\"{NS}\" version=\"1\" session_id=\"{SESSION}\" serial=\"{serial}\">\n{elems}</{root}>\n")
}

fn serve(srv: &httpsrv::Server, dir: &str, serial: u64, snapshot: &str, delta: Option<&str>) {
    let sha = |s: &str| hex(DigestAlgorithm::sha256().digest(s.as_bytes()).as_ref());
    let mut elems = format!(
        "  <snapshot uri=\"{}\" hash=\"{}\"/>\n", srv.url(&format!("{dir}/snapshot-{serial}.xml")), sha(snapshot)
    );
    srv.set(&format!("{dir}/snapshot-{serial}.xml"), httpsrv::Response::ok(snapshot.to_string()));
    if let Some(delta) = delta {
        elems.push_str(&format!(
            "  <delta serial=\"{serial}\" uri=\"{}\" hash=\"{}\"/>\n",
            srv.url(&format!("{dir}/delta-{serial}.xml")), sha(delta)
        ));
        srv.set(&format!("{dir}/delta-{serial}.xml"), httpsrv::Response::ok(delta.to_string()));
    }
    srv.set(&format!("{dir}/notification.xml"), httpsrv::Response::ok(document("notification", serial, &elems)));
}

fn object_case(ctx: &mut Ctx, env: &mut Env, input: &Value) {
    let limit = limit_of(&input["limit"]);
    let size = input["size"].as_u64().unwrap_or(0) as usize;
    let via_delta = input["via"] == "delta";
    env.n += 1;
    let dir = format!("/rrdp{}", env.n);
    let cache = env.dir.join(format!("obj{}", env.n));
    let collector = collector_for(&cache, limit);
    let notify = uri::Https::from_str(&env.srv.url(&format!("{dir}/notification.xml"))).unwrap();
    let big = pattern(size);
    let small = b"small".to_vec();
    rvcore::clock::set(T0, 0);
    let mut ok_setup = true;
    if via_delta {
        // serial 1 without the big object …
        serve(&env.srv, &dir, 1, &document("snapshot", 1, &publish(SMALL_URI, &small)), None);
        let run = collector.start();
        ok_setup = matches!(run.verif_rrdp().unwrap().load_repository(&notify), Ok(LoadResult::Updated(_)));
        // … serial 2 adds it, by delta and in the snapshot
        serve(
            &env.srv, &dir, 2,
            &document("snapshot", 2, &(publish(SMALL_URI, &small) + &publish(BIG_URI, &big))),
            Some(&document("delta", 2, &publish(BIG_URI, &big))),
        );
    }
    else {
        serve(&env.srv, &dir, 1, &document("snapshot", 1, &(publish(SMALL_URI, &small) + &publish(BIG_URI, &big))), None);
    }
    let _ = env.srv.take_log();
    let run = collector.start();
    let res = run.verif_rrdp().unwrap().load_repository(&notify);
    let log = env.srv.take_log();
    let big_uri = uri::Rsync::from_str(BIG_URI).unwrap();
    let small_uri = uri::Rsync::from_str(SMALL_URI).unwrap();
    let (outcome, got_big, got_small) = match &res {
        Ok(LoadResult::Updated(repo)) => (
            "updated",
            repo.load_object(&big_uri).ok().flatten().map(|b| b.to_vec()),
            repo.load_object(&small_uri).ok().flatten().map(|b| b.to_vec()),
        ),
        Ok(LoadResult::Current) => ("current", None, None),
        Ok(LoadResult::Stale) => ("stale", None, None),
        Ok(LoadResult::Unavailable) => ("unavailable", None, None),
        Err(_) => ("error", None, None),
    };
    let accepted = got_big.as_deref() == Some(&big[..]);
    let delta_fetched = log.iter().any(|r| r.path.contains("/delta-"));
    ctx.case(
        input, &format!("c38 object {} {}", show_limit(limit), size),
        if accepted { "accept" } else { "refuse" },
    );
    ctx.count(&format!("object:{}:{}:{outcome}", if via_delta { "delta" } else { "snapshot" }, if accepted { "accept" } else { "refuse" }));
    if !ok_setup {
        ctx.oracle_fail("setup-broken", "the preparatory update did not succeed", input, json!({}));
    }
    if via_delta && !delta_fetched {
        ctx.oracle_fail("setup-broken", "the delta was not requested", input, json!({"log": log.iter().map(|r| r.path.clone()).collect::<Vec<_>>()}));
    }
    let fits = limit.map(|l| size as u64 <= l).unwrap_or(true);
    if accepted != fits {
        ctx.oracle_fail(
            if accepted { "object-oversize-accepted" } else if limit.is_none() { "object-unlimited-refused" } else { "object-fitting-refused" },
            &format!("RRDP object of {size} bytes via {} with limit {}: {} (update result {outcome})",
                if via_delta { "delta" } else { "snapshot" }, show_limit(limit), if accepted { "used" } else { "not used" }),
            input, json!({"outcome": outcome}),
        );
    }
    if let Some(other) = got_big.as_ref() {
        if !accepted {
            ctx.oracle_fail("object-garbage", "the object is present with different content", input, json!({"len": other.len()}));
        }
    }
    if outcome == "updated" && got_small.as_deref() != Some(&small[..]) {
        ctx.oracle_fail("object-lost", "the small object of the same repository is missing", input, json!({}));
    }
    ctx.nontrivial(format!("object:{}:{}:{}", show_limit(limit), via_delta, accepted));
    let _ = std::fs::remove_dir_all(&cache);
}

//------------ configuration -------------------------------------------------

fn parse_config(dir: &Path, file: Option<u64>, cli: Option<u64>) -> Option<Config> {
    std::fs::create_dir_all(dir).ok()?;
    let dir = &std::fs::canonicalize(dir).ok()?;
    let conf = dir.join("routinator.conf");
    let mut text = format!("repository-dir = {:?}\n", dir.join("cache").to_string_lossy());
    if let Some(v) = file { text.push_str(&format!("max-object-size = {v}\n")) }
    std::fs::write(&conf, text).ok()?;
    let mut args = vec!["routinator".to_string(), "--config".into(), conf.to_string_lossy().into_owned()];
    if let Some(v) = cli { args.push("--max-object-size".into()); args.push(v.to_string()) }
    let app = Config::config_args(clap::Command::new("routinator"));
    let matches = match app.try_get_matches_from(args) {
        Ok(m) => m,
        Err(err) => { eprintln!("c38 config: {err}"); return None }
    };
    match Config::from_arg_matches(&matches, dir) {
        Ok(c) => Some(c),
        Err(_) => { eprintln!("c38 config: from_arg_matches failed"); None }
    }
}

fn config_case(ctx: &mut Ctx, env: &mut Env, input: &Value) {
    let file = input["file"].as_u64();
    let cli = input["cli"].as_u64();
    let Some(mut config) = parse_config(&env.dir.join("conf"), file, cli) else {
        ctx.oracle_fail("config-rejected", "the configuration was not accepted", input, json!({}));
        return
    };
    let limit = config.max_object_size;
    let show = |v: Option<u64>| v.map(|v| v.to_string()).unwrap_or_else(|| "-".into());
    ctx.case(input, &format!("c38 config {} {}", show(file), show(cli)), &show(limit));
    let effective = cli.or(file);
    let expected = match effective { Some(0) => None, Some(v) => Some(v), None => Some(DEFAULT_LIMIT) };
    if limit != expected {
        ctx.oracle_fail(
            "config-limit", &format!("max-object-size file={file:?} cli={cli:?} gives {limit:?}, expected {expected:?}"),
            input, json!({"limit": limit}),
        );
    }
    // … and a download under exactly this configuration: 25 bytes with Content-Length
    config.rsync_command = std::env::current_exe().unwrap().to_string_lossy().into_owned();
    config.rsync_args = Some(vec!["fake-rsync".into()]);
    config.allow_dubious_hosts = true;
    config.rrdp_root_certs = vec![httpsrv::ca_cert_path()];
    std::fs::create_dir_all(&config.cache_dir).unwrap();
    let mut collector = Collector::new(&config).expect("collector");
    collector.ignite().expect("ignite");
    let body = pattern(25);
    env.n += 1;
    let path = format!("/ta/c{}.cer", env.n);
    env.srv.set(&path, httpsrv::Response::ok(body.clone()));
    let run = collector.start();
    let res = run.verif_rrdp().expect("rrdp").load_ta(&uri::Https::from_str(&env.srv.url(&path)).unwrap());
    env.srv.remove(&path);
    let class = classify_ta(&res, &body);
    ctx.case(input, &format!("c38 ta {} 25 25", show_limit(limit)), class);
    ta_oracle(ctx, input, expected, &body, &res, class, Some(25));
    ctx.count(&format!("config:{}", show_limit(limit)));
    ctx.nontrivial(format!("config:{file:?}:{cli:?}"));
}

fn rsync_arg_case(ctx: &mut Ctx, env: &mut Env, input: &Value) {
    let limit = limit_of(&input["limit"]);
    let cache = env.dir.join("rsync-arg");
    std::fs::create_dir_all(&cache).unwrap();
    let mut config = base_config(&cache);
    config.rsync_args = None;   // routinator's default arguments
    config.max_object_size = limit;
    config.disable_rrdp = true;
    let collector = Collector::new(&config).expect("collector");
    let _ = std::fs::remove_file(&env.rsync_log);
    let run = collector.start();
    run.verif_rsync().expect("rsync").load_module(&uri::Rsync::from_str("rsync://rsync.example/repo/x").unwrap());
    let log = std::fs::read_to_string(&env.rsync_log).unwrap_or_default();
    let arg = log.split_whitespace().find(|w| w.starts_with("--max-size")).map(String::from);
    ctx.case(input, &format!("c38 rsync-arg {}", show_limit(limit)), arg.as_deref().unwrap_or("-"));
    let expected = limit.map(|l| format!("--max-size={l}"));
    if arg != expected {
        ctx.oracle_fail("rsync-max-size", "the rsync command line does not carry the configured limit", input, json!({"log": log}));
    }
    ctx.count("rsync-arg");
}

//------------ generation ----------------------------------------------------

fn around(l: u64) -> Vec<u64> {
    let mut v = vec![l.saturating_sub(1), l, l + 1];
    v.dedup();
    v
}

fn gen_inputs(ctx: &mut Ctx) -> Vec<Value> {
    let mut res = Vec::new();
    let quick = ctx.quick();
    // read: boundary sizes × chunkings
    for limit in [None, Some(0u64), Some(1), Some(10), Some(1000), Some(65536)] {
        let base = limit.unwrap_or(100);
        let mut sizes = around(base);
        sizes.extend([0, 1, base * 2 + 3]);
        for size in sizes {
            let l = base.max(1);
            let mut scripts: Vec<Vec<Value>> = vec![
                vec![json!(size)],
                vec![json!(size.min(l)), json!(size.saturating_sub(l))],
                vec![json!(size.saturating_sub(1)), json!(size.min(1))],
                vec![json!(size.min(1)), json!(size.saturating_sub(1))],
                vec![json!(size / 2), json!(size - size / 2)],
            ];
            if size <= 20 { scripts.push((0..size).map(|_| json!(1)).collect()) }
            scripts.push(vec![json!(size.min(l)), json!("F"), json!(1)]);
            scripts.push(vec![json!("F")]);
            for script in scripts {
                let script: Vec<Value> = script.into_iter().filter(|v| v.as_u64() != Some(0)).collect();
                res.push(json!({"kind": "read", "limit": limit, "script": script}));
            }
        }
    }
    let n = ctx.budget(300, 20_000);
    for _ in 0..n {
        let limit = *ctx.rng.pick(&[None, Some(5u64), Some(64), Some(1000), Some(8192), Some(70000)]);
        let base = limit.unwrap_or(3000);
        let total = match ctx.rng.below(4) { 0 => base, 1 => base + 1, 2 => base.saturating_sub(1), _ => ctx.rng.below(2 * base + 2) };
        let mut left = total;
        let mut script = Vec::new();
        while left > 0 {
            let c = match ctx.rng.below(4) { 0 => 1, 1 => left, 2 => ctx.rng.range(1, left), _ => ctx.rng.range(1, left.min(40)) };
            script.push(json!(c));
            left -= c;
            if ctx.rng.chance(1, 40) { script.push(json!("F")) }
        }
        res.push(json!({"kind": "read", "limit": limit, "script": script}));
    }
    // ta: L ∈ {off, 10, 1000, default} × sizes around L × framings
    let mut limits = vec![None, Some(10u64), Some(1000), Some(DEFAULT_LIMIT)];
    if quick { limits.retain(|l| *l != Some(DEFAULT_LIMIT)) }
    for limit in &limits {
        let base = limit.unwrap_or(5000);
        for size in around(base) {
            res.push(json!({"kind": "ta", "limit": limit, "size": size, "framing": "cl"}));
            res.push(json!({"kind": "ta", "limit": limit, "size": size, "framing": "close"}));
            for chunks in [vec![size], vec![base, 1], vec![base.saturating_sub(1), 1, 1], vec![1, base], vec![3, 3, 3]] {
                if size > 100_000 && chunks.len() > 2 { continue }
                res.push(json!({"kind": "ta", "limit": limit, "size": size, "framing": "chunked", "chunks": chunks}));
            }
        }
    }
    if quick {
        // the default limit once in the quick tier
        for size in around(DEFAULT_LIMIT) {
            res.push(json!({"kind": "ta", "limit": DEFAULT_LIMIT, "size": size, "framing": if size % 2 == 0 { "cl" } else { "chunked" }, "chunks": [DEFAULT_LIMIT, 1]}));
        }
    }
    // a real certificate at its own size
    res.push(json!({"kind": "ta-cert-sizes"}));
    // objects
    let mut obj_limits = vec![None, Some(10u64), Some(1000)];
    if !quick { obj_limits.push(Some(DEFAULT_LIMIT)) }
    for limit in &obj_limits {
        let base = limit.unwrap_or(3000);
        for size in around(base) {
            for via in ["snapshot", "delta"] {
                res.push(json!({"kind": "object", "limit": limit, "size": size, "via": via}));
            }
        }
    }
    // config
    for file in [None, Some(0u64), Some(1), Some(24), Some(25), Some(DEFAULT_LIMIT), Some(1u64 << 40)] {
        for cli in [None, Some(0u64), Some(24), Some(25), Some(26)] {
            res.push(json!({"kind": "config", "file": file, "cli": cli}));
        }
    }
    for limit in [None, Some(1u64), Some(1000), Some(DEFAULT_LIMIT)] {
        res.push(json!({"kind": "rsync-arg", "limit": limit}));
    }
    res
}

pub fn run_c38(ctx: &mut Ctx) {
    crate::init_log();
    ctx.rule = "sizes L−1, L, L+1 (and 0, 1, 2L+3) for L ∈ {off, 0, 1, 10, 1000, 65536, default 20 000 000}: LimitedDataRead over \
        scripted readers with adversarial chunk boundaries and failures (plus random scripts); HTTPS trust anchor \
        downloads with Content-Length, chunked (cuts at L, L−1, 1) and close-delimited bodies, incl. a real certificate at \
        limits around its own size; RRDP objects in snapshots and deltas through real updates; max-object-size from \
        config file × command line followed by a download; the rsync --max-size argument; non-trivial = distinct \
        (kind, limit, framing, result) signatures".into();
    let dir = ctx.out.join("c38");
    let _ = std::fs::remove_dir_all(&dir);
    std::fs::create_dir_all(&dir).unwrap();
    let rsync_log = dir.join("rsync.log");
    std::env::set_var("VERIF_RSYNC_LOG", &rsync_log);
    std::env::set_var("VERIF_RSYNC_EXIT", "0");
    rvcore::clock::set(T0, 0);
    let srv = httpsrv::Server::start();
    let cert = crate::c29::make_ta_der("rsync://rsync.example/repo/ca/");
    let mut env = Env { dir: dir.clone(), srv, cert, n: 0, rsync_log };
    let inputs = match ctx.replay_inputs() {
        Some(inputs) => inputs,
        None => {
            let mut res = ctx.corpus("C38");
            res.extend(gen_inputs(ctx));
            res
        }
    };
    for input in &inputs {
        match input["kind"].as_str() {
            Some("read") => read_case(ctx, input),
            Some("ta") => ta_case(ctx, &mut env, input),
            Some("ta-cert-sizes") => {
                let s = env.cert.len() as u64;
                for limit in [None, Some(s - 1), Some(s), Some(s + 1)] {
                    for framing in ["cl", "chunked", "close"] {
                        let case = json!({"kind": "ta", "body": "cert", "limit": limit, "framing": framing, "chunks": [s - 1, 1]});
                        ta_case(ctx, &mut env, &case);
                    }
                }
            }
            Some("object") => object_case(ctx, &mut env, input),
            Some("config") => config_case(ctx, &mut env, input),
            Some("rsync-arg") => rsync_arg_case(ctx, &mut env, input),
            _ => { }
        }
    }
    rvcore::clock::disable();
    let _ = std::fs::remove_dir_all(&dir);
}
