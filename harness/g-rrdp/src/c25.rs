//! C25: RRDP updates reproduce the server state or report failure.
//!
//! Every scenario is a genuine server history plus a sequence of update
//! steps; each step scripts what the HTTPS server presents (possibly
//! faulty). The real `rrdp::Collector` runs one update per step; before and
//! after each step the archive is read back. Per step one model request
//! (pre-state as observed + abstract view of the served artefacts) and one
//! implementation line (outcome, post-state, request trace) are emitted, and
//! the property oracle is applied to the real observations.

use std::collections::BTreeMap;
use serde_json::{json, Value};
use rvcore::Ctx;
use httpsrv::Server;
use crate::gen::*;
use crate::world::*;

fn show_objs(objs: &BTreeMap<String, Vec<u8>>) -> String {
    if objs.is_empty() { return "-".into() }
    objs.iter().map(|(k, v)| {
        match (uri_object(k), bytes_content(v)) {
            (Some(u), Some(c)) => format!("{u}:{c}"),
            (Some(u), None) => format!("{u}:?"),
            _ => "?:?".to_string(),
        }
    }).collect::<Vec<_>>().join(",")
}

pub fn show_local(obs: &Option<LocalObs>, ids: &mut HashIds) -> String {
    match obs {
        None => "none".into(),
        Some(o) => {
            let ds = if o.delta_state.is_empty() { "-".to_string() } else {
                o.delta_state.iter().map(|(k, h)| format!("{k}:{}", ids.id(h))).collect::<Vec<_>>().join(",")
            };
            format!(
                "{};{};{};{};{};{};{};{}",
                show_objs(&o.objs),
                o.session.map(|s| s.to_string()).unwrap_or_else(|| "?".into()),
                o.serial,
                match &o.etag { None => "-".into(), Some(e) => string_etag(e).map(|e| e.to_string()).unwrap_or_else(|| "?".into()) },
                o.lm.map(|t| t.to_string()).unwrap_or_else(|| "-".into()),
                o.updated, o.best_before, ds
            )
        }
    }
}

fn show_elems(elems: &[Elem]) -> String {
    if elems.is_empty() { return "-".into() }
    elems.iter().map(|e| match e {
        Elem::Publish { uri, hash: None, content } => format!("p.{uri}.{content}"),
        Elem::Publish { uri, hash: Some(h), content } => format!("u.{uri}.{h}.{content}"),
        Elem::Withdraw { uri, hash } => format!("w.{uri}.{hash}"),
    }).collect::<Vec<_>>().join(",")
}

/// The abstract view of a step for the model.
pub fn show_view(step: &Step, served: &Served, ids: &mut HashIds) -> (String, String) {
    let n = &step.notify;
    let mut content = || {
        let origin_ok = !n.snapshot.foreign;
        let deltas = if n.deltas.is_empty() { "-".to_string() } else {
            n.deltas.iter().zip(served.delta_hashes.iter()).map(|(e, h)| {
                format!("{}:{}:{}:{}", e.serial, e.file, ids_get(ids, h), if e.foreign { 1 } else { 0 })
            }).collect::<Vec<_>>().join(",")
        };
        format!(
            "{};{};{};{}:{};{}", n.session, n.serial, if origin_ok { 1 } else { 0 },
            n.snapshot.file, ids_get(ids, &served.snapshot_hash), deltas
        )
    };
    let validators = format!(
        "{};{};{}",
        n.etag.map(|e| e.to_string()).unwrap_or_else(|| "-".into()),
        n.lm.map(|t| t.to_string()).unwrap_or_else(|| "-".into()),
        if n.conditional { 1 } else { 0 }
    );
    let nresp = match n.kind {
        NotifyKind::Ok => format!("ok;{validators};{}", content()),
        NotifyKind::BadXml | NotifyKind::Cut => format!("bad;{validators}"),
        NotifyKind::Status(_) => "fail".to_string(),
        NotifyKind::Force304 => "force304".to_string(),
    };
    let files = if step.files.is_empty() { "-".to_string() } else {
        step.files.iter().zip(served.file_hashes.iter()).map(|(f, h)| {
            if f.status != 200 || f.kind == FileKind::Garbage {
                "fail".to_string()
            } else {
                format!(
                    "{};{};{};{};{};{}",
                    if f.kind == FileKind::Snapshot { "S" } else { "D" },
                    // A torn or cut transfer never matches any listed hash.
                    if f.end == FileEnd::Torn { 0 } else { ids_get(ids, h) },
                    f.session, f.serial, if f.end == FileEnd::Ok { 1 } else { 0 },
                    show_elems(&f.elems)
                )
            }
        }).collect::<Vec<_>>().join("#")
    };
    (nresp, files)
}

fn ids_get(ids: &mut HashIds, h: &[u8; 32]) -> usize { ids.id(h) }

pub fn show_trace(log: &[httpsrv::Request], served: &Served) -> String {
    log.iter().map(|r| {
        if r.path == served.notify_path {
            let inm = r.if_none_match.as_ref().map(|s| {
                string_etag(s.as_bytes()).map(|e| e.to_string()).unwrap_or_else(|| "?".into())
            }).unwrap_or_else(|| "-".into());
            let ims = r.if_modified_since.as_ref().map(|s| {
                httpsrv::parse_http_date(s).map(|t| t.to_string()).unwrap_or_else(|| "?".into())
            }).unwrap_or_else(|| "-".into());
            format!("n[{inm}/{ims}]")
        } else if let Some(i) = served.file_paths.iter().position(|p| *p == r.path) {
            format!("f{i}")
        } else if let Some(rest) = r.path.rsplit('/').next().and_then(|s| s.strip_prefix("missing")) {
            format!("f{}", rest.trim_end_matches(".xml"))
        } else {
            "x".to_string()
        }
    }).collect::<Vec<_>>().join(",")
}

fn fail(ctx: &mut Ctx, violated: &mut bool, class: &str, reason: &str, input: &Value, observed: Value) {
    *violated = true;
    ctx.oracle_fail(class, reason, input, observed);
}

struct StepObs {
    outcome: Outcome,
    pre: Option<LocalObs>,
    post: Option<LocalObs>,
    seen: Option<BTreeMap<u64, Option<Vec<u8>>>>,
}

/// Runs a scenario against the real collector.
pub fn run_scenario(ctx: &mut Ctx, srv: &Server, sc: &Scenario, input: &Value) {
    let dir = tempfile::tempdir().expect("tempdir");
    let config = make_config(dir.path(), sc.max_delta_count, sc.max_delta_list_len);
    let collector = make_collector(&config);
    srv.clear();
    let _ = srv.take_log();
    let mut ids = HashIds::default();
    let mut now = T0;
    // Set once a failed update left a modified archive behind.
    let mut tainted = false;
    let mut sig = Vec::new();
    let mut prev_post: Option<Option<LocalObs>> = Some(None);
    // The local copy stems from the history before a restore.
    let mut local_from_old = true;

    for (i, step) in sc.steps.iter().enumerate() {
        now += step.adv.max(1);
        rvcore::clock::set(now, 0);
        let served = serve_step(srv, i, step);
        // The copy before the step is what the previous step left.
        let pre = prev_post.take().unwrap_or(None);
        let uri = srv.url(&served.notify_path);
        let (outcome, seen) = match rvcore::catch(std::panic::AssertUnwindSafe(|| run_update(&collector, &uri))) {
            Ok(x) => x,
            Err(msg) => {
                ctx.oracle_fail("panic", &format!("step {i}: {msg}"), input, json!({"step": i}));
                return
            }
        };
        let log = srv.take_log();
        let post = match observe(&config) {
            Ok(post) => post,
            Err(err) => {
                ctx.oracle_fail("archive-unreadable", &format!("after step {i}: {err}"), input, json!({"step": i}));
                return
            }
        };
        prev_post = Some(post.clone());
        let obs = StepObs { outcome, pre, post, seen };

        // The random fallback draw, taken from the state written in this step.
        let draw = match &obs.post {
            Some(p) if p.updated == now => p.best_before - now,
            _ => 0
        };
        if draw != 0 && !(REFRESH as i64 <= draw && draw < FALLBACK as i64 + 1) {
            ctx.count("draw-out-of-range");
        }

        let (nresp, files) = show_view(step, &served, &mut ids);
        let op = format!(
            "c25 {} {} {} {}|{}|{}|{}",
            sc.max_delta_count, sc.max_delta_list_len, now, draw,
            show_local(&obs.pre, &mut ids), nresp, files
        );
        let imp = format!(
            "{}|{}|{}", obs.outcome.as_str(), show_local(&obs.post, &mut ids),
            show_trace(&log, &served)
        );
        let case_input = json!({"scenario": input, "step": i});
        ctx.case(&case_input, &op, &imp);
        ctx.count(&format!("outcome:{}", obs.outcome.as_str()));
        for f in &step.faults { ctx.count(&format!("fault:{f}")); }
        let path = if log.iter().any(|r| served.file_paths.first().map(|p| *p == r.path).unwrap_or(false)
            || (step.notify.snapshot.file < served.file_paths.len() && r.path == served.file_paths[step.notify.snapshot.file])) {
            "snapshot"
        } else if log.len() > 1 { "delta" } else { "notify-only" };
        ctx.count(&format!("path:{path}"));
        sig.push(format!("{}{}{}", obs.outcome.as_str(), path, step.faults.join("+")));

        // ---- the property oracle on the real observations ----
        let mut violated = false;
        // A restored server (same session and serials, other content) can
        // only be noticed if the notification re-lists a delta the local
        // state remembers, with another hash (or changes the session). If it
        // does not, no client could tell: the case is outside the property.
        if sc.history2.is_some() && i >= sc.fork_at && local_from_old {
            let detectable = match &obs.pre {
                None => true,
                Some(pre) => {
                    log.first().map(|r| r.status == 200).unwrap_or(false)
                    && step.notify.kind == NotifyKind::Ok
                    && (Some(step.notify.session) != pre.session
                        || step.notify.deltas.iter().zip(served.delta_hashes.iter()).any(|(e, h)| {
                            pre.delta_state.get(&e.serial).map(|known| known != h).unwrap_or(false)
                        }))
                }
            };
            if !detectable {
                ctx.count("restore-undetectable-skipped");
                break
            }
        }
        let modified = obs.pre.as_ref().map(|p| &p.objs) != obs.post.as_ref().map(|p| &p.objs);
        if obs.outcome == Outcome::Updated {
            let cls = |base: &str| -> String {
                if tainted { "dirty-archive-after-failed-delta-and-failed-snapshot".to_string() }
                else { base.to_string() }
            };
            match &obs.post {
                None => fail(ctx, &mut violated, 
                    &cls("updated-without-archive"),
                    &format!("step {i}: reported updated but there is no archive"),
                    input, json!({"step": i})
                ),
                Some(post) => {
                    // The notified version: the notification's, or for Not
                    // Modified the one the local state names.
                    let not_modified = log.first().map(|r| r.status == 304).unwrap_or(false);
                    let (ns, nser) = if not_modified {
                        (post.session, post.serial)
                    } else {
                        (Some(step.notify.session), step.notify.serial)
                    };
                    let state_ok = post.session == ns && post.serial == nser;
                    let truth = ns.and_then(|s| sc.snapshot_at(i, s, nser));
                    let want: Option<BTreeMap<String, Vec<u8>>> = truth.map(|v| {
                        v.objs.iter().map(|(u, c)| (object_uri(*u), content_bytes(*c))).collect()
                    });
                    let gap = {
                        // A gap in the listed deltas above the local serial.
                        let mut serials: Vec<u64> = step.notify.deltas.iter().map(|e| e.serial)
                            .filter(|s| obs.pre.as_ref().map(|p| *s > p.serial).unwrap_or(false)).collect();
                        serials.sort(); serials.dedup();
                        serials.windows(2).any(|w| w[0] + 1 != w[1])
                    };
                    let base = if gap && path == "delta" { "gapped-delta-list" } else { "updated-content-differs" };
                    if !state_ok {
                        fail(ctx, &mut violated, 
                            &cls("updated-state-differs"),
                            &format!("step {i}: reported updated, local state {:?}/{} but notified {:?}/{}", post.session, post.serial, ns, nser),
                            input, json!({"step": i, "impl": imp})
                        );
                    }
                    else if want.as_ref() != Some(&post.objs) {
                        fail(ctx, &mut violated, 
                            &cls(base),
                            &format!(
                                "step {i}: reported updated to session {:?} serial {} but archive objects [{}] != server snapshot [{}]",
                                ns, nser, show_objs(&post.objs),
                                want.as_ref().map(show_objs).unwrap_or_else(|| "no such version".into())
                            ),
                            input, json!({"step": i, "impl": imp, "faults": step.faults})
                        );
                    }
                    else if let Some(seen) = &obs.seen {
                        // What the validation run reads through the handle.
                        let seen_ok = (0..UNIVERSE).all(|u| {
                            let w = want.as_ref().and_then(|w| w.get(&object_uri(u)));
                            match seen.get(&u) {
                                None => w.is_none(),
                                Some(Some(d)) => w == Some(d),
                                Some(None) => false,
                            }
                        });
                        if !seen_ok {
                            fail(ctx, &mut violated, 
                                &cls("updated-handle-differs"),
                                &format!("step {i}: objects read through the repository handle differ from the server snapshot"),
                                input, json!({"step": i})
                            );
                        }
                    }
                    if state_ok && want.as_ref() == Some(&post.objs) {
                        // A successful update to genuine content clears the taint.
                        tainted = false;
                        if i >= sc.fork_at { local_from_old = false; }
                    }
                }
            }
        }
        else {
            // Not updated: the load result carries no repository handle (by
            // type). Remember whether the archive was modified nevertheless.
            if modified && obs.post.is_some() {
                tainted = true;
                ctx.count("failed-update-left-modified-archive");
            }
            if obs.pre.as_ref().map(|p| (p.session, p.serial)) != obs.post.as_ref().map(|p| (p.session, p.serial))
                && obs.post.is_some() && obs.pre.is_some()
            {
                fail(ctx, &mut violated, 
                    "failed-update-advanced-state",
                    &format!("step {i}: update reported as failed but the local state moved"),
                    input, json!({"step": i, "impl": imp})
                );
            }
        }
        if tmp_files(&config) > 0 { ctx.count("tmp-file-left"); }
        if violated {
            // Later steps would only repeat the consequences.
            break
        }
    }
    ctx.nontrivial(sig.join("/"));
}

pub fn run_c25(ctx: &mut Ctx) {
    ctx.rule = "scenario = genuine history over 4 objects (1-6 versions, sessions change) + 2-6 update steps; \
        each step serves the genuine view of a version with 0-3 faults from the catalogue (HTTP status, bad/cut XML, \
        304, stale validators, new session, serial jumps, foreign origin, dropped/duplicated/shuffled/mutated delta \
        entries, oversized list, file status/garbage/malformed/cut/torn, dropped/extra/changed elements, wrong \
        preconditions, wrong meta); plus the exhaustive single-fault catalogue at steps 1 and 2 of a fixed 5-version \
        history and (delta-file fault x snapshot fault) pairs; the server going backwards within a session (genuine older \
        views with long/short/empty lists, changed hashes, lowered serial only) and faulty views of an unchanged server; \
        a restored server (same session and serials, a remembered delta re-issued with another hash, delta list extended \
        downwards by 1/2/many older serials, serial unchanged or advanced); distinct = distinct (outcome, path, faults) sequences".into();
    let srv = Server::start();
    let mut inputs: Vec<Value> = Vec::new();
    if let Some(replay) = ctx.replay_inputs() {
        for v in replay {
            inputs.push(v.get("scenario").cloned().unwrap_or(v));
        }
    } else {
        for v in ctx.corpus("C25") {
            inputs.push(v.get("scenario").cloned().unwrap_or(v));
        }
        let mut rng = ctx.rng.fork();
        for sc in enumerate_single(&mut rng) { inputs.push(sc.to_json()); }
        for sc in enumerate_rollback(&mut rng) { inputs.push(sc.to_json()); }
        for sc in enumerate_unchanged(&mut rng) { inputs.push(sc.to_json()); }
        for sc in enumerate_restore() { inputs.push(sc.to_json()); }
        for sc in enumerate_pairs(&mut rng, !ctx.quick() || ctx.search) { inputs.push(sc.to_json()); }
        let n = ctx.budget(150, 2000);
        for _ in 0..n {
            let sc = gen_scenario(&mut rng, !ctx.quick());
            inputs.push(sc.to_json());
        }
    }
    for input in inputs {
        match Scenario::from_json(&input) {
            Some(sc) => run_scenario(ctx, &srv, &sc, &input),
            None => { ctx.count("bad-input"); }
        }
    }
    rvcore::clock::disable();
}
