//! Scripted RRDP server worlds: abstract scenario types, their JSON form,
//! materialisation as XML files on the HTTPS test server, and access to the
//! real collector's archive.

use std::collections::{BTreeMap, HashMap};
use std::path::{Path, PathBuf};
use std::sync::Arc;
use serde_json::{json, Value};
use httpsrv::{Framing, Response, Server};

pub const NS: &str = "http://www.ripe.net/rpki/rrdp";

//------------ Abstract types ------------------------------------------------

/// One genuine server version.
#[derive(Clone, Debug, PartialEq)]
pub struct Version {
    pub session: u64,
    pub serial: u64,
    pub objs: BTreeMap<u64, u64>,
}

#[derive(Clone, Debug, PartialEq)]
pub enum Elem {
    /// `<publish uri [hash]>content</publish>`
    Publish { uri: u64, hash: Option<u64>, content: u64 },
    /// `<withdraw uri hash/>`
    Withdraw { uri: u64, hash: u64 },
}

impl Elem {
    pub fn uri(&self) -> u64 {
        match self { Elem::Publish { uri, .. } | Elem::Withdraw { uri, .. } => *uri }
    }
}

#[derive(Clone, Copy, Debug, PartialEq, Eq)]
pub enum FileKind { Snapshot, Delta, Garbage }

#[derive(Clone, Copy, Debug, PartialEq, Eq)]
pub enum FileEnd {
    Ok,
    /// An unknown element after the listed ones.
    Malformed,
    /// The document stops after the listed elements (no closing tags).
    Cut,
    /// Complete document but the transfer is torn right after the listed elements.
    Torn,
}

#[derive(Clone, Debug, PartialEq)]
pub struct FileSpec {
    pub kind: FileKind,
    pub status: u16,
    pub session: u64,
    pub serial: u64,
    pub elems: Vec<Elem>,
    pub end: FileEnd,
    /// 0 = Content-Length, 1 = chunked (small chunks), 2 = close-delimited.
    pub framing: u8,
}

#[derive(Clone, Debug, PartialEq)]
pub struct Entry {
    pub serial: u64,
    /// Index into the step's files: the URL points there.
    pub file: usize,
    /// Index of the file whose bytes are hashed for the `hash` attribute,
    /// or -1 for a hash no file has.
    pub hash: i64,
    /// URL on a foreign authority.
    pub foreign: bool,
}

#[derive(Clone, Debug, PartialEq)]
pub enum NotifyKind { Ok, Status(u16), BadXml, Cut, Force304 }

#[derive(Clone, Debug, PartialEq)]
pub struct NotifySpec {
    pub kind: NotifyKind,
    pub etag: Option<u64>,
    pub lm: Option<i64>,
    pub conditional: bool,
    pub session: u64,
    pub serial: u64,
    pub snapshot: Entry,
    pub deltas: Vec<Entry>,
}

#[derive(Clone, Debug, PartialEq)]
pub struct Step {
    /// Seconds the clock advances before this update.
    pub adv: i64,
    pub notify: NotifySpec,
    pub files: Vec<FileSpec>,
    /// Free-form labels of the faults injected (for statistics only).
    pub faults: Vec<String>,
}

#[derive(Clone, Debug, PartialEq)]
pub struct Scenario {
    pub max_delta_count: usize,
    pub max_delta_list_len: usize,
    pub history: Vec<Version>,
    pub steps: Vec<Step>,
    /// The server was restored / republished: from step `fork_at` on the
    /// truth is `history2` (same sessions and serials may carry other content).
    pub history2: Option<Vec<Version>>,
    pub fork_at: usize,
}

impl Scenario {
    /// The history in force at a step.
    pub fn truth(&self, step: usize) -> &Vec<Version> {
        match &self.history2 {
            Some(h2) if step >= self.fork_at => h2,
            _ => &self.history,
        }
    }
    /// The server's snapshot at `(session, serial)` as of the given step.
    pub fn snapshot_at(&self, step: usize, session: u64, serial: u64) -> Option<&Version> {
        self.truth(step).iter().find(|v| v.session == session && v.serial == serial)
    }
}


//------------ JSON ----------------------------------------------------------

fn u(v: &Value) -> Option<u64> { v.as_u64() }

impl Version {
    pub fn to_json(&self) -> Value {
        json!({"session": self.session, "serial": self.serial,
               "objs": self.objs.iter().map(|(k, v)| json!([k, v])).collect::<Vec<_>>()})
    }
    pub fn from_json(v: &Value) -> Option<Self> {
        let mut objs = BTreeMap::new();
        for item in v.get("objs")?.as_array()? {
            objs.insert(u(item.get(0)?)?, u(item.get(1)?)?);
        }
        Some(Version { session: u(v.get("session")?)?, serial: u(v.get("serial")?)?, objs })
    }
}

impl Elem {
    pub fn to_json(&self) -> Value {
        match self {
            Elem::Publish { uri, hash, content } => json!(["p", uri, hash, content]),
            Elem::Withdraw { uri, hash } => json!(["w", uri, hash]),
        }
    }
    pub fn from_json(v: &Value) -> Option<Self> {
        match v.get(0)?.as_str()? {
            "p" => Some(Elem::Publish {
                uri: u(v.get(1)?)?,
                hash: if v.get(2)?.is_null() { None } else { Some(u(v.get(2)?)?) },
                content: u(v.get(3)?)?,
            }),
            "w" => Some(Elem::Withdraw { uri: u(v.get(1)?)?, hash: u(v.get(2)?)? }),
            _ => None
        }
    }
}

impl FileSpec {
    pub fn to_json(&self) -> Value {
        json!({
            "kind": match self.kind { FileKind::Snapshot => "snapshot", FileKind::Delta => "delta", FileKind::Garbage => "garbage" },
            "status": self.status, "session": self.session, "serial": self.serial,
            "elems": self.elems.iter().map(Elem::to_json).collect::<Vec<_>>(),
            "end": match self.end { FileEnd::Ok => "ok", FileEnd::Malformed => "malformed", FileEnd::Cut => "cut", FileEnd::Torn => "torn" },
            "framing": self.framing,
        })
    }
    pub fn from_json(v: &Value) -> Option<Self> {
        Some(FileSpec {
            kind: match v.get("kind")?.as_str()? {
                "snapshot" => FileKind::Snapshot, "delta" => FileKind::Delta,
                "garbage" => FileKind::Garbage, _ => return None
            },
            status: u(v.get("status")?)? as u16,
            session: u(v.get("session")?)?, serial: u(v.get("serial")?)?,
            elems: v.get("elems")?.as_array()?.iter().map(Elem::from_json).collect::<Option<_>>()?,
            end: match v.get("end")?.as_str()? {
                "ok" => FileEnd::Ok, "malformed" => FileEnd::Malformed,
                "cut" => FileEnd::Cut, "torn" => FileEnd::Torn, _ => return None
            },
            framing: u(v.get("framing")?)? as u8,
        })
    }
}

impl Entry {
    pub fn to_json(&self) -> Value {
        json!({"serial": self.serial, "file": self.file, "hash": self.hash, "foreign": self.foreign})
    }
    pub fn from_json(v: &Value) -> Option<Self> {
        Some(Entry {
            serial: u(v.get("serial")?)?, file: u(v.get("file")?)? as usize,
            hash: v.get("hash")?.as_i64()?, foreign: v.get("foreign")?.as_bool()?,
        })
    }
}

impl NotifySpec {
    pub fn to_json(&self) -> Value {
        let (kind, status) = match self.kind {
            NotifyKind::Ok => ("ok", 200), NotifyKind::Status(s) => ("status", s),
            NotifyKind::BadXml => ("badxml", 200), NotifyKind::Cut => ("cut", 200),
            NotifyKind::Force304 => ("force304", 304),
        };
        json!({
            "kind": kind, "status": status, "etag": self.etag, "lm": self.lm,
            "conditional": self.conditional, "session": self.session, "serial": self.serial,
            "snapshot": self.snapshot.to_json(),
            "deltas": self.deltas.iter().map(Entry::to_json).collect::<Vec<_>>(),
        })
    }
    pub fn from_json(v: &Value) -> Option<Self> {
        Some(NotifySpec {
            kind: match v.get("kind")?.as_str()? {
                "ok" => NotifyKind::Ok,
                "status" => NotifyKind::Status(u(v.get("status")?)? as u16),
                "badxml" => NotifyKind::BadXml, "cut" => NotifyKind::Cut,
                "force304" => NotifyKind::Force304, _ => return None
            },
            etag: v.get("etag").and_then(u),
            lm: v.get("lm").and_then(|x| x.as_i64()),
            conditional: v.get("conditional")?.as_bool()?,
            session: u(v.get("session")?)?, serial: u(v.get("serial")?)?,
            snapshot: Entry::from_json(v.get("snapshot")?)?,
            deltas: v.get("deltas")?.as_array()?.iter().map(Entry::from_json).collect::<Option<_>>()?,
        })
    }
}

impl Step {
    pub fn to_json(&self) -> Value {
        json!({"adv": self.adv, "notify": self.notify.to_json(),
               "files": self.files.iter().map(FileSpec::to_json).collect::<Vec<_>>(),
               "faults": self.faults})
    }
    pub fn from_json(v: &Value) -> Option<Self> {
        Some(Step {
            adv: v.get("adv")?.as_i64()?,
            notify: NotifySpec::from_json(v.get("notify")?)?,
            files: v.get("files")?.as_array()?.iter().map(FileSpec::from_json).collect::<Option<_>>()?,
            faults: v.get("faults").and_then(|f| f.as_array()).map(|a| {
                a.iter().filter_map(|s| s.as_str().map(String::from)).collect()
            }).unwrap_or_default(),
        })
    }
}

impl Scenario {
    pub fn to_json(&self) -> Value {
        json!({"max_delta_count": self.max_delta_count,
               "max_delta_list_len": self.max_delta_list_len,
               "history": self.history.iter().map(Version::to_json).collect::<Vec<_>>(),
               "history2": self.history2.as_ref().map(|h| h.iter().map(Version::to_json).collect::<Vec<_>>()),
               "fork_at": self.fork_at,
               "steps": self.steps.iter().map(Step::to_json).collect::<Vec<_>>()})
    }
    pub fn from_json(v: &Value) -> Option<Self> {
        Some(Scenario {
            max_delta_count: u(v.get("max_delta_count")?)? as usize,
            max_delta_list_len: u(v.get("max_delta_list_len")?)? as usize,
            history: v.get("history")?.as_array()?.iter().map(Version::from_json).collect::<Option<_>>()?,
            steps: v.get("steps")?.as_array()?.iter().map(Step::from_json).collect::<Option<_>>()?,
            history2: match v.get("history2") {
                Some(h) if h.is_array() => Some(h.as_array()?.iter().map(Version::from_json).collect::<Option<_>>()?),
                _ => None
            },
            fork_at: v.get("fork_at").and_then(|x| x.as_u64()).unwrap_or(0) as usize,
        })
    }
}


//------------ Concrete encodings --------------------------------------------

pub fn session_uuid(session: u64) -> String {
    format!("{}", uuid::Uuid::from_u128(0x1000_0000_0000_0000_0000_0000_0000_0000u128 + session as u128))
}

pub fn uuid_session(id: uuid::Uuid) -> Option<u64> {
    let v = id.as_u128().checked_sub(0x1000_0000_0000_0000_0000_0000_0000_0000u128)?;
    u64::try_from(v).ok()
}

pub fn object_uri(uri: u64) -> String { format!("rsync://rpki.example/repo/o{uri}.cer") }

pub fn uri_object(uri: &str) -> Option<u64> {
    uri.strip_prefix("rsync://rpki.example/repo/o")?.strip_suffix(".cer")?.parse().ok()
}

/// The bytes of content number `content`. Sizes vary with the number (17 …
/// ~380 bytes) so that archive updates are sometimes in place (same page
/// count) and sometimes delete + publish.
pub fn content_bytes(content: u64) -> Vec<u8> {
    let mut res = format!("object-content-{content}").into_bytes();
    res.extend(std::iter::repeat(b'.').take((content % 4) as usize * 120));
    res
}

pub fn bytes_content(data: &[u8]) -> Option<u64> {
    let text = std::str::from_utf8(data).ok()?;
    let core = text.trim_end_matches('.');
    let content: u64 = core.strip_prefix("object-content-")?.parse().ok()?;
    if content_bytes(content) == data { Some(content) } else { None }
}

pub fn sha256(data: &[u8]) -> [u8; 32] {
    let mut res = [0u8; 32];
    res.copy_from_slice(ring::digest::digest(&ring::digest::SHA256, data).as_ref());
    res
}

pub fn hex(data: &[u8]) -> String {
    data.iter().map(|b| format!("{b:02x}")).collect()
}

pub fn etag_string(etag: u64) -> String { format!("\"e{etag}\"") }

pub fn string_etag(s: &[u8]) -> Option<u64> {
    std::str::from_utf8(s).ok()?.strip_prefix("\"e")?.strip_suffix('"')?.parse().ok()
}

fn base64(data: &[u8]) -> String { rpki::util::base64::Xml.encode(data) }

impl FileSpec {
    /// The document bytes and, for a torn transfer, the number of bytes sent.
    pub fn render(&self) -> (Vec<u8>, Option<usize>) {
        let mut s = String::new();
        let root = match self.kind {
            FileKind::Snapshot => "snapshot",
            FileKind::Delta => "delta",
            FileKind::Garbage => {
                return (format!(
                    "<nonsense xmlns=\"{NS}\" version=\"1\" session_id=\"{}\" serial=\"{}\"></nonsense>",
                    session_uuid(self.session), self.serial
                ).into_bytes(), None)
            }
        };
        s.push_str(&format!(
            "<{root} xmlns=\"{NS}\" version=\"1\" session_id=\"{}\" serial=\"{}\">\n",
            session_uuid(self.session), self.serial
        ));
        for e in &self.elems {
            match e {
                Elem::Publish { uri, hash, content } => {
                    s.push_str(&format!("  <publish uri=\"{}\"", object_uri(*uri)));
                    if let Some(h) = hash {
                        s.push_str(&format!(" hash=\"{}\"", hex(&sha256(&content_bytes(*h)))));
                    }
                    s.push_str(&format!(">{}</publish>\n", base64(&content_bytes(*content))));
                }
                Elem::Withdraw { uri, hash } => {
                    s.push_str(&format!(
                        "  <withdraw uri=\"{}\" hash=\"{}\"/>\n",
                        object_uri(*uri), hex(&sha256(&content_bytes(*hash)))
                    ));
                }
            }
        }
        let mut torn = None;
        match self.end {
            FileEnd::Ok => s.push_str(&format!("</{root}>\n")),
            FileEnd::Malformed => s.push_str(&format!("  <bogus/>\n</{root}>\n")),
            FileEnd::Cut => { }
            FileEnd::Torn => {
                torn = Some(s.len());
                // Enough trailing data that the client cannot have the rest buffered.
                s.push_str(&format!("<!-- {} -->\n</{root}>\n", "x".repeat(64)));
            }
        }
        (s.into_bytes(), torn)
    }

    pub fn response(&self) -> Response {
        if self.status != 200 {
            return Response::status(self.status)
        }
        let (body, torn) = self.render();
        let mut resp = Response::ok(body);
        resp = match self.framing {
            1 => resp.framing(Framing::Chunked(vec![1, 7, 64, 3, 200])),
            2 => resp.framing(Framing::Close),
            _ => resp,
        };
        if let Some(n) = torn {
            // A torn transfer needs a framing that promises more.
            resp = resp.framing(Framing::ContentLength).cut_after(n);
        }
        resp
    }
}

/// A step as served: notification body plus per-file paths.
pub struct Served {
    pub notify_path: String,
    pub file_paths: Vec<String>,
    /// sha256 of every file's document bytes.
    pub file_hashes: Vec<[u8; 32]>,
    /// The hash attribute values used in the notification: snapshot, then deltas.
    pub snapshot_hash: [u8; 32],
    pub delta_hashes: Vec<[u8; 32]>,
}

pub fn bogus_hash(step: usize, slot: usize) -> [u8; 32] {
    sha256(format!("bogus-hash-{step}-{slot}").as_bytes())
}

/// Installs the step's artefacts on the server.
pub fn serve_step(srv: &Server, idx: usize, step: &Step) -> Served {
    let notify_path = "/rrdp/notification.xml".to_string();
    let file_paths: Vec<String> = (0..step.files.len()).map(|i| {
        format!("/rrdp/s{idx}/f{i}.xml")
    }).collect();
    let mut file_hashes = Vec::new();
    for (i, f) in step.files.iter().enumerate() {
        let (body, _) = f.render();
        file_hashes.push(sha256(&body));
        srv.set(&file_paths[i], f.response());
    }
    let hash_for = |e: &Entry, slot: usize| -> [u8; 32] {
        if e.hash >= 0 && (e.hash as usize) < file_hashes.len() {
            file_hashes[e.hash as usize]
        } else {
            bogus_hash(idx, slot)
        }
    };
    let url_for = |e: &Entry| -> String {
        let path = file_paths.get(e.file).cloned().unwrap_or_else(|| format!("/rrdp/s{idx}/missing{}.xml", e.file));
        if e.foreign {
            format!("https://foreign.example:{}{}", srv.port(), path)
        } else {
            srv.url(&path)
        }
    };
    let n = &step.notify;
    let snapshot_hash = hash_for(&n.snapshot, 0);
    let delta_hashes: Vec<[u8; 32]> = n.deltas.iter().enumerate().map(|(i, e)| hash_for(e, i + 1)).collect();
    let mut xml = format!(
        "<notification xmlns=\"{NS}\" version=\"1\" session_id=\"{}\" serial=\"{}\">\n",
        session_uuid(n.session), n.serial
    );
    xml.push_str(&format!(
        "  <snapshot uri=\"{}\" hash=\"{}\"/>\n", url_for(&n.snapshot), hex(&snapshot_hash)
    ));
    for (e, h) in n.deltas.iter().zip(delta_hashes.iter()) {
        xml.push_str(&format!(
            "  <delta serial=\"{}\" uri=\"{}\" hash=\"{}\"/>\n", e.serial, url_for(e), hex(h)
        ));
    }
    let mut resp = match n.kind {
        NotifyKind::Ok => { xml.push_str("</notification>\n"); Response::ok(xml) }
        NotifyKind::BadXml => { xml.push_str("  <bogus/>\n</notification>\n"); Response::ok(xml) }
        NotifyKind::Cut => Response::ok(xml),
        NotifyKind::Status(s) => Response::status(s),
        NotifyKind::Force304 => Response::status(304),
    };
    if let Some(e) = n.etag { resp = resp.etag(etag_string(e)); }
    if let Some(lm) = n.lm { resp = resp.last_modified(lm); }
    resp = resp.conditional(n.conditional);
    srv.set(&notify_path, resp);
    Served { notify_path, file_paths, file_hashes, snapshot_hash, delta_hashes }
}


//------------ The real collector --------------------------------------------

use routinator::collector::verif_rrdp::{Collector, LoadResult};
use routinator::collector::RrdpArchive;
use routinator::config::Config;

pub fn make_config(cache: &Path, sc_max_delta_count: usize, sc_max_list: usize) -> Config {
    let mut config = Config::default_with_paths(cache.join("routinator.conf"), cache.join("cache"));
    config.rrdp_root_certs = vec![httpsrv::ca_cert_path()];
    config.allow_dubious_hosts = true;
    config.rrdp_max_delta_count = sc_max_delta_count;
    config.rrdp_max_delta_list_len = sc_max_list;
    config.refresh = std::time::Duration::from_secs(REFRESH);
    config.rrdp_fallback_time = std::time::Duration::from_secs(FALLBACK);
    config.rrdp_timeout = Some(std::time::Duration::from_secs(20));
    config.rrdp_proxies = Vec::new();
    config
}

pub const REFRESH: u64 = 600;
pub const FALLBACK: u64 = 3600;

pub fn make_collector(config: &Config) -> Collector {
    std::fs::create_dir_all(&config.cache_dir).expect("cache dir");
    let mut c = Collector::new(config).expect("collector").expect("rrdp enabled");
    c.ignite().expect("ignite");
    c
}

#[derive(Clone, Copy, Debug, PartialEq, Eq)]
pub enum Outcome { Updated, Current, Stale, Unavailable, RunRetry, RunFatal }

impl Outcome {
    pub fn as_str(self) -> &'static str {
        match self {
            Outcome::Updated => "updated", Outcome::Current => "current",
            Outcome::Stale => "stale", Outcome::Unavailable => "unavailable",
            Outcome::RunRetry => "run-retry", Outcome::RunFatal => "run-fatal",
        }
    }
}

/// Runs one update with a fresh `Run`; returns the outcome and, for an
/// updated repository, the objects as seen through the returned handle.
pub fn run_update(collector: &Collector, notify_uri: &str) -> (Outcome, Option<BTreeMap<u64, Option<Vec<u8>>>>) {
    let uri = rpki::uri::Https::from_string(notify_uri.to_string()).expect("notify uri");
    let run = collector.start();
    match run.load_repository(&uri) {
        Ok(LoadResult::Updated(repo)) => {
            // What a validation run would see through the handle.
            let mut seen = BTreeMap::new();
            for u in 0..UNIVERSE {
                let ru = rpki::uri::Rsync::from_string(object_uri(u)).expect("rsync uri");
                match repo.load_object(&ru) {
                    Ok(Some(data)) => { seen.insert(u, Some(data.to_vec())); }
                    Ok(None) => { }
                    Err(_) => { seen.insert(u, None); }
                }
            }
            (Outcome::Updated, Some(seen))
        }
        Ok(LoadResult::Current) => (Outcome::Current, None),
        Ok(LoadResult::Stale) => (Outcome::Stale, None),
        Ok(LoadResult::Unavailable) => (Outcome::Unavailable, None),
        Err(err) => (if err.is_fatal() { Outcome::RunFatal } else { Outcome::RunRetry }, None),
    }
}

pub const UNIVERSE: u64 = 4;

/// The archive file of the single repository in the cache, if any.
pub fn archive_path(config: &Config) -> Option<PathBuf> {
    let base = config.cache_dir.join("rrdp");
    for dir in std::fs::read_dir(&base).ok()? {
        let dir = dir.ok()?;
        if dir.file_name() == "tmp" || !dir.path().is_dir() { continue }
        for f in std::fs::read_dir(dir.path()).ok()? {
            let f = f.ok()?;
            if f.path().extension().map(|e| e == "bin").unwrap_or(false) {
                return Some(f.path())
            }
        }
    }
    None
}

/// Leftover files in the tmp directory.
pub fn tmp_files(config: &Config) -> usize {
    std::fs::read_dir(config.cache_dir.join("rrdp").join("tmp"))
        .map(|d| d.count()).unwrap_or(0)
}

/// The local copy as observed in the archive file.
#[derive(Clone, Debug, PartialEq)]
pub struct LocalObs {
    /// uri → content bytes; unknown names are kept under their raw name.
    pub objs: BTreeMap<String, Vec<u8>>,
    pub session: Option<u64>,
    pub serial: u64,
    pub etag: Option<Vec<u8>>,
    pub lm: Option<i64>,
    pub updated: i64,
    pub best_before: i64,
    pub delta_state: BTreeMap<u64, [u8; 32]>,
}

/// Reads the archive without disturbing it (works on a copy so that a
/// corrupt file is not deleted by the opener).
pub fn observe(config: &Config) -> Result<Option<LocalObs>, String> {
    let path = match archive_path(config) {
        Some(path) => path,
        None => return Ok(None),
    };
    let copy = config.cache_dir.join("observe-copy.bin");
    std::fs::copy(&path, &copy).map_err(|e| format!("copy: {e}"))?;
    let res = (|| {
        let archive = RrdpArchive::open(Arc::new(copy.clone())).map_err(|_| "open failed".to_string())?;
        let state = archive.load_state().map_err(|_| "state failed".to_string())?;
        let mut objs = BTreeMap::new();
        for item in archive.objects().map_err(|_| "objects failed".to_string())? {
            let (uri, data) = item.map_err(|_| "object item failed".to_string())?;
            objs.insert(uri.to_string(), data.to_vec());
        }
        let mut delta_state = BTreeMap::new();
        for (k, v) in state.delta_state.iter() {
            let mut h = [0u8; 32];
            h.copy_from_slice(v.as_slice());
            delta_state.insert(*k, h);
        }
        Ok(Some(LocalObs {
            objs,
            session: uuid_session(state.session),
            serial: state.serial,
            etag: state.etag.as_ref().map(|b| b.to_vec()),
            lm: state.last_modified_ts,
            updated: state.updated_ts,
            best_before: state.best_before_ts,
            delta_state,
        }))
    })();
    let _ = std::fs::remove_file(&copy);
    res
}

/// State and all objects in one read; the set names the objects whose
/// stored hash differs from the hash of their content or whose content is
/// not one of the universe's.
pub fn observe_full(config: &Config) -> Result<Option<(LocalObs, std::collections::BTreeSet<String>)>, String> {
    let path = match archive_path(config) {
        Some(path) => path,
        None => return Ok(None),
    };
    let copy = config.cache_dir.join("observe-full-copy.bin");
    std::fs::copy(&path, &copy).map_err(|e| format!("copy: {e}"))?;
    let res = (|| {
        let archive = RrdpArchive::open(Arc::new(copy.clone())).map_err(|_| "open failed".to_string())?;
        let state = archive.load_state().map_err(|_| "state failed".to_string())?;
        let mut objs = BTreeMap::new();
        let mut torn = std::collections::BTreeSet::new();
        for (name, hash, data) in archive.verif_objects_with_hash().map_err(|e| format!("objects: {e}"))? {
            if name == b"state" { continue }
            let name = String::from_utf8_lossy(&name).into_owned();
            if sha256(&data) != hash || bytes_content(&data).is_none() {
                torn.insert(name.clone());
            }
            objs.insert(name, data);
        }
        let mut delta_state = BTreeMap::new();
        for (k, v) in state.delta_state.iter() {
            let mut h = [0u8; 32];
            h.copy_from_slice(v.as_slice());
            delta_state.insert(*k, h);
        }
        Ok(Some((LocalObs {
            objs,
            session: uuid_session(state.session),
            serial: state.serial,
            etag: state.etag.as_ref().map(|b| b.to_vec()),
            lm: state.last_modified_ts,
            updated: state.updated_ts,
            best_before: state.best_before_ts,
            delta_state,
        }, torn)))
    })();
    let _ = std::fs::remove_file(&copy);
    res
}

/// Interning of hashes into small numbers for the model's line protocol.
#[derive(Default)]
pub struct HashIds {
    map: HashMap<[u8; 32], usize>,
}

impl HashIds {
    pub fn id(&mut self, h: &[u8; 32]) -> usize {
        let n = self.map.len() + 1;
        *self.map.entry(*h).or_insert(n)
    }
}
