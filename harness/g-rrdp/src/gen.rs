//! Scenario generation: genuine server views and the fault catalogue.

use std::collections::BTreeMap;
use rvcore::Rng;
use crate::world::*;

pub const T0: i64 = 1_700_000_000;

/// The delta elements turning `prev` into `cur`.
pub fn diff(prev: &BTreeMap<u64, u64>, cur: &BTreeMap<u64, u64>) -> Vec<Elem> {
    let mut res = Vec::new();
    for u in 0..UNIVERSE {
        match (prev.get(&u), cur.get(&u)) {
            (None, Some(c)) => res.push(Elem::Publish { uri: u, hash: None, content: *c }),
            (Some(p), Some(c)) if p != c => res.push(Elem::Publish { uri: u, hash: Some(*p), content: *c }),
            (Some(p), None) => res.push(Elem::Withdraw { uri: u, hash: *p }),
            _ => { }
        }
    }
    res
}

/// Generates a genuine history: within a session serials increase by one.
pub fn gen_history(rng: &mut Rng, len: usize) -> Vec<Version> {
    let mut res: Vec<Version> = Vec::new();
    let mut next_content = 10u64;
    let mut session = 0u64;
    let mut serial = rng.range(1, 5);
    let mut objs = BTreeMap::new();
    for u in 0..UNIVERSE {
        if rng.chance(2, 3) { objs.insert(u, next_content); next_content += 1; }
    }
    res.push(Version { session, serial, objs: objs.clone() });
    while res.len() < len {
        if rng.chance(1, 9) {
            session += 1;
            serial = rng.range(1, 9);
            if rng.chance(1, 2) {
                objs = BTreeMap::new();
                for u in 0..UNIVERSE {
                    if rng.chance(1, 2) { objs.insert(u, next_content); next_content += 1; }
                }
            }
        } else {
            serial += 1;
            let changes = [0, 1, 1, 1, 2, 2, 3][rng.below(7) as usize];
            for _ in 0..changes {
                let u = rng.below(UNIVERSE);
                match objs.get(&u).copied() {
                    None => { objs.insert(u, next_content); next_content += 1; }
                    Some(_) => {
                        if rng.chance(1, 2) { objs.remove(&u); }
                        else if rng.chance(1, 6) {
                            // Re-publish an earlier content of the universe.
                            objs.insert(u, rng.range(10, next_content.max(11) - 1));
                        }
                        else { objs.insert(u, next_content); next_content += 1; }
                    }
                }
            }
        }
        res.push(Version { session, serial, objs: objs.clone() });
    }
    res
}

/// The genuine view of the server at version `idx`: notification, snapshot
/// file (index 0) and the delta files of up to `list` predecessors.
pub fn genuine_step(history: &[Version], idx: usize, list: usize, adv: i64) -> Step {
    let cur = &history[idx];
    let mut files = vec![FileSpec {
        kind: FileKind::Snapshot, status: 200, session: cur.session, serial: cur.serial,
        elems: cur.objs.iter().map(|(u, c)| Elem::Publish { uri: *u, hash: None, content: *c }).collect(),
        end: FileEnd::Ok, framing: 0,
    }];
    let mut deltas = Vec::new();
    let mut j = idx;
    while j > 0 && deltas.len() < list
        && history[j - 1].session == history[j].session
        && history[j - 1].serial + 1 == history[j].serial
    {
        files.push(FileSpec {
            kind: FileKind::Delta, status: 200, session: history[j].session,
            serial: history[j].serial, elems: diff(&history[j - 1].objs, &history[j].objs),
            end: FileEnd::Ok, framing: 0,
        });
        deltas.push(Entry {
            serial: history[j].serial, file: files.len() - 1,
            hash: (files.len() - 1) as i64, foreign: false,
        });
        j -= 1;
    }
    Step {
        adv,
        notify: NotifySpec {
            kind: NotifyKind::Ok, etag: Some(idx as u64), lm: Some(T0 - 1000 + 10 * idx as i64),
            conditional: true, session: cur.session, serial: cur.serial,
            snapshot: Entry { serial: cur.serial, file: 0, hash: 0, foreign: false },
            deltas,
        },
        files,
        faults: Vec::new(),
    }
}


//------------ Faults --------------------------------------------------------

#[derive(Clone, Debug, PartialEq)]
pub enum Fault {
    NotifyStatus(u16), NotifyBadXml, NotifyCut, Force304, StaleEtag,
    NoValidators, Unconditional,
    NewSession, SerialUp(u64), SerialDown, SerialDownBy(u64),
    ForeignSnapshot, ForeignDelta(usize),
    DropOldest, DropNewest, DropMiddle(usize), Duplicate(usize), Shuffle,
    BogusDeltaHash(usize), SwapFiles(usize), Oversize, EmptyList, BumpEntrySerial(usize),
    BogusSnapshotHash,
    /// File faults: target 0 = snapshot, i > 0 = the i-th delta entry.
    FileStatus(usize, u16), FileEndBad(usize, u8), FileDropElem(usize, usize),
    FileExtraElem(usize, u8, bool), FileChangeContent(usize, usize),
    FileWrongPre(usize, usize), FileSession(usize), FileSerial(usize),
    FileGarbage(usize), FileRepeatElem(usize), FilePrefix(usize, usize),
    FileFraming(usize, u8),
    /// Replace the elements by one applicable element on an object no listed delta touches.
    FileBogusOnly(usize, u8),
}

impl Fault {
    pub fn label(&self) -> String {
        let s = format!("{self:?}");
        s.split('(').next().unwrap_or("").to_string()
    }
}

/// The complete single-fault catalogue for a genuine step.
pub fn catalogue(step: &Step) -> Vec<Fault> {
    use Fault::*;
    let n = step.notify.deltas.len();
    let mut res = vec![
        NotifyStatus(404), NotifyStatus(500), NotifyBadXml, NotifyCut, Force304,
        StaleEtag, NoValidators, Unconditional,
        NewSession, SerialUp(1), SerialUp(3), SerialDown, SerialDownBy(2), SerialDownBy(3),
        SerialDownBy(4), ForeignSnapshot,
        DropOldest, DropNewest, Shuffle, Oversize, EmptyList, BogusSnapshotHash,
    ];
    for i in 0..n {
        res.push(ForeignDelta(i));
        res.push(Duplicate(i));
        res.push(BogusDeltaHash(i));
        res.push(BumpEntrySerial(i));
        if i + 1 < n { res.push(SwapFiles(i)); }
        if i > 0 && i + 1 < n { res.push(DropMiddle(i)); }
    }
    for t in 0..=n {
        let elems = file_of(step, t).map(|f| f.elems.len()).unwrap_or(0);
        res.push(FileStatus(t, 404));
        res.push(FileStatus(t, 500));
        for e in 0..3 { res.push(FileEndBad(t, e)); }
        res.push(FileSession(t));
        res.push(FileSerial(t));
        res.push(FileGarbage(t));
        res.push(FileRepeatElem(t));
        res.push(FileFraming(t, 1));
        res.push(FileFraming(t, 2));
        if t > 0 { res.push(FileBogusOnly(t, 0)); res.push(FileBogusOnly(t, 1)); }
        for k in 0..3 { res.push(FileExtraElem(t, k, false)); res.push(FileExtraElem(t, k, true)); }
        for j in 0..elems {
            res.push(FileDropElem(t, j));
            res.push(FileChangeContent(t, j));
            res.push(FileWrongPre(t, j));
            res.push(FilePrefix(t, j));
        }
    }
    res
}

fn entry_mut(step: &mut Step, target: usize) -> Option<&mut Entry> {
    if target == 0 { Some(&mut step.notify.snapshot) }
    else { step.notify.deltas.get_mut(target - 1) }
}

fn file_of(step: &Step, target: usize) -> Option<&FileSpec> {
    let e = if target == 0 { &step.notify.snapshot } else { step.notify.deltas.get(target - 1)? };
    step.files.get(e.file)
}

/// Points the target entry at a mutated copy of its file; the hash keeps
/// referring to the genuine file.
fn mutate_file(step: &mut Step, target: usize, f: impl FnOnce(&mut FileSpec, &Step)) -> bool {
    let Some(orig) = file_of(step, target).cloned() else { return false };
    let mut copy = orig.clone();
    let snapshot_of_step = step.clone();
    f(&mut copy, &snapshot_of_step);
    if copy == orig { return false }
    step.files.push(copy);
    let idx = step.files.len() - 1;
    match entry_mut(step, target) {
        Some(e) => { e.file = idx; true }
        None => false
    }
}

/// The objects present before/after the file's elements, as far as the
/// genuine view tells (used to pick applicable extra elements).
fn present_after(file: &FileSpec, history: &[Version]) -> BTreeMap<u64, u64> {
    history.iter().find(|v| v.session == file.session && v.serial == file.serial)
        .map(|v| v.objs.clone()).unwrap_or_default()
}

/// Applies a fault; returns false if it does not apply to this step.
pub fn apply_fault(
    step: &mut Step, fault: &Fault, history: &[Version],
    prev: Option<&Step>, rng: &mut Rng,
) -> bool {
    use Fault::*;
    let n = step.notify.deltas.len();
    let ok = match fault.clone() {
        NotifyStatus(s) => { step.notify.kind = NotifyKind::Status(s); true }
        NotifyBadXml => { step.notify.kind = NotifyKind::BadXml; true }
        NotifyCut => { step.notify.kind = NotifyKind::Cut; true }
        Force304 => { step.notify.kind = NotifyKind::Force304; true }
        StaleEtag => match prev {
            Some(p) if p.notify.etag.is_some() || p.notify.lm.is_some() => {
                step.notify.etag = p.notify.etag;
                step.notify.lm = p.notify.lm;
                step.notify.conditional = true;
                true
            }
            _ => false
        },
        NoValidators => { step.notify.etag = None; step.notify.lm = None; true }
        Unconditional => {
            match rng.below(3) {
                0 => { step.notify.conditional = false; }
                1 => { step.notify.etag = None; }
                _ => { step.notify.lm = None; }
            }
            true
        }
        NewSession => { step.notify.session += 100; true }
        SerialUp(k) => { step.notify.serial += k; true }
        SerialDown => {
            if step.notify.serial == 0 { false } else { step.notify.serial -= 1; true }
        }
        SerialDownBy(k) => {
            if step.notify.serial < k { false } else { step.notify.serial -= k; true }
        }
        ForeignSnapshot => { step.notify.snapshot.foreign = true; true }
        ForeignDelta(i) => match step.notify.deltas.get_mut(i) {
            Some(e) => { e.foreign = true; true } None => false
        },
        DropOldest => {
            if n == 0 { false } else {
                let min = step.notify.deltas.iter().map(|e| e.serial).min().unwrap();
                step.notify.deltas.retain(|e| e.serial != min); true
            }
        }
        DropNewest => {
            if n == 0 { false } else {
                let max = step.notify.deltas.iter().map(|e| e.serial).max().unwrap();
                step.notify.deltas.retain(|e| e.serial != max); true
            }
        }
        DropMiddle(i) => {
            if n < 3 || i == 0 || i + 1 >= n { false } else {
                let mut serials: Vec<u64> = step.notify.deltas.iter().map(|e| e.serial).collect();
                serials.sort();
                let victim = serials[i];
                step.notify.deltas.retain(|e| e.serial != victim); true
            }
        }
        Duplicate(i) => match step.notify.deltas.get(i).cloned() {
            Some(e) => {
                let at = rng.below(n as u64 + 1) as usize;
                step.notify.deltas.insert(at, e); true
            }
            None => false
        },
        Shuffle => { if n < 2 { false } else { rng.shuffle(&mut step.notify.deltas); true } }
        BogusDeltaHash(i) => match step.notify.deltas.get_mut(i) {
            Some(e) => { e.hash = -1; true } None => false
        },
        SwapFiles(i) => {
            if i + 1 >= n { false } else {
                let a = step.notify.deltas[i].file;
                let b = step.notify.deltas[i + 1].file;
                step.notify.deltas[i].file = b;
                step.notify.deltas[i + 1].file = a;
                true
            }
        }
        Oversize => {
            // Pad with ancient entries that point nowhere.
            let min = step.notify.deltas.iter().map(|e| e.serial).min()
                .unwrap_or(step.notify.serial);
            let mut k = 1;
            while step.notify.deltas.len() <= OVERSIZE_TARGET {
                if min < k { break }
                step.notify.deltas.push(Entry { serial: min - k, file: 900 + k as usize, hash: -1, foreign: false });
                k += 1;
            }
            step.notify.deltas.len() > n
        }
        EmptyList => { if n == 0 { false } else { step.notify.deltas.clear(); true } }
        BumpEntrySerial(i) => match step.notify.deltas.get_mut(i) {
            Some(e) => { e.serial += 1; true } None => false
        },
        BogusSnapshotHash => { step.notify.snapshot.hash = -1; true }
        FileStatus(t, s) => mutate_file(step, t, |f, _| f.status = s),
        FileEndBad(t, e) => mutate_file(step, t, |f, _| {
            f.end = [FileEnd::Malformed, FileEnd::Cut, FileEnd::Torn][e as usize % 3]
        }),
        FileDropElem(t, j) => mutate_file(step, t, |f, _| {
            if j < f.elems.len() { f.elems.remove(j); }
        }),
        FileExtraElem(t, k, front) => {
            let pick = rng.next();
            mutate_file(step, t, |f, _| {
                let after = present_after(f, history);
                let touched: Vec<u64> = f.elems.iter().map(|e| e.uri()).collect();
                let free: Vec<u64> = (0..UNIVERSE).filter(|u| !touched.contains(u)).collect();
                if free.is_empty() { return }
                let u = free[(pick % free.len() as u64) as usize];
                let elem = match (k % 3, after.get(&u)) {
                    // An untouched object has the same value before and after.
                    (0, None) => Elem::Publish { uri: u, hash: None, content: 7000 + u },
                    (0, Some(c)) => Elem::Publish { uri: u, hash: Some(*c), content: 7100 + u },
                    (1, Some(c)) => Elem::Withdraw { uri: u, hash: *c },
                    (1, None) => Elem::Withdraw { uri: u, hash: 7200 + u },
                    (_, Some(c)) => Elem::Publish { uri: u, hash: None, content: *c },
                    (_, None) => Elem::Publish { uri: u, hash: Some(7300 + u), content: 7400 + u },
                };
                let elem = if f.kind == FileKind::Snapshot {
                    Elem::Publish { uri: u, hash: None, content: 7500 + u }
                } else { elem };
                if front { f.elems.insert(0, elem) } else { f.elems.push(elem) }
            })
        }
        FileChangeContent(t, j) => mutate_file(step, t, |f, _| {
            if let Some(Elem::Publish { content, .. }) = f.elems.get_mut(j) { *content += 5000; }
            else if let Some(Elem::Withdraw { uri, hash }) = f.elems.get(j).cloned() {
                f.elems[j] = Elem::Publish { uri, hash: Some(hash), content: 5500 + uri };
            }
        }),
        FileWrongPre(t, j) => mutate_file(step, t, |f, _| {
            match f.elems.get_mut(j) {
                Some(Elem::Publish { hash: Some(h), .. }) => *h += 6000,
                Some(Elem::Publish { hash, content, .. }) => {
                    if f.kind == FileKind::Delta { *hash = Some(*content + 6000) }
                }
                Some(Elem::Withdraw { hash, .. }) => *hash += 6000,
                None => { }
            }
        }),
        FileSession(t) => mutate_file(step, t, |f, _| f.session += 50),
        FileSerial(t) => mutate_file(step, t, |f, _| f.serial += 1),
        FileGarbage(t) => mutate_file(step, t, |f, _| f.kind = FileKind::Garbage),
        FileRepeatElem(t) => mutate_file(step, t, |f, _| {
            if let Some(e) = f.elems.first().cloned() { f.elems.push(e) }
        }),
        FilePrefix(t, j) => mutate_file(step, t, |f, _| {
            f.elems.truncate(j + 1);
            f.end = FileEnd::Cut;
        }),
        FileBogusOnly(t, k) => {
            let pick = rng.next();
            mutate_file(step, t, |f, whole| {
                let mut touched: Vec<u64> = Vec::new();
                for e in &whole.notify.deltas {
                    if let Some(file) = whole.files.get(e.file) {
                        touched.extend(file.elems.iter().map(|e| e.uri()));
                    }
                }
                let free: Vec<u64> = (0..UNIVERSE).filter(|u| !touched.contains(u)).collect();
                if free.is_empty() || f.kind != FileKind::Delta { return }
                let u = free[(pick % free.len() as u64) as usize];
                let after = present_after(f, history);
                f.elems = vec![match (k % 2, after.get(&u)) {
                    (0, Some(c)) => Elem::Publish { uri: u, hash: Some(*c), content: 7600 + u },
                    (_, Some(c)) => Elem::Withdraw { uri: u, hash: *c },
                    (_, None) => Elem::Publish { uri: u, hash: None, content: 7700 + u },
                }];
            })
        }
        FileFraming(t, fr) => {
            // Not a fault: the genuine file under another framing.
            let e = if t == 0 { Some(step.notify.snapshot.clone()) } else { step.notify.deltas.get(t - 1).cloned() };
            match e.and_then(|e| step.files.get_mut(e.file)) {
                Some(f) => { f.framing = fr; true }
                None => false
            }
        }
    };
    if ok { step.faults.push(fault.label()); }
    ok
}

pub const OVERSIZE_TARGET: usize = 6;

/// Picks a random fault from the catalogue of the step.
pub fn random_fault(step: &Step, rng: &mut Rng) -> Fault {
    let cat = catalogue(step);
    // File faults dominate the catalogue by count; rebalance a little.
    if rng.chance(1, 3) {
        let light: Vec<&Fault> = cat.iter().filter(|f| {
            !matches!(f, Fault::FileStatus(..) | Fault::FileEndBad(..) | Fault::FileDropElem(..)
                | Fault::FileExtraElem(..) | Fault::FileChangeContent(..) | Fault::FileWrongPre(..)
                | Fault::FileSession(..) | Fault::FileSerial(..) | Fault::FileGarbage(..)
                | Fault::FileRepeatElem(..) | Fault::FilePrefix(..) | Fault::FileFraming(..)
                | Fault::FileBogusOnly(..))
        }).collect();
        return (*rng.pick(&light)).clone()
    }
    rng.pick(&cat).clone()
}

/// A random scenario.
pub fn gen_scenario(rng: &mut Rng, thorough: bool) -> Scenario {
    let hist_len = rng.range(1, 6) as usize;
    let history = gen_history(rng, hist_len);
    let max_delta_count = *rng.pick(&[1usize, 2, 3, 3, 5]);
    let max_delta_list_len = *rng.pick(&[3usize, 5, 5, 6]);
    let nsteps = rng.range(2, 6) as usize;
    let mut steps: Vec<Step> = Vec::new();
    let mut pointer = 0usize;
    // Sometimes the server is restored from a backup in mid-scenario: same
    // sessions and serials, other content from some version on.
    let (history2, fork_at) = if history.len() >= 2 && nsteps >= 3 && rng.chance(1, 5) {
        let from = rng.range(1, history.len() as u64 - 1) as usize;
        (Some(fork_history(rng, &history, from)), rng.range(1, nsteps as u64 - 1) as usize)
    } else { (None, 0) };
    let original = history.clone();
    for s in 0..nsteps {
        let history: &Vec<Version> = match &history2 {
            Some(h2) if s >= fork_at => h2,
            _ => &original,
        };
        if s > 0 && pointer > 0 && rng.chance(1, 6) {
            // The server (or a lagging cache node) goes backwards.
            pointer -= rng.range(1, pointer.min(3) as u64) as usize;
        } else if s > 0 {
            pointer = (pointer + [0, 1, 1, 1, 2, 3][rng.below(6) as usize]).min(history.len() - 1);
        } else if rng.chance(1, 4) {
            pointer = rng.below(history.len() as u64) as usize;
        }
        let adv = *rng.pick(&[1i64, 5, 60, 599, 600, 601, 1199, 1200, 1201, 3599, 3600, 3601, 10_000]);
        let list = rng.range(0, max_delta_list_len as u64) as usize;
        let mut step = genuine_step(history, pointer, list, adv);
        if history2.is_some() && s >= fork_at { step.notify.etag = step.notify.etag.map(|e| e + 500); step.faults.push("Restored".into()); }
        let nfaults = match rng.below(20) {
            0..=6 => 0, 7..=15 => 1, 16..=18 => 2, _ => if thorough { 3 } else { 2 },
        };
        for _ in 0..nfaults {
            let fault = random_fault(&step, rng);
            let prev = steps.last().cloned();
            apply_fault(&mut step, &fault, history, prev.as_ref(), rng);
        }
        steps.push(step);
    }
    let history = original;
    Scenario { max_delta_count, max_delta_list_len, history, steps, history2, fork_at }
}

/// A restored copy of a history: versions from index `from` on keep their
/// session and serial but get other content (and so other delta files).
pub fn fork_history(rng: &mut Rng, history: &[Version], from: usize) -> Vec<Version> {
    let mut res: Vec<Version> = history[..from].to_vec();
    let mut next_content = 200u64;
    for v in &history[from..] {
        let mut objs = res.last().filter(|p| p.session == v.session)
            .map(|p| p.objs.clone()).unwrap_or_else(|| v.objs.clone());
        let changes = rng.range(1, 2);
        for _ in 0..changes {
            let u = rng.below(UNIVERSE);
            if objs.contains_key(&u) && rng.chance(1, 3) { objs.remove(&u); }
            else { objs.insert(u, next_content); next_content += 1; }
        }
        res.push(Version { session: v.session, serial: v.serial, objs });
    }
    res
}

/// The base history after a restore: serials 3 and 4 as before, 5 to 7 with
/// other content; delta 6' and 7' apply cleanly to the original serial 5.
pub fn restored_base_history() -> Vec<Version> {
    let v = |session, serial, objs: &[(u64, u64)]| Version {
        session, serial, objs: objs.iter().cloned().collect()
    };
    vec![
        v(0, 3, &[(0, 10), (1, 11), (2, 12)]),
        v(0, 4, &[(0, 10), (1, 11), (2, 13), (3, 14)]),
        v(0, 5, &[(0, 10), (1, 11), (2, 31), (3, 14)]),
        v(0, 6, &[(0, 10), (1, 11), (2, 31)]),
        v(0, 7, &[(0, 10), (1, 11), (2, 31), (3, 32)]),
    ]
}

/// The restored server: the client is at serial 5 remembering the hashes of
/// the last 1 or 2 deltas; the restored server re-issues delta 5 with another
/// hash and lists 2 to 5 deltas (so the list may begin below every serial
/// the client remembers), at serial 5 (unchanged), 6 or 7.
pub fn enumerate_restore() -> Vec<Scenario> {
    // Two earlier versions in front so that the lists can reach far down.
    let v = |serial, objs: &[(u64, u64)]| Version {
        session: 0, serial, objs: objs.iter().cloned().collect()
    };
    let early = vec![v(1, &[(0, 10)]), v(2, &[(0, 10), (1, 11)])];
    let history: Vec<Version> = early.iter().cloned().chain(base_history()).collect();
    let restored: Vec<Version> = early.iter().cloned().chain(restored_base_history()).collect();
    let mut res = Vec::new();
    for first_list in [1usize, 2] {
        for target in [4usize, 5, 6] {
            for list in [1usize, 2, 3, 4, 6] {
                for validators in [true, false] {
                    if !validators && list % 2 == 0 { continue }
                    let s1 = genuine_step(&history, 2, 5, 1);
                    let s2 = genuine_step(&history, 4, first_list, 60);
                    let mut s3 = genuine_step(&restored, target, list, 60);
                    s3.notify.etag = Some(600 + target as u64);
                    s3.notify.lm = s3.notify.lm.map(|t| t + 7);
                    if !validators { s3.notify.etag = None; s3.notify.lm = None; }
                    s3.faults.push(format!("Restored+{}", list as i64 - first_list as i64));
                    let s4 = genuine_step(&restored, 6, 5, 60);
                    res.push(Scenario {
                        max_delta_count: 3, max_delta_list_len: 6,
                        history: history.clone(), steps: vec![s1, s2, s3, s4],
                        history2: Some(restored.clone()), fork_at: 2,
                    });
                }
            }
        }
    }
    res
}

/// The fixed history used for the exhaustive (step, fault) enumeration:
/// five versions in one session using all element kinds; object 1 is never touched
/// and delta 5 touches only object 2 (so that bogus or skipped changes can go unnoticed).
pub fn base_history() -> Vec<Version> {
    let v = |session, serial, objs: &[(u64, u64)]| Version {
        session, serial, objs: objs.iter().cloned().collect()
    };
    vec![
        v(0, 3, &[(0, 10), (1, 11), (2, 12)]),
        v(0, 4, &[(0, 10), (1, 11), (2, 13), (3, 14)]),
        v(0, 5, &[(0, 10), (1, 11), (2, 15), (3, 14)]),
        v(0, 6, &[(1, 11), (2, 15)]),
        v(0, 7, &[(0, 16), (1, 11), (2, 15), (3, 17)]),
    ]
}

/// All scenarios "genuine sync at v0, then version `at` with one fault (or
/// a pair), then genuine follow-ups".
pub fn enumerate_single(rng: &mut Rng) -> Vec<Scenario> {
    let history = base_history();
    let mut res = Vec::new();
    // Fault at the second step (local copy at v0, server at v2 or v3).
    for at in [2usize, 3] {
        let clean = genuine_step(&history, at, 5, 60);
        for fault in catalogue(&clean) {
            let s1 = genuine_step(&history, 0, 5, 1);
            let mut s2 = clean.clone();
            if !apply_fault(&mut s2, &fault, &history, Some(&s1), rng) { continue }
            let s3 = genuine_step(&history, at, 5, 60);
            let s4 = genuine_step(&history, 4, 5, 60);
            res.push(Scenario {
                max_delta_count: 3, max_delta_list_len: 6,
                history: history.clone(), steps: vec![s1, s2, s3, s4],
                history2: None, fork_at: 0,
            });
        }
    }
    // Fault at the first step (no local copy).
    let clean = genuine_step(&history, 1, 5, 1);
    for fault in catalogue(&clean) {
        let mut s1 = clean.clone();
        if !apply_fault(&mut s1, &fault, &history, None, rng) { continue }
        let s2 = genuine_step(&history, 2, 5, 60);
        res.push(Scenario {
            max_delta_count: 3, max_delta_list_len: 6,
            history: history.clone(), steps: vec![s1, s2],
            history2: None, fork_at: 0,
        });
    }
    res
}

/// Two sessions; the second one's serials are below the first one's.
pub fn session_history() -> Vec<Version> {
    let v = |session, serial, objs: &[(u64, u64)]| Version {
        session, serial, objs: objs.iter().cloned().collect()
    };
    vec![
        v(0, 8, &[(0, 20), (1, 21), (2, 22)]),
        v(0, 9, &[(0, 20), (1, 23), (3, 24)]),
        v(1, 2, &[(0, 20), (2, 25)]),
        v(1, 3, &[(0, 26), (2, 25), (3, 27)]),
    ]
}

/// The server goes backwards within the session: after synchronising to
/// version 3 (serial 6) the genuine view of an older version is presented
/// (one back, several back, below the oldest delta the client knows, the
/// serial the client started from), with long, short and empty delta lists,
/// with matching and with changed hashes for the serials the client
/// remembers; also notifications that only lower the serial.
pub fn enumerate_rollback(rng: &mut Rng) -> Vec<Scenario> {
    let history = base_history();
    let mut res = Vec::new();
    for first_list in [5usize, 1] {
        for back_to in [2usize, 1, 0] {
            for list in [5usize, 2, 1, 0] {
                for variant in 0..4 {
                    let s1 = genuine_step(&history, 0, 5, 1);
                    let s2 = genuine_step(&history, 3, first_list, 60);
                    let mut s3 = genuine_step(&history, back_to, list, 60);
                    let ok = match variant {
                        0 => true,
                        1 => apply_fault(&mut s3, &Fault::BogusDeltaHash(0), &history, Some(&s2), rng),
                        2 => apply_fault(&mut s3, &Fault::FileStatus(0, 404), &history, Some(&s2), rng),
                        _ => apply_fault(&mut s3, &Fault::StaleEtag, &history, Some(&s2), rng),
                    };
                    if !ok { continue }
                    s3.faults.push(format!("Rollback{}", 3 - back_to));
                    let s4 = genuine_step(&history, 4, 5, 60);
                    res.push(Scenario {
                        max_delta_count: 3, max_delta_list_len: 6,
                        history: history.clone(), steps: vec![s1, s2, s3, s4],
                        history2: None, fork_at: 0,
                    });
                }
            }
        }
    }
    // Sessions flip: session 0 -> session 1 -> the old session 0 again -> session 1,
    // with the old session's serial above, and the new one's below, the local serial.
    let sess = session_history();
    for (a, b, c2) in [(1usize, 3usize, 1usize), (1, 2, 0), (0, 3, 1), (3, 1, 3)] {
        for list in [5usize, 0] {
            let s1 = genuine_step(&sess, a, 5, 1);
            let s2 = genuine_step(&sess, b, 5, 60);
            let mut s3 = genuine_step(&sess, c2, list, 60);
            s3.faults.push("SessionFlip".into());
            let s4 = genuine_step(&sess, 3, 5, 60);
            res.push(Scenario {
                max_delta_count: 3, max_delta_list_len: 6,
                history: sess.clone(), steps: vec![s1, s2, s3, s4],
                history2: None, fork_at: 0,
            });
        }
    }
    // Only the notification's serial goes down, the files are current.
    for k in [1u64, 2, 3, 5] {
        let s1 = genuine_step(&history, 0, 5, 1);
        let s2 = genuine_step(&history, 3, 5, 60);
        let mut s3 = genuine_step(&history, 3, 5, 60);
        s3.notify.etag = Some(77);
        if !apply_fault(&mut s3, &Fault::SerialDownBy(k), &history, Some(&s2), rng) { continue }
        let s4 = genuine_step(&history, 4, 5, 60);
        res.push(Scenario {
            max_delta_count: 3, max_delta_list_len: 6,
            history: history.clone(), steps: vec![s1, s2, s3, s4],
            history2: None, fork_at: 0,
        });
    }
    res
}

/// The server has not moved since the last update but presents a faulty
/// view of the same version (equal serial with another session, changed
/// snapshot or delta hashes for remembered serials, shortened lists, ...).
pub fn enumerate_unchanged(rng: &mut Rng) -> Vec<Scenario> {
    let history = base_history();
    let mut res = Vec::new();
    let clean = genuine_step(&history, 2, 5, 60);
    for fault in catalogue(&clean) {
        // With an equal serial no file is fetched unless the notification
        // itself forces the snapshot path: file faults add nothing here.
        if fault.label().starts_with("File") { continue }
        for fresh_etag in [true, false] {
            let s1 = genuine_step(&history, 0, 5, 1);
            let s2 = genuine_step(&history, 2, 5, 60);
            let mut s3 = clean.clone();
            if fresh_etag { s3.notify.etag = Some(78); s3.notify.lm = s3.notify.lm.map(|t| t + 5); }
            if !apply_fault(&mut s3, &fault, &history, Some(&s2), rng) { continue }
            // File faults only matter if the file is fetched; keep those
            // that can be reached from an up-to-date copy.
            if !fresh_etag && !matches!(fault, Fault::Unconditional | Fault::NoValidators | Fault::Force304) { continue }
            let s4 = genuine_step(&history, 4, 5, 60);
            res.push(Scenario {
                max_delta_count: 3, max_delta_list_len: 6,
                history: history.clone(), steps: vec![s1, s2, s3, s4],
                history2: None, fork_at: 0,
            });
        }
    }
    res
}

/// Pairs: a delta-file fault combined with a second fault at the same step,
/// followed by genuine steps.
pub fn enumerate_pairs(rng: &mut Rng, all: bool) -> Vec<Scenario> {
    let history = base_history();
    let mut res = Vec::new();
    let clean = genuine_step(&history, 2, 5, 60);
    let cat = catalogue(&clean);
    let is_delta_file_fault = |f: &Fault| match f {
        Fault::FileEndBad(t, _) | Fault::FileDropElem(t, _) | Fault::FileExtraElem(t, _, _)
        | Fault::FileChangeContent(t, _) | Fault::FileWrongPre(t, _)
        | Fault::FileRepeatElem(t) | Fault::FilePrefix(t, _) | Fault::FileBogusOnly(t, _) => *t > 0,
        _ => false
    };
    let is_snapshot_fault = |f: &Fault| match f {
        Fault::BogusSnapshotHash => true,
        Fault::FileStatus(0, _) | Fault::FileEndBad(0, _) | Fault::FileGarbage(0)
        | Fault::FileSerial(0) => true,
        _ => false
    };
    for a in cat.iter().filter(|f| is_delta_file_fault(f)) {
        for b in cat.iter().filter(|f| if all { *f != a } else { is_snapshot_fault(f) }) {
            let s1 = genuine_step(&history, 0, 5, 1);
            let mut s2 = clean.clone();
            if !apply_fault(&mut s2, a, &history, Some(&s1), rng) { continue }
            if !apply_fault(&mut s2, b, &history, Some(&s1), rng) { continue }
            let s3 = genuine_step(&history, 2, 5, 60);
            let s4 = genuine_step(&history, 4, 5, 60);
            res.push(Scenario {
                max_delta_count: 3, max_delta_list_len: 6,
                history: history.clone(), steps: vec![s1, s2, s3, s4],
                history2: None, fork_at: 0,
            });
        }
    }
    res
}
