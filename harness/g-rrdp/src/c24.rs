//! C24: crash safety of RRDP updates.
//!
//! The update under test runs in a child process (this binary in
//! `rrdp-child` mode) that is killed at a numbered point: the n-th hit of a
//! `store.*` hook (`VERIF_KILL_AT`; archive writes through the memory map,
//! truncation, the remove and rename of the snapshot path) or the n-th
//! file-system syscall on the cache directory (`strace -e inject`). Kill
//! points are enumerated from the trace of an unkilled run of the current
//! code. After each kill the archive is read back (crash invariant, checked
//! by the model) and a fresh child process runs further updates against the
//! same and later server versions; the oracle is applied to every update
//! that reports success.

use std::collections::{BTreeMap, BTreeSet};
use std::io::{BufRead, BufReader, Write};
use std::path::{Path, PathBuf};
use std::process::{Command, Stdio};
use serde_json::{json, Value};
use rvcore::Ctx;
use httpsrv::Server;
use crate::c25::{show_local, show_trace, show_view};
use crate::gen::*;
use crate::world::*;

//------------ The child process ---------------------------------------------

fn show_seen(seen: &Option<BTreeMap<u64, Option<Vec<u8>>>>) -> String {
    match seen {
        None => "-".into(),
        Some(map) => {
            if map.is_empty() { return "empty".into() }
            map.iter().map(|(u, d)| match d {
                Some(d) => format!("{u}={}", bytes_content(d).map(|c| c.to_string()).unwrap_or_else(|| "?".into())),
                None => format!("{u}=!"),
            }).collect::<Vec<_>>().join(",")
        }
    }
}

/// `rv-rrdp rrdp-child <cache root> <notify uri> <max delta count> <max list len>`:
/// executes `update <now>` / `sanitize` / `quit` lines from stdin.
pub fn child_main(args: &[String]) -> i32 {
    if args.len() < 4 { return 2 }
    let mc: usize = args[2].parse().unwrap_or(3);
    let ml: usize = args[3].parse().unwrap_or(6);
    let config = make_config(Path::new(&args[0]), mc, ml);
    let collector = make_collector(&config);
    let stdin = std::io::stdin();
    let mut line = String::new();
    loop {
        line.clear();
        match stdin.lock().read_line(&mut line) {
            Ok(0) | Err(_) => return 0,
            Ok(_) => { }
        }
        let mut words = line.split_whitespace();
        match words.next() {
            Some("update") => {
                let now: i64 = words.next().and_then(|w| w.parse().ok()).unwrap_or(T0);
                rvcore::clock::set(now, 0);
                let (outcome, seen) = run_update(&collector, &args[1]);
                println!("result {} {}", outcome.as_str(), show_seen(&seen));
            }
            Some("sanitize") => {
                println!("sanitized {}", if collector.sanitize().is_ok() { "ok" } else { "fatal" });
            }
            Some("quit") | None => return 0,
            Some(_) => println!("bad-request"),
        }
        let _ = std::io::stdout().flush();
    }
}

struct Child {
    proc: std::process::Child,
    stdin: std::process::ChildStdin,
    stdout: BufReader<std::process::ChildStdout>,
}

impl Child {
    fn spawn(
        root: &Path, uri: &str, mc: usize, ml: usize,
        env: &[(&str, String)], strace: Option<Vec<String>>,
    ) -> Child {
        let exe = std::env::current_exe().expect("current exe");
        let mut cmd = match strace {
            Some(args) => {
                let mut cmd = Command::new("strace");
                cmd.args(args).arg("--").arg(&exe);
                cmd
            }
            None => Command::new(&exe),
        };
        cmd.arg("rrdp-child").arg(root).arg(uri).arg(mc.to_string()).arg(ml.to_string());
        for (k, v) in env { cmd.env(k, v); }
        cmd.env("RUST_BACKTRACE", "0");
        cmd.stdin(Stdio::piped()).stdout(Stdio::piped()).stderr(Stdio::null());
        let mut proc = cmd.spawn().expect("spawn child");
        let stdin = proc.stdin.take().expect("child stdin");
        let stdout = BufReader::new(proc.stdout.take().expect("child stdout"));
        Child { proc, stdin, stdout }
    }

    /// Sends a request; `None` if the child died before answering.
    fn request(&mut self, line: &str) -> Option<String> {
        if writeln!(self.stdin, "{line}").is_err() { return None }
        let _ = self.stdin.flush();
        let mut reply = String::new();
        match self.stdout.read_line(&mut reply) {
            Ok(0) | Err(_) => None,
            Ok(_) => Some(reply.trim_end().to_string()),
        }
    }

    fn finish(mut self) {
        let _ = writeln!(self.stdin, "quit");
        drop(self.stdin);
        let _ = self.proc.wait();
    }
}

fn parse_result(reply: &str) -> Option<(Outcome, String)> {
    let mut words = reply.split_whitespace();
    if words.next()? != "result" { return None }
    let outcome = match words.next()? {
        "updated" => Outcome::Updated, "current" => Outcome::Current,
        "stale" => Outcome::Stale, "unavailable" => Outcome::Unavailable,
        "run-retry" => Outcome::RunRetry, "run-fatal" => Outcome::RunFatal,
        _ => return None
    };
    Some((outcome, words.next().unwrap_or("-").to_string()))
}


//------------ Scenarios -----------------------------------------------------

/// A crash scenario: all steps present the genuine view of a version.
#[derive(Clone, Debug)]
pub struct Crash {
    pub mc: usize,
    pub ml: usize,
    pub history: Vec<Version>,
    /// versions synchronised (uninterrupted) before the update under test
    pub setup: Vec<usize>,
    /// the version the interrupted update moves to
    pub target: usize,
    /// versions presented afterwards
    pub follow: Vec<usize>,
    /// number of deltas the notifications list
    pub list: usize,
}

impl Crash {
    fn to_json(&self) -> Value {
        json!({"mc": self.mc, "ml": self.ml,
               "history": self.history.iter().map(Version::to_json).collect::<Vec<_>>(),
               "setup": self.setup, "target": self.target, "follow": self.follow, "list": self.list})
    }
    fn from_json(v: &Value) -> Option<Self> {
        let idxs = |k: &str| -> Option<Vec<usize>> {
            v.get(k)?.as_array()?.iter().map(|x| x.as_u64().map(|x| x as usize)).collect()
        };
        let c = Crash {
            mc: v.get("mc")?.as_u64()? as usize, ml: v.get("ml")?.as_u64()? as usize,
            history: v.get("history")?.as_array()?.iter().map(Version::from_json).collect::<Option<_>>()?,
            setup: idxs("setup")?, target: v.get("target")?.as_u64()? as usize,
            follow: idxs("follow")?, list: v.get("list")?.as_u64()? as usize,
        };
        let n = c.history.len();
        if c.target >= n || c.setup.iter().chain(c.follow.iter()).any(|i| *i >= n) { return None }
        Some(c)
    }
    fn step(&self, idx: usize) -> Step { genuine_step(&self.history, idx, self.list, 60) }
    fn as_scenario(&self) -> Scenario {
        Scenario { max_delta_count: self.mc, max_delta_list_len: self.ml,
                   history: self.history.clone(), steps: Vec::new(), history2: None, fork_at: 0 }
    }
}

#[derive(Clone, Debug, PartialEq)]
pub enum Kill {
    /// n-th hit of a `store.*` hook point
    Hook(usize),
    /// n-th call of the named syscall by the updating thread
    Sys(String, usize),
}

impl Kill {
    fn to_json(&self) -> Value {
        match self {
            Kill::Hook(n) => json!({"kind": "hook", "n": n}),
            Kill::Sys(name, n) => json!({"kind": "sys", "name": name, "n": n}),
        }
    }
    fn from_json(v: &Value) -> Option<Self> {
        match v.get("kind")?.as_str()? {
            "hook" => Some(Kill::Hook(v.get("n")?.as_u64()? as usize)),
            "sys" => Some(Kill::Sys(v.get("name")?.as_str()?.to_string(), v.get("n")?.as_u64()? as usize)),
            _ => None
        }
    }
}

fn history_with_sessions() -> Vec<Version> { session_history() }

fn fixed_crashes() -> Vec<Crash> {
    let b = base_history();
    let s = history_with_sessions();
    let c = |history: &Vec<Version>, setup: &[usize], target, follow: &[usize], list| Crash {
        mc: 3, ml: 6, history: history.clone(), setup: setup.to_vec(), target,
        follow: follow.to_vec(), list,
    };
    vec![
        c(&b, &[], 0, &[0, 2], 5),       // first snapshot
        c(&b, &[0], 1, &[1, 3], 5),      // one delta
        c(&b, &[0], 3, &[3, 4], 5),      // three deltas
        c(&b, &[0], 2, &[4, 3], 5),      // two deltas, then a longer chain (too long: snapshot), then the server goes back
        c(&b, &[1], 2, &[3], 5),         // one delta (update with a changed page count)
        c(&b, &[1], 4, &[4], 2),         // list too short: snapshot over an existing archive
        c(&b, &[2], 2, &[3], 5),         // not modified: only the state is touched
        c(&b, &[0], 1, &[0, 1], 5),      // one delta, then the server presents the old version again
        c(&b, &[0], 3, &[2, 4], 5),      // three deltas, then a version in between
        c(&s, &[0], 1, &[1, 3], 5),      // delta, then a new session
        c(&s, &[1], 2, &[2, 3], 5),      // new session: snapshot over an existing archive
        c(&s, &[2], 3, &[3], 5),         // delta in the new session
    ]
}

fn random_crash(rng: &mut rvcore::Rng) -> Crash {
    let len = rng.range(2, 6) as usize;
    let history = gen_history(rng, len);
    let n = history.len();
    let start = rng.below(n as u64) as usize;
    let target = (start + rng.range(0, 3) as usize).min(n - 1);
    let setup = if rng.chance(1, 5) { vec![] } else { vec![start] };
    let mut follow = vec![target];
    let later = (target + rng.range(0, 2) as usize).min(n - 1);
    if later != target || rng.chance(1, 2) { follow.push(later); }
    Crash {
        mc: *rng.pick(&[2usize, 3, 5]), ml: 6, history, setup, target, follow,
        list: rng.range(1, 5) as usize,
    }
}


//------------ Running -------------------------------------------------------

const FS_SYSCALLS: &str = "write,pwrite64,ftruncate,rename,renameat,renameat2,unlink,unlinkat";

fn copy_dir(from: &Path, to: &Path) {
    std::fs::create_dir_all(to).expect("mkdir");
    for entry in std::fs::read_dir(from).expect("read_dir") {
        let entry = entry.expect("entry");
        let target = to.join(entry.file_name());
        if entry.path().is_dir() { copy_dir(&entry.path(), &target) }
        else { std::fs::copy(entry.path(), &target).expect("copy"); }
    }
}

/// The observed local copy with torn objects (stored hash != hash of the
/// content, or unknown content) mapped to fresh content numbers; the flag
/// tells whether every object is intact. Also returns the copy as it is.
fn observe_torn(config: &routinator::config::Config) -> Result<(Option<LocalObs>, bool, Option<LocalObs>), String> {
    let (obs, torn) = match observe_full(config)? {
        Some(x) => x,
        None => return Ok((None, true, None)),
    };
    let mut mapped = obs.clone();
    for (k, name) in torn.iter().enumerate() {
        mapped.objs.insert(name.clone(), content_bytes(900_001 + k as u64));
    }
    Ok((Some(mapped), torn.is_empty(), Some(obs)))
}

struct World<'a> {
    ctx: &'a mut Ctx,
    srv: &'a Server,
    crash: &'a Crash,
    input: Value,
    uri: String,
    ids: HashIds,
}

/// One update in a child; returns outcome, handle view and request log.
fn child_update(
    child: &mut Child, srv: &Server, idx: usize, step: &Step, now: i64
) -> (Option<(Outcome, String)>, Served, Vec<httpsrv::Request>) {
    let _ = srv.take_log();
    let served = serve_step(srv, idx, step);
    let reply = child.request(&format!("update {now}"));
    let log = srv.take_log();
    (reply.and_then(|r| parse_result(&r)), served, log)
}

/// Brings a fresh cache to the state before the update under test.
fn build_template(w: &mut World, root: &Path) -> Option<i64> {
    let mut now = T0;
    let mut child = Child::spawn(root, &w.uri, w.crash.mc, w.crash.ml, &[], None);
    for (k, idx) in w.crash.setup.iter().enumerate() {
        now += 60;
        let step = w.crash.step(*idx);
        let (res, _, _) = child_update(&mut child, w.srv, k, &step, now);
        match res {
            Some((Outcome::Updated, _)) => { }
            other => {
                w.ctx.count(&format!("setup-failed:{:?}", other.map(|x| x.0)));
                child.finish();
                return None
            }
        }
    }
    child.finish();
    Some(now)
}

/// The oracle for one follow-up update.
#[allow(clippy::too_many_arguments)]
fn check_followup(
    w: &mut World, post: &Result<Option<LocalObs>, String>, what: &str, step: &Step,
    outcome: Outcome, seen: &str, log: &[httpsrv::Request], violated: &mut bool,
    reverted: bool,
) {
    if outcome != Outcome::Updated { return }
    // A follow-up that presents a version older than the one the killed
    // update was moving to is outside the property's quantifier ("further
    // server versions"); its failures are a finding of their own.
    let cls = |base: &str| -> String {
        if reverted { "crash-then-stale-server-view".to_string() } else { base.to_string() }
    };
    let input = w.input.clone();
    let post = match post.clone() {
        Ok(Some(post)) => post,
        Ok(None) => {
            *violated = true;
            w.ctx.oracle_fail(&cls("crash-updated-without-archive"),
                &format!("{what}: reported updated but there is no archive"), &input, json!({}));
            return
        }
        Err(err) => {
            *violated = true;
            w.ctx.oracle_fail(&cls("crash-updated-archive-unreadable"),
                &format!("{what}: reported updated but the archive cannot be read: {err}"), &input, json!({}));
            return
        }
    };
    let not_modified = log.first().map(|r| r.status == 304).unwrap_or(false);
    let (ns, nser) = if not_modified { (post.session, post.serial) }
        else { (Some(step.notify.session), step.notify.serial) };
    let truth = ns.and_then(|s| w.crash.history.iter().find(|v| v.session == s && v.serial == nser));
    let want: Option<BTreeMap<String, Vec<u8>>> = truth.map(|v| {
        v.objs.iter().map(|(u, c)| (object_uri(*u), content_bytes(*c))).collect()
    });
    let want_seen = truth.map(|v| {
        if v.objs.is_empty() { "empty".to_string() } else {
            v.objs.iter().map(|(u, c)| format!("{u}={c}")).collect::<Vec<_>>().join(",")
        }
    });
    if post.session != ns || post.serial != nser || want.as_ref() != Some(&post.objs) {
        *violated = true;
        w.ctx.oracle_fail(&cls("crash-updated-content-differs"),
            &format!("{what}: reported updated to {:?}/{} but archive has state {:?}/{} objects {:?}, server snapshot {:?}",
                ns, nser, post.session, post.serial,
                post.objs.iter().map(|(k, v)| (k.clone(), bytes_content(v))).collect::<Vec<_>>(),
                truth.map(|v| &v.objs)),
            &input, json!({"what": what}));
    }
    else if want_seen.as_deref() != Some(seen) {
        *violated = true;
        w.ctx.oracle_fail(&cls("crash-updated-handle-differs"),
            &format!("{what}: objects read through the repository handle [{seen}] differ from the server snapshot {want_seen:?}"),
            &input, json!({"what": what}));
    }
}

/// Runs one (scenario, kill) case. `template` is the prepared cache.
fn run_kill(w: &mut World, template: &Path, t_now: i64, kill: &Kill, trace: &TraceInfo) {
    let dir = tempfile::tempdir().expect("tempdir");
    let root = dir.path().join("c");
    copy_dir(template, &root);
    let config = make_config(&root, w.crash.mc, w.crash.ml);
    let target_step = w.crash.step(w.crash.target);
    let now = t_now + 60;
    let input = w.input.clone();

    // --- the interrupted update ---
    let (env, strace): (Vec<(&str, String)>, Option<Vec<String>>) = match kill {
        Kill::Hook(n) => (vec![("VERIF_KILL_AT", format!("store.:{n}"))], None),
        Kill::Sys(name, n) => (vec![], Some(vec![
            "-f".into(), "-o".into(), "/dev/null".into(),
            "-e".into(), format!("trace={name}"),
            "-e".into(), format!("inject={name}:signal=KILL:when={n}"),
        ])),
    };
    let mut child = Child::spawn(&root, &w.uri, w.crash.mc, w.crash.ml, &env, strace);
    let (res, _served, _log) = child_update(&mut child, w.srv, 50, &target_step, now);
    let died = res.is_none();
    child.finish();
    if !died {
        w.ctx.count("kill-point-not-reached");
        return
    }
    w.ctx.count(&format!("killed:{}", match kill { Kill::Hook(_) => "hook".to_string(), Kill::Sys(n, _) => format!("sys-{n}") }));

    // --- what the kill left ---
    let mut sig = match kill { Kill::Hook(_) => "hook".to_string(), Kill::Sys(n, _) => n.clone() };
    let left = observe_torn(&config);
    match &left {
        Ok((obs, intact, _)) => {
            if !*intact { w.ctx.count("left:torn-object"); sig.push_str("/torn"); }
            let class = match obs {
                None => "left:no-archive",
                Some(o) if Some((o.session, o.serial)) == trace.pre.as_ref().map(|p| (p.session, p.serial))
                    && trace.pre.as_ref().map(|p| &p.objs) == Some(&o.objs) => "left:old",
                Some(o) if Some((o.session, o.serial)) == trace.done.as_ref().map(|p| (p.session, p.serial)) => "left:new",
                Some(_) => "left:partial",
            };
            w.ctx.count(class);
            sig.push_str(class);
            // The crash invariant, evaluated by the model.
            let touched = trace.touched.iter().map(|u| u.to_string()).collect::<Vec<_>>().join(",");
            let op = format!(
                "c24inv {}|{}|{}|{}|{}",
                if touched.is_empty() { "-".to_string() } else { touched },
                if trace.via_snapshot { 1 } else { 0 },
                show_local(&trace.pre, &mut w.ids), show_local(&trace.done, &mut w.ids),
                show_local(obs, &mut w.ids),
            );
            w.ctx.case(&input, &op, "ok");
        }
        Err(err) => {
            // Unreadable: the next update must notice and start over.
            w.ctx.count("left:unreadable");
            sig.push_str("left:unreadable");
            w.ctx.case_oracle_only(&input, &format!("unreadable after kill: {err}"));
        }
    }

    // --- recovery in a fresh process ---
    let mut violated = false;
    let mut child = Child::spawn(&root, &w.uri, w.crash.mc, w.crash.ml, &[], None);
    let mut now = now;
    let sc = w.crash.as_scenario();
    let mut last = None;
    let mut reverted_seen = false;
    let mut carried: Option<Result<(Option<LocalObs>, bool, Option<LocalObs>), String>> = Some(left);
    for (k, idx) in w.crash.follow.iter().enumerate() {
        now += 60;
        let step = w.crash.step(*idx);
        // Once an older version was presented, later failures follow from it.
        if *idx < w.crash.target { reverted_seen = true; }
        let mut attempts = 0;
        loop {
            attempts += 1;
            let pre = match carried.take() {
                Some(pre) => pre,
                None => observe_torn(&config),
            };
            let (res, served, log) = child_update(&mut child, w.srv, 100 + k, &step, now);
            let Some((outcome, seen)) = res else {
                violated = true;
                w.ctx.oracle_fail("crash-recovery-process-died",
                    &format!("follow-up {k}: the updating process died"), &input, json!({}));
                break
            };
            w.ctx.count(&format!("followup:{}", outcome.as_str()));
            last = Some(outcome);
            let after = observe_torn(&config);
            let post: Result<Option<LocalObs>, String> = match &after {
                Ok((_, _, raw)) => Ok(raw.clone()),
                Err(err) => Err(err.clone()),
            };
            check_followup(w, &post, &format!("follow-up {k} (attempt {attempts})"), &step, outcome, &seen, &log, &mut violated, reverted_seen);
            // Model comparison of this step when the pre-state is expressible.
            if let (Ok((pre, true, _)), Ok(post)) = (&pre, &post) {
                let draw = match post { Some(p) if p.updated == now => p.best_before - now, _ => 0 };
                let (nresp, files) = show_view(&step, &served, &mut w.ids);
                let op = format!("c25 {} {} {} {}|{}|{}|{}", sc.max_delta_count, sc.max_delta_list_len,
                    now, draw, show_local(pre, &mut w.ids), nresp, files);
                let imp = format!("{}|{}|{}", outcome.as_str(), show_local(post, &mut w.ids), show_trace(&log, &served));
                w.ctx.case(&input, &op, &imp);
            }
            carried = Some(after);
            if outcome == Outcome::RunRetry && attempts < 2 {
                // What the operation loop does after a retryable failure.
                let _ = child.request("sanitize");
                carried = None;
                continue
            }
            break
        }
        if violated { break }
    }
    child.finish();
    if let Some(last) = last {
        w.ctx.count(&format!("final:{}", last.as_str()));
        sig.push_str(&format!("/{}", last.as_str()));
    }
    w.ctx.nontrivial(sig);
}

/// What the unkilled run of the update under test does.
struct TraceInfo {
    pre: Option<LocalObs>,
    done: Option<LocalObs>,
    hooks: Vec<String>,
    touched: BTreeSet<u64>,
    via_snapshot: bool,
    /// (syscall, ordinal among the main thread's calls of that syscall)
    sys_points: Vec<(String, usize)>,
}

fn trace_run(w: &mut World, template: &Path, t_now: i64) -> Option<TraceInfo> {
    let dir = tempfile::tempdir().expect("tempdir");
    let root = dir.path().join("c");
    copy_dir(template, &root);
    let config = make_config(&root, w.crash.mc, w.crash.ml);
    let pre = observe(&config).ok()?;
    let events = dir.path().join("events.log");
    let strace_out = dir.path().join("strace.out");
    let step = w.crash.step(w.crash.target);
    // First run: hook events (the event log itself causes file-system
    // calls, so syscalls are traced in a second run on a second copy).
    let mut child = Child::spawn(
        &root, &w.uri, w.crash.mc, w.crash.ml,
        &[("VERIF_EVENT_LOG", events.display().to_string())], None,
    );
    let (res, served, log) = child_update(&mut child, w.srv, 50, &step, t_now + 60);
    child.finish();
    let (outcome, _) = res?;
    if outcome != Outcome::Updated {
        w.ctx.count("trace-run-not-updated");
        return None
    }
    {
        let root2 = dir.path().join("c2");
        copy_dir(template, &root2);
        let strace = vec![
            "-f".to_string(), "-y".into(), "-o".into(), strace_out.display().to_string(),
            "-e".into(), format!("trace={FS_SYSCALLS}"),
        ];
        let mut child = Child::spawn(&root2, &w.uri, w.crash.mc, w.crash.ml, &[], Some(strace));
        let _ = child_update(&mut child, w.srv, 50, &step, t_now + 60);
        child.finish();
    }
    let done = observe(&config).ok()?;
    let hooks: Vec<String> = std::fs::read_to_string(&events).unwrap_or_default()
        .lines().filter(|l| l.starts_with("store.")).map(String::from).collect();
    let mut touched = BTreeSet::new();
    let mut via_snapshot = false;
    for r in &log {
        if let Some(i) = served.file_paths.iter().position(|p| *p == r.path) {
            match step.files[i].kind {
                FileKind::Delta => for e in &step.files[i].elems { touched.insert(e.uri()); }
                _ => via_snapshot = true,
            }
        }
    }
    // File-system syscalls of the updating thread on the cache directory.
    let mut sys_points = Vec::new();
    let text = std::fs::read_to_string(&strace_out).unwrap_or_default();
    let mut counts: BTreeMap<String, usize> = BTreeMap::new();
    let cache = dir.path().join("c2").join("cache").display().to_string();
    // All cache operations happen on the thread that runs the update.
    let main_pid = text.lines().find(|l| l.contains(&cache))
        .and_then(|l| l.split_whitespace().next()).map(String::from);
    if let Some(main_pid) = main_pid {
        for line in text.lines() {
            let mut parts = line.splitn(2, ' ');
            let pid = parts.next().unwrap_or("");
            let rest = parts.next().unwrap_or("").trim_start();
            if pid != main_pid { continue }
            let Some(name) = rest.split('(').next() else { continue };
            if !FS_SYSCALLS.split(',').any(|s| s == name) { continue }
            let n = counts.entry(name.to_string()).or_insert(0);
            *n += 1;
            if rest.contains(&cache) {
                sys_points.push((name.to_string(), *n));
            }
        }
    }
    Some(TraceInfo { pre, done, hooks, touched, via_snapshot, sys_points })
}

fn kills_for(trace: &TraceInfo, quick: bool) -> Vec<Kill> {
    let n = trace.hooks.len();
    let mut res = Vec::new();
    // Writes into the temporary snapshot archive all recover alike: sample
    // them in the quick tier. Everything from the remove on is enumerated.
    let first_live = trace.hooks.iter().position(|h| h == "store.remove");
    for k in 1..=n {
        let in_temp = first_live.map(|p| k <= p).unwrap_or(false);
        if quick && in_temp && !(k == 1 || k % 9 == 0 || Some(k) == first_live) { continue }
        res.push(Kill::Hook(k));
    }
    let mut writes = 0;
    for (name, ord) in &trace.sys_points {
        if name == "write" || name == "pwrite64" {
            writes += 1;
            if quick && writes % 4 != 1 { continue }
        }
        res.push(Kill::Sys(name.clone(), *ord));
    }
    res
}

pub fn run_c24(ctx: &mut Ctx) {
    ctx.rule = "case = (crash scenario, kill point): genuine history, uninterrupted setup updates, the update under test \
        (first snapshot, 1-3 deltas with publish/in-place update/re-paged update/withdraw, snapshot over an existing \
        archive, new session, not-modified touch) killed in a child process at the n-th store.* hook hit (archive \
        write through the memory map or file, truncate, remove, rename) or the n-th file-system syscall on the cache \
        directory (strace inject), n enumerated from an unkilled trace of the current code; then a fresh process \
        updates against the same and later versions (sanitize + retry after a retryable failure); distinct = \
        distinct (kill kind, state left, final outcome)".into();
    let srv = Server::start();
    let quick = ctx.quick();
    let mut cases: Vec<(Crash, Option<Kill>)> = Vec::new();
    if let Some(replay) = ctx.replay_inputs() {
        for v in replay {
            if let Some(c) = v.get("crash").and_then(Crash::from_json) {
                cases.push((c, v.get("kill").and_then(Kill::from_json)));
            }
        }
    } else {
        for v in ctx.corpus("C24") {
            if let Some(c) = v.get("crash").and_then(Crash::from_json) {
                cases.push((c, v.get("kill").and_then(Kill::from_json)));
            }
        }
        for c in fixed_crashes() { cases.push((c, None)); }
        let mut rng = ctx.rng.fork();
        for _ in 0..ctx.budget(1, 15) { cases.push((random_crash(&mut rng), None)); }
    }
    let mut total_points = 0usize;
    for (crash, only) in cases {
        let dir = tempfile::tempdir().expect("tempdir");
        let template = dir.path().join("template");
        std::fs::create_dir_all(&template).expect("template dir");
        let uri = srv.url("/rrdp/notification.xml");
        srv.clear();
        let mut w = World {
            ctx, srv: &srv, crash: &crash, input: json!({"crash": crash.to_json()}),
            uri, ids: HashIds::default(),
        };
        let Some(t_now) = build_template(&mut w, &template) else { continue };
        let Some(trace) = trace_run(&mut w, &template, t_now) else { continue };
        w.ctx.count_n("hook-points", trace.hooks.len() as u64);
        w.ctx.count_n("syscall-points", trace.sys_points.len() as u64);
        w.ctx.count(if trace.via_snapshot { "under-test:snapshot" } else if trace.touched.is_empty() && trace.hooks.len() < 12 { "under-test:state-only" } else { "under-test:delta" });
        let kills = match only {
            Some(k) => vec![k],
            None => kills_for(&trace, quick),
        };
        for kill in kills {
            total_points += 1;
            w.input = json!({"crash": crash.to_json(), "kill": kill.to_json()});
            run_kill(&mut w, &template, t_now, &kill, &trace);
        }
    }
    ctx.extra("kill_points_run", json!(total_points));
}

#[allow(dead_code)]
fn unused(_: PathBuf) { }
