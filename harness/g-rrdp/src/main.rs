//! Group "rrdp": C25 (RRDP updates reproduce the server state) and C24
//! (crash safety of RRDP updates).
mod world;
mod gen;
mod c25;
mod c24;

fn run(name: &str, ctx: &mut rvcore::Ctx) -> bool {
    match name {
        "c25" => c25::run_c25(ctx),
        "c24" => c24::run_c24(ctx),
        _ => return false
    }
    true
}

fn special(name: &str, args: &[String]) -> Option<i32> {
    match name {
        "rrdp-child" => Some(c24::child_main(args)),
        _ => None
    }
}

fn main() { rvcore::main_with(run, special) }
