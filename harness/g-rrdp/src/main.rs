fn main() {}
