//! Convenience constructors for descriptions (all fields stay editable).

use crate::spec::*;

/// The conventional "now" of generated scenarios (2023-11-14T22:13:20Z).
pub const T0: i64 = 1_700_000_000;
pub const HOUR: i64 = 3600;
pub const DAY: i64 = 86_400;
pub const YEAR: i64 = 365 * DAY;

/// A CA publishing at `rsync://<loc>` (`loc` = `"host/module/dir/"`) with
/// manifest `<name>.mft` and CRL `<name>.crl` and no versions yet.
pub fn ca(name: &str, key: usize, loc: &str, cert_uri: &str) -> CaSpec {
    assert!(loc.ends_with('/'));
    CaSpec {
        name: name.into(), key,
        repo: format!("rsync://{loc}"),
        mft: format!("{name}.mft"),
        crl: format!("{name}.crl"),
        notify: None,
        cert_uri: cert_uri.into(),
        versions: Vec::new(),
    }
}

/// A publication point version with manifest number `number`, manifest and
/// CRL valid from `this_update` to `next_update`, a manifest EE certificate
/// valid from a day before `this_update` for a year, and no objects.
pub fn version(number: u64, this_update: i64, next_update: i64) -> PointVersion {
    PointVersion {
        number: format!("{number:x}"),
        this_update, next_update,
        ee_serial: 1_000_000 + number,
        ee_not_before: this_update - DAY,
        ee_not_after: this_update + YEAR,
        mft_fault: Fault::None,
        mft_publish: Publish::Normal,
        crl: CrlSpec {
            this_update, next_update, number,
            revoked: Vec::new(), fault: Fault::None, publish: Publish::Normal,
        },
        objects: Vec::new(),
    }
}

fn obj(name: &str, serial: u64, kind: ObjKind) -> ObjSpec {
    ObjSpec {
        name: name.into(), kind, serial,
        not_before: T0 - DAY, not_after: T0 + YEAR,
        fault: Fault::None, publish: Publish::Normal,
    }
}

/// A ROA `name` for one IPv4/IPv6 prefix, valid around [`T0`].
pub fn roa(name: &str, serial: u64, asn: u32, prefix: &str, max_len: Option<u8>) -> ObjSpec {
    obj(name, serial, ObjKind::Roa {
        asn, prefixes: vec![RoaPfx { prefix: prefix.into(), max_len }]
    })
}

pub fn aspa(name: &str, serial: u64, customer: u32, providers: &[u32]) -> ObjSpec {
    obj(name, serial, ObjKind::Aspa { customer, providers: providers.to_vec() })
}

pub fn router(name: &str, serial: u64, asns: &[u32], key: usize) -> ObjSpec {
    obj(name, serial, ObjKind::Router { asns: asns.to_vec(), key })
}

pub fn gbr(name: &str, serial: u64) -> ObjSpec {
    obj(name, serial, ObjKind::Gbr)
}

/// The certificate `name` for child CA `ca` with resources `res`.
pub fn child_cert(name: &str, serial: u64, ca: &str, res: Res) -> ObjSpec {
    obj(name, serial, ObjKind::Ca { ca: ca.into(), res, trim: false })
}

pub fn raw(name: &str, bytes: &[u8]) -> ObjSpec {
    obj(name, 0, ObjKind::Raw { hex: crate::build::hex_encode(bytes) })
}

/// A well-formed trust anchor certificate file for CA `ca`.
pub fn ta_file(uri: &str, ca: &str, key: usize, res: Res) -> TaFile {
    TaFile {
        uri: uri.into(),
        content: TaContent::Cert {
            ca: ca.into(), key, serial: 1,
            not_before: T0 - 10 * DAY, not_after: T0 + 5 * YEAR,
            res, fault: Fault::None,
        }
    }
}

pub fn tal(name: &str, key: usize, uris: &[&str]) -> TalSpec {
    TalSpec {
        name: name.into(), key,
        uris: uris.iter().map(|s| s.to_string()).collect(),
        runs: None,
    }
}
