//! Runs the real validation engine over a fake server.
//!
//! A [`Bench`] owns a scratch directory `…/.scratch/rt-<pid>/<label>-<n>`
//! with a cache directory, a TAL directory, a server directory read by the
//! fake rsync and the rsync invocation log. Several consecutive
//! [`Bench::run`]s share cache and store, so histories can be played; the
//! fake clock (`rvcore::clock::set`) decides "now" for each run.

use std::collections::BTreeMap;
use std::fs;
use std::path::{Path, PathBuf};
use std::sync::atomic::{AtomicUsize, Ordering};
use std::time::Instant;
use serde::{Deserialize, Serialize};
use serde_json::{json, Value};
use routinator::config::{Config, FilterPolicy};
use routinator::engine::Engine;
use routinator::metrics::{Metrics, PublicationMetrics};
use routinator::payload::{PayloadSnapshot, ValidationReport};
use routinator::slurm::LocalExceptions;
use crate::build::{hex_encode, sha256, Builder, ServerTree};
use crate::spec::{RsyncCtl, Serve, World};
use crate::store::{dump_store, list_dir, StoreDump};

//------------ EngineOpts ----------------------------------------------------

#[derive(Clone, Copy, Debug, Default, Deserialize, Eq, PartialEq, Serialize)]
pub enum Policy {
    #[default]
    Reject,
    Warn,
    Accept,
}

impl Policy {
    pub fn to_filter(self) -> FilterPolicy {
        match self {
            Policy::Reject => FilterPolicy::Reject,
            Policy::Warn => FilterPolicy::Warn,
            Policy::Accept => FilterPolicy::Accept,
        }
    }
    pub fn as_str(self) -> &'static str {
        match self {
            Policy::Reject => "reject",
            Policy::Warn => "warn",
            Policy::Accept => "accept",
        }
    }
}

fn yes() -> bool { true }
fn default_depth() -> usize { 32 }
fn one() -> usize { 1 }

/// The configuration knobs the engine-group properties vary. Everything
/// else is `Config::default_with_paths` (with `no_rir_tals`).
#[derive(Clone, Debug, Deserialize, Eq, PartialEq, Serialize)]
pub struct EngineOpts {
    /// `Engine::new(config, update)`: use the collector?
    #[serde(default = "yes")]
    pub update: bool,
    #[serde(default = "yes")]
    pub disable_rrdp: bool,
    #[serde(default)]
    pub disable_rsync: bool,
    /// Policy for stale manifests and CRLs (routinator's default: reject).
    #[serde(default)]
    pub stale: Policy,
    /// Policy for unsafe VRPs (routinator's default: accept).
    #[serde(default = "accept")]
    pub unsafe_vrps: Policy,
    #[serde(default)]
    pub strict: bool,
    #[serde(default = "default_depth")]
    pub max_ca_depth: usize,
    #[serde(default = "one")]
    pub threads: usize,
    #[serde(default)]
    pub enable_aspa: bool,
    #[serde(default)]
    pub enable_bgpsec: bool,
    /// `dirty_repository`: skip cleanup.
    #[serde(default)]
    pub dirty: bool,
    #[serde(default)]
    pub limit_v4_len: Option<u8>,
    #[serde(default)]
    pub limit_v6_len: Option<u8>,
    /// Run `cleanup()` after a successful `process()` like
    /// `ValidationReport::process` does.
    #[serde(default = "yes")]
    pub cleanup: bool,
}

fn accept() -> Policy { Policy::Accept }

impl Default for EngineOpts {
    fn default() -> Self {
        EngineOpts {
            update: true, disable_rrdp: true, disable_rsync: false,
            stale: Policy::Reject, unsafe_vrps: Policy::Accept, strict: false,
            max_ca_depth: 32, threads: 1, enable_aspa: false,
            enable_bgpsec: false, dirty: false, limit_v4_len: None,
            limit_v6_len: None, cleanup: true,
        }
    }
}

//------------ RunOutput -----------------------------------------------------

#[derive(Clone, Debug, Eq, PartialEq)]
pub enum RunStatus {
    Ok,
    /// `Engine::new`/`ignite`/`start` failed.
    SetupFailed(&'static str),
    /// `process()` failed with a retryable error.
    Retry,
    /// `process()` failed fatally.
    Fatal,
    /// `cleanup()` failed.
    CleanupFailed,
}

impl RunStatus {
    pub fn as_str(&self) -> &'static str {
        match self {
            RunStatus::Ok => "ok",
            RunStatus::SetupFailed(_) => "setup-failed",
            RunStatus::Retry => "retry",
            RunStatus::Fatal => "fatal",
            RunStatus::CleanupFailed => "cleanup-failed",
        }
    }
}

/// Publication metrics as a map of the non-zero counters.
pub type Counters = BTreeMap<String, u32>;

pub fn counters(m: &PublicationMetrics) -> Counters {
    let all = [
        ("valid_points", m.valid_points),
        ("rejected_points", m.rejected_points),
        ("valid_manifests", m.valid_manifests),
        ("invalid_manifests", m.invalid_manifests),
        ("premature_manifests", m.premature_manifests),
        ("stale_manifests", m.stale_manifests),
        ("missing_manifests", m.missing_manifests),
        ("valid_crls", m.valid_crls),
        ("invalid_crls", m.invalid_crls),
        ("stale_crls", m.stale_crls),
        ("stray_crls", m.stray_crls),
        ("valid_ca_certs", m.valid_ca_certs),
        ("valid_router_certs", m.valid_router_certs),
        ("invalid_certs", m.invalid_certs),
        ("valid_roas", m.valid_roas),
        ("invalid_roas", m.invalid_roas),
        ("valid_gbrs", m.valid_gbrs),
        ("invalid_gbrs", m.invalid_gbrs),
        ("valid_aspas", m.valid_aspas),
        ("invalid_aspas", m.invalid_aspas),
        ("others", m.others),
    ];
    all.iter().filter(|(_, v)| *v != 0).map(|(k, v)| (k.to_string(), *v)).collect()
}

#[derive(Clone, Debug, Default)]
pub struct MetricsSummary {
    /// Per TAL (in TAL name order): name, publication counters,
    /// (valid, contributed) VRP counts.
    pub tals: Vec<(String, Counters, u32, u32)>,
    /// Per repository (sorted by URI).
    pub repositories: Vec<(String, Counters, u32, u32)>,
    pub publication: Counters,
    /// rsync module → exit code (`None`: could not run / killed).
    pub rsync: Vec<(String, Option<i32>)>,
}

impl MetricsSummary {
    pub fn from_metrics(m: &Metrics) -> Self {
        let mut repositories: Vec<_> = m.repositories.iter().map(|r| {
            (r.uri.clone(), counters(&r.publication),
             r.payload.all.valid, r.payload.all.contributed)
        }).collect();
        repositories.sort();
        let mut rsync: Vec<_> = m.rsync.iter().map(|r| {
            (r.module.to_string(), r.status.as_ref().ok().and_then(|s| s.code()))
        }).collect();
        rsync.sort();
        MetricsSummary {
            tals: m.tals.iter().map(|t| {
                (t.tal.name().to_string(), counters(&t.publication),
                 t.payload.all.valid, t.payload.all.contributed)
            }).collect(),
            repositories,
            publication: counters(&m.publication),
            rsync,
        }
    }

    pub fn to_json(&self) -> Value {
        json!({
            "tals": self.tals.iter().map(|(n, c, v, k)| json!({"name": n, "pub": c, "valid": v, "contributed": k})).collect::<Vec<_>>(),
            "repositories": self.repositories.iter().map(|(n, c, v, k)| json!({"uri": n, "pub": c, "valid": v, "contributed": k})).collect::<Vec<_>>(),
            "publication": self.publication,
            "rsync": self.rsync,
        })
    }
}

/// Everything observable about one run.
#[derive(Clone, Debug)]
pub struct RunOutput {
    pub status: RunStatus,
    /// `"AS64496 10.0.0.0/24-24"`, sorted.
    pub origins: Vec<String>,
    /// `"AS64496 <ski hex> <sha256(key info) prefix>"`, sorted.
    pub router_keys: Vec<String>,
    /// `"AS64496 => 64497,64498"`, sorted.
    pub aspas: Vec<String>,
    /// The snapshot's refresh time (Unix seconds).
    pub refresh: Option<i64>,
    pub metrics: MetricsSummary,
    /// The fake rsync's log lines written during this run.
    pub rsync_log: Vec<String>,
    pub elapsed_ms: u128,
}

impl RunOutput {
    pub fn ok(&self) -> bool { self.status == RunStatus::Ok }

    /// All payload as one sorted list of strings.
    pub fn payload(&self) -> Vec<String> {
        let mut res: Vec<String> = self.origins.iter().cloned()
            .chain(self.router_keys.iter().map(|s| format!("RK {s}")))
            .chain(self.aspas.iter().map(|s| format!("ASPA {s}")))
            .collect();
        res.sort();
        res
    }

    pub fn to_json(&self) -> Value {
        json!({
            "status": self.status.as_str(),
            "origins": self.origins,
            "router_keys": self.router_keys,
            "aspas": self.aspas,
            "refresh": self.refresh,
            "metrics": self.metrics.to_json(),
            "rsync_log": self.rsync_log,
        })
    }
}

/// Canonical strings for the content of a payload snapshot.
pub fn snapshot_strings(
    snapshot: &PayloadSnapshot
) -> (Vec<String>, Vec<String>, Vec<String>) {
    let mut origins: Vec<String> = snapshot.origins().map(|(o, _)| {
        format!(
            "AS{} {}/{}-{}", o.asn.into_u32(), o.prefix.addr(),
            o.prefix.prefix_len(), o.prefix.resolved_max_len()
        )
    }).collect();
    origins.sort();
    let mut keys: Vec<String> = snapshot.router_keys().map(|(k, _)| {
        format!(
            "AS{} {} {}", k.asn.into_u32(),
            hex_encode(k.key_identifier.as_slice()),
            &hex_encode(&sha256(k.key_info.as_ref()))[..16]
        )
    }).collect();
    keys.sort();
    let mut aspas: Vec<String> = snapshot.aspas().map(|(a, _)| {
        format!(
            "AS{} => {}", a.customer.into_u32(),
            a.providers.iter().map(|p| p.into_u32().to_string()).collect::<Vec<_>>().join(",")
        )
    }).collect();
    aspas.sort();
    (origins, keys, aspas)
}

//------------ Bench ---------------------------------------------------------

static BENCH_COUNT: AtomicUsize = AtomicUsize::new(0);
static LIVE: AtomicUsize = AtomicUsize::new(0);
static EXE_LOCK: std::sync::Mutex<()> = std::sync::Mutex::new(());

fn scratch_base() -> PathBuf {
    PathBuf::from(
        std::env::var("VERIF_DIR").unwrap_or_else(|_| "/verif".into())
    ).join(".scratch")
}

/// The executable acting as rsync: a private copy of this process's own
/// binary (taken through `/proc/self/exe`, so it is the running image even
/// if the file on disk has been replaced by a rebuild meanwhile). The copy
/// lives in the process's scratch directory and is removed together with
/// the last [`Bench`].
pub fn rsync_exe() -> PathBuf {
    let dir = scratch_base().join(format!("rt-{}", std::process::id()));
    let target = dir.join("fake-rsync-exe");
    let _guard = EXE_LOCK.lock().unwrap();
    if !target.exists() {
        let _ = fs::create_dir_all(&dir);
        let tmp = dir.join("fake-rsync-exe.tmp");
        if fs::copy("/proc/self/exe", &tmp).is_err() {
            return std::env::current_exe().expect("current exe")
        }
        #[cfg(unix)]
        {
            use std::os::unix::fs::PermissionsExt;
            let _ = fs::set_permissions(&tmp, fs::Permissions::from_mode(0o755));
        }
        let _ = fs::rename(&tmp, &target);
    }
    target
}

/// Removes scratch directories of harness processes that no longer exist.
fn purge_stale(base: &Path) {
    let Ok(read) = fs::read_dir(base) else { return };
    for entry in read.filter_map(|e| e.ok()) {
        let name = entry.file_name().to_string_lossy().into_owned();
        if let Some(pid) = name.strip_prefix("rt-").and_then(|p| p.parse::<u32>().ok()) {
            if pid != std::process::id() && !Path::new(&format!("/proc/{pid}")).exists() {
                let _ = fs::remove_dir_all(entry.path());
            }
        }
    }
}

pub struct Bench {
    pub dir: PathBuf,
    pub cache: PathBuf,
    pub tals: PathBuf,
    pub server: PathBuf,
    pub rsync_log: PathBuf,
    keep: bool,
}

impl Bench {
    /// Creates a fresh scratch area.
    pub fn new(label: &str) -> Self {
        let base = scratch_base();
        let n = BENCH_COUNT.fetch_add(1, Ordering::SeqCst);
        if n == 0 { purge_stale(&base) }
        let dir = base.join(format!("rt-{}", std::process::id()))
            .join(format!("{label}-{n}"));
        let _ = fs::remove_dir_all(&dir);
        let bench = Bench {
            cache: dir.join("cache"),
            tals: dir.join("tals"),
            server: dir.join("server"),
            rsync_log: dir.join("rsync.log"),
            keep: std::env::var("RPKITEST_KEEP").is_ok(),
            dir,
        };
        LIVE.fetch_add(1, Ordering::SeqCst);
        fs::create_dir_all(&bench.cache).expect("create cache dir");
        fs::create_dir_all(&bench.tals).expect("create tal dir");
        fs::create_dir_all(&bench.server).expect("create server dir");
        bench
    }

    /// Writes `<name>.tal` for every TAL of the world (replacing all TALs).
    pub fn install_tals(&self, builder: &Builder, world: &World) {
        let _ = fs::remove_dir_all(&self.tals);
        fs::create_dir_all(&self.tals).expect("create tal dir");
        for tal in &world.tals {
            fs::write(
                self.tals.join(format!("{}.tal", tal.name)),
                builder.tal_file(tal)
            ).expect("write TAL");
        }
    }

    /// Like [`install_tals`][Self::install_tals] for the TALs that are
    /// installed during run `run` (`TalSpec.runs`).
    pub fn install_tals_for_run(&self, builder: &Builder, world: &World, run: usize) {
        let _ = fs::remove_dir_all(&self.tals);
        fs::create_dir_all(&self.tals).expect("create tal dir");
        for tal in world.tals_in(run) {
            fs::write(
                self.tals.join(format!("{}.tal", tal.name)),
                builder.tal_file(tal)
            ).expect("write TAL");
        }
    }

    /// Publishes a server tree (replacing the previous one).
    pub fn publish(&self, tree: &ServerTree, ctl: &[RsyncCtl]) -> Vec<String> {
        crate::rsync::publish(&self.server, tree, ctl)
    }

    /// Builds and publishes what `serve` describes.
    pub fn serve(&self, builder: &Builder, world: &World, serve: &Serve) -> ServerTree {
        let tree = builder.server_tree(world, serve);
        self.publish(&tree, &serve.rsync);
        tree
    }

    /// The configuration for a run.
    pub fn config(&self, opts: &EngineOpts) -> Config {
        let mut config = Config::default_with_paths(
            self.dir.join("routinator.conf"), self.cache.clone()
        );
        config.no_rir_tals = true;
        config.extra_tals_dir = Some(self.tals.clone());
        config.rsync_command = rsync_exe().to_string_lossy().into_owned();
        config.rsync_args = Some(vec![
            "fake-rsync".into(),
            "--root".into(), self.server.to_string_lossy().into_owned(),
            "--log".into(), self.rsync_log.to_string_lossy().into_owned(),
        ]);
        config.rsync_timeout = Some(std::time::Duration::from_secs(60));
        config.disable_rrdp = opts.disable_rrdp;
        config.disable_rsync = opts.disable_rsync;
        config.stale = opts.stale.to_filter();
        config.unsafe_vrps = opts.unsafe_vrps.to_filter();
        config.strict = opts.strict;
        config.max_ca_depth = opts.max_ca_depth;
        config.validation_threads = opts.threads.max(1);
        config.enable_aspa = opts.enable_aspa;
        config.enable_bgpsec = opts.enable_bgpsec;
        config.dirty_repository = opts.dirty;
        config.limit_v4_len = opts.limit_v4_len;
        config.limit_v6_len = opts.limit_v6_len;
        config
    }

    fn read_log(&self) -> Vec<String> {
        fs::read_to_string(&self.rsync_log).map(|s| {
            s.lines().map(|l| {
                // Strip the scratch prefix so logs are comparable.
                l.replace(&*self.dir.to_string_lossy(), "$B")
            }).collect()
        }).unwrap_or_default()
    }

    /// One complete validation run, the way `routinator vrps`/`update` do
    /// it: `Engine::new`, `ignite`, `start`, `process`, `cleanup`, `done`,
    /// `into_snapshot`.
    pub fn run(&self, opts: &EngineOpts) -> RunOutput {
        self.run_with(opts, |_| {})
    }

    /// Like [`run`][Self::run]; `tweak` may adjust the `Config` first.
    pub fn run_with(
        &self, opts: &EngineOpts, tweak: impl FnOnce(&mut Config)
    ) -> RunOutput {
        let start = Instant::now();
        let log_before = self.read_log().len();
        let mut config = self.config(opts);
        tweak(&mut config);
        let mut out = RunOutput {
            status: RunStatus::Ok,
            origins: Vec::new(), router_keys: Vec::new(), aspas: Vec::new(),
            refresh: None, metrics: Default::default(),
            rsync_log: Vec::new(), elapsed_ms: 0,
        };
        let finish = |mut out: RunOutput, this: &Bench| {
            out.rsync_log = this.read_log().split_off(log_before);
            out.elapsed_ms = start.elapsed().as_millis();
            out
        };
        let mut engine = match Engine::new(&config, opts.update) {
            Ok(engine) => engine,
            Err(_) => {
                out.status = RunStatus::SetupFailed("new");
                return finish(out, self)
            }
        };
        if engine.ignite().is_err() {
            out.status = RunStatus::SetupFailed("ignite");
            return finish(out, self)
        }
        let report = ValidationReport::new(&config);
        let mut metrics = {
            let mut run = match engine.start(&report, false) {
                Ok(run) => run,
                Err(_) => {
                    out.status = RunStatus::SetupFailed("start");
                    return finish(out, self)
                }
            };
            if let Err(err) = run.process() {
                out.status = if err.is_fatal() { RunStatus::Fatal } else { RunStatus::Retry };
                return finish(out, self)
            }
            if opts.cleanup && run.cleanup().is_err() {
                out.status = RunStatus::CleanupFailed;
                return finish(out, self)
            }
            run.done()
        };
        let snapshot = report.into_snapshot(&LocalExceptions::empty(), &mut metrics);
        let (origins, keys, aspas) = snapshot_strings(&snapshot);
        out.origins = origins;
        out.router_keys = keys;
        out.aspas = aspas;
        out.refresh = snapshot.refresh().map(|t| t.timestamp());
        out.metrics = MetricsSummary::from_metrics(&metrics);
        finish(out, self)
    }

    /// Decodes everything in the store (`<cache>/stored`).
    pub fn store(&self) -> StoreDump { dump_store(&self.cache) }

    /// Lists all files under the cache directory: relative path → size.
    pub fn cache_listing(&self) -> BTreeMap<String, u64> { list_dir(&self.cache) }
}

impl Drop for Bench {
    fn drop(&mut self) {
        if !self.keep {
            let _ = fs::remove_dir_all(&self.dir);
            if LIVE.fetch_sub(1, Ordering::SeqCst) == 1 {
                if let Some(parent) = self.dir.parent() {
                    let _guard = EXE_LOCK.lock().unwrap();
                    let _ = fs::remove_file(parent.join("fake-rsync-exe"));
                    let _ = fs::remove_dir(parent);
                }
            }
        }
    }
}
